#!/usr/bin/env python3
# usage: mkround.py <round> : writes /tmp/mutprompts/Cnn_r<round>.txt for every property (brief for a seeding sub-agent),
# listing the functions earlier seeds of that property already touched. Worktrees: /tmp/mut<round>/Cnn
import sys,os,re,glob,subprocess
rnd=sys.argv[1]
os.makedirs('/tmp/mutprompts',exist_ok=True)
STYLE=("Earlier changes were mostly off-by-one, wrong-operator and swapped-argument slips; consider instead a caching / memoisation / "
 "'reuse the previous result' optimisation that goes stale or aliases, a changed default, an early return or `continue` added in the wrong place, "
 "a loop bound, state that is not reset between two calls, a mishandled error path, or a front-end / dispatch step in a request handler that runs "
 "before the shared logic. The effect must be observable through the public LSP behaviour (answers to requests, published diagnostics, or the process dying). "
 "Prefer inputs that look like ordinary real-world Lua code, ordinary project layouts, ordinary client configurations or ordinary editing sessions rather than contrived ones; "
 "larger, multi-file or multi-step inputs are welcome. Less explored so far: project mode (luahelper.json with ProjectFiles / several entry files), settings given through luahelper.json, several workspace folders (workspace/didChangeWorkspaceFolders), non-ASCII text, Windows line endings, files outside the workspace folder, requests on documents that were never saved. While exploring, if you notice that the UNMODIFIED code already violates the property on some realistic input, "
 "mention that input in your final summary as a separate note (it is not your seeded change); say for each such note whether you ran it or only read the code.")
for i in range(1,21):
    pid='C%02d'%i
    touched=[]
    for d in sorted(glob.glob(f'/verif/seeded/{pid}-*/patch.diff'), key=lambda x:int(x.split('-')[-1].split('/')[0])):
        f=None
        for l in open(d,errors='replace'):
            if l.startswith('+++ b/'): f=l[6:].strip()
            m=re.match(r'@@ [^@]*@@ ?(.*)',l)
            if m and f and not f.endswith('_test.go'):
                t=f"{f} (around: {m.group(1)[:80]})" if m.group(1) else f
                if t not in touched: touched.append(t)
    variant=""
    if touched:
        variant=("Earlier seeded changes for this property already modified: "+"; ".join(touched)+". Choose a DIFFERENT function from all of these — preferably in a different source file — "
         "and a different clause or aspect of the property (read the whole statement and the quantifier carefully and list for yourself the kinds of input, features, sequences, "
         "configurations and file layouts it covers; pick one that none of those changes touches), so that your change is independent of them. ")
    variant+=STYLE
    out=subprocess.run(['python3','/verif/tools/mutprompt.py',pid,f'/tmp/mut{rnd}/{pid}',variant],capture_output=True,text=True).stdout
    open(f'/tmp/mutprompts/{pid}_r{rnd}.txt','w').write(out)
print('ok')
