#!/bin/bash
# runs every kept seeded change against the check of its property (and extra properties given in meta), prints a matrix
cd /verif
for d in seeded/*/; do
  id=$(basename $d); prop=$(python3 -c "import json;print(json.load(open('$d/meta.json'))['property'])")
  [ -f harness/$prop/spec.json ] || { echo "$id $prop: no check yet"; continue; }
  (cd /repo && git apply /verif/$d/patch.diff) || { echo "$id apply failed"; continue; }
  VERIF_NOEVIDENCE=1 ./bin/check $prop ${1:-quick} > /tmp/mut_$id.out 2>&1; rc=$?
  git -C /repo checkout -- .
  echo "$id $prop exit=$rc $(grep -c '^VIOLATION' /tmp/mut_$id.out) violations"
done
git -C /repo status --short | head -3
