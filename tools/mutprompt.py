#!/usr/bin/env python3
# prints the brief given to an independent sub-agent that seeds a property-breaking change
import json,sys
pid=sys.argv[1]; wt=sys.argv[2]; variant=sys.argv[3] if len(sys.argv)>3 else ""
for l in open('/verif/properties.jsonl'):
    d=json.loads(l)
    if d['id']==pid: break
rec={k:d[k] for k in d if k not in('source','added_in_round')}
print(f"""You are helping evaluate a verification effort by producing a realistic, subtle regression ("seeded change") in an open-source project. The project is Tencent/LuaHelper, a Lua language server written in Go. You have your own scratch git worktree of the repository at {wt} (the Go module is in {wt}/luahelper-lsp). Work ONLY inside {wt}. Do not read or touch /verif, /repo, /root/.vp or any other worktree under /tmp/mut; they are off limits and irrelevant to your task.

The semantic property the project should satisfy is (JSON record, this is all the specification you get):

{json.dumps(rec,indent=1,ensure_ascii=False)}

Your task: make a small change to the Go source of LuaHelper in your worktree that BREAKS this property, while
 (1) the module still compiles: cd {wt}/luahelper-lsp && GOFLAGS=-mod=mod GOPROXY=off go build ./...
 (2) the existing test suite, unedited, still passes: cd {wt}/luahelper-lsp && GOFLAGS=-mod=mod GOPROXY=off go test -vet=off -count=1 ./...   (all packages; the sandbox has no network)
 (3) the breakage needs something specific to manifest — a particular unusual input, a boundary value, a multi-step sequence of operations, a particular ordering/interleaving, or two cooperating code sites that each look fine alone — NOT something ordinary use would expose at once, and not a crude change (no deleting whole features, no obvious sabotage, no special-casing a magic string). Think of a plausible mistake a maintainer could make in a refactor or "optimisation": an off-by-one, a wrong comparison operator at a boundary, a dropped case in a switch, a swapped argument, a condition that is slightly too strong or weak, a missing reset of state, a changed tie-break.
 (4) the change must introduce a NEW violation: behaviour that is correct on the unmodified code and wrong with your change. Some parts of the property may already be violated by the unmodified code (the record hints at known defects); do not merely re-trigger those. {variant}

Deliver, inside {wt}:
 - the source change itself, left uncommitted in the worktree (git diff must show it; do not commit),
 - a demonstration: a new Go test file (name it zz_seeded_demo_test.go, in whichever package is convenient) or a small Go program that FAILS with your change and PASSES on the unmodified code. Verify both directions yourself: save your change with `git diff > /tmp/<something>.patch`, undo it with `git apply -R`, run the demo against the original code, then re-apply with `git apply`. Do NOT use `git stash`: the stash is shared between all worktrees of this repository and other people are working in sibling worktrees. The demonstration should exercise the real code (public or package-internal functions), not a copy of it.
 - a file {wt}/SEEDED.md with: which clause of the property is broken, exactly what is needed for it to manifest, the commands you ran and their outcome (build, full test suite with the change, demo with and without the change).

Keep the change small (ideally 1-10 lines in one or two files). Prefer changing logic in the code paths the record's anchors point to. When you are done, reply with a short summary: files changed, the diff, how the demo is run, and confirmation of the four conditions. Environment for every shell command: export GOFLAGS=-mod=mod GOPROXY=off GOSUMDB=off GOTOOLCHAIN=local""")
