#!/usr/bin/env python3
# Regenerates /verif/MANIFEST.json from the table below (keeps the interface valid at all times).
import json, os
props=[json.loads(l) for l in open('/verif/properties.jsonl')]
TECH="bounded symbolic execution of the real Go SSA (go/ssa of /repo's working tree) with SMT (z3) deciding branch feasibility and assertion verdicts; counterexamples replayed natively"
NOTE_COMMON=" Trusted: the gosx interpreter's SSA semantics (cross-checked by native replay of sampled paths and of every reported violation), z3 4.8.12, the library models listed in the evidence (validated exhaustively on short strings by `gosx selftest`), and the reference oracle written in the harness. Nothing is claimed outside the stated bounds."
CLAIMS={}
def claim(pid, text, note, ref):
    CLAIMS[pid]=dict(text=text,note=note+NOTE_COMMON,ref=ref)
exec(open('/verif/tools/claims.py').read())
checks=[]
for p in props:
    pid=p['id']
    if pid in CLAIMS and os.path.exists(f'/verif/harness/{pid}/spec.json'):
        c=dict(CLAIMS[pid])
        # the claim text was written when the first jobs existed; the jobs registered now are listed from the spec
        spec=json.load(open(f'/verif/harness/{pid}/spec.json'))
        names=[j['name'] for j in spec['jobs']]
        c['text']=c['text']+" All jobs registered now (each with its bound in the evidence file and in DESIGN.md 0.2): "+", ".join(names)+"."
        checks.append({"property_id":pid,"quick_cmd":f"bin/check {pid} quick","thorough_cmd":f"bin/check {pid} thorough","evidence_file":f"/verif/evidence/{pid}.json","replay_cmd_template":"cat {path}  # model file; re-run `bin/check "+pid+" quick` to rebuild and replay it natively","engine":"gosx","level_claimed":{"category":("other" if pid=="C10" else "model_checking"),"text":c['text'],"design_ref":c['ref']},"level_note":c['note'],"technique":TECH})
na=[]
NA=json.load(open('/verif/tools/not_applicable.json'))
for p in props:
    if p['id'] not in [c['property_id'] for c in checks]:
        na.append({"property_id":p['id'],"reason":NA.get(p['id'],"check not built yet (build in progress; see DESIGN.md section 4)")})
m={"version":1,
 "setup_cmd":"cd /verif/engine && GOFLAGS=-mod=mod GOPROXY=off GOSUMDB=off GOTOOLCHAIN=local go build -o /verif/bin/gosx . && /verif/bin/gosx selftest",
 "hooks":{"guard":"verif","enable":"none needed: harnesses and native replay tests are injected with go/packages overlays and `go test -overlay`; /repo carries no hook code","baseline_off_cmd":"cd /repo/luahelper-lsp && GOFLAGS=-mod=mod GOPROXY=off go test -vet=off -count=1 -timeout 25m ./...","source_commits":[],"add_only":True},
 "engines":[{"name":"gosx","path":"/verif/engine","serves_properties":[c['property_id'] for c in checks],"kind_free_text":"bounded symbolic executor for Go SSA (x/tools v0.29.0) with z3 over a pipe, 16 workers, native replay via go test -overlay"}],
 "checks":checks,
 "notes":"Exit codes of every check: 0 held within the bounds (KNOWN-FINDING lines for listed defects), 1 confirmed new violation (VIOLATION line), 2 inconclusive (solver unknown, unsupported operation, engine discrepancy, vacuity guard). Known findings: /verif/known_findings.txt. Seeded changes: /verif/seeded/.",
 "not_applicable":na}
json.dump(m,open('/verif/MANIFEST.json','w'),indent=1)
print("checks:",[c['property_id'] for c in checks],"n/a:",len(na))
