#!/usr/bin/env python3
# regenerates the "jobs and bounds" list in DESIGN.md (between the GENERATED-JOBS markers) from harness/*/spec.json
import json,glob,re
out=[]
for f in sorted(glob.glob('/verif/harness/C*/spec.json')):
    d=json.load(open(f))
    out.append(f"**{d['property']}**")
    for j in d['jobs']:
        q=j['tiers'].get('quick',{}); t=j['tiers'].get('thorough',{})
        fmt=lambda x: ', '.join(f"{k}={v}" for k,v in x.items()) or '-'
        extras=[k for k in ('explore_sched','permute_maps','trace_access','replay_race') if j.get(k)]
        out.append(f"- `{j['name']}` ({j['entry']}): {j['bound']}. quick: {fmt(q)}; thorough: {fmt(t)}" + (f"; {', '.join(extras)}" if extras else ''))
    out.append('')
s=open('/verif/DESIGN.md').read()
a='<!-- GENERATED-JOBS-BEGIN -->'; b='<!-- GENERATED-JOBS-END -->'
block=a+'\n'+'\n'.join(out)+'\n'+b
if a in s:
    s=re.sub(re.escape(a)+'.*?'+re.escape(b), lambda m: block, s, flags=re.S)
else:
    marker='Shared oracle code: `harness/common/pipe.go`'
    i=s.index(marker)
    s=s[:i]+'The table above summarises; the exact list of jobs with their bounds, generated from `harness/*/spec.json` by `tools/mkjobs.py`:\n\n'+block+'\n\n'+s[i:]
open('/verif/DESIGN.md','w').write(s)
print(len(out),'lines')
