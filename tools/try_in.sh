#!/bin/bash
# usage: try_in.sh <worktree> <seed-id|-> <property> [extra gosx args] — like try_mutant.sh but against a scratch worktree
# (so that it can run while tools/mutants.sh is busy with /repo); never writes evidence.
wt=$1; id=$2; prop=$3; shift 3
if [ "$id" != "-" ]; then (cd $wt && git apply /verif/seeded/$id/patch.diff) || { echo "apply failed"; exit 2; }; fi
cd /verif && GOFLAGS=-mod=mod GOPROXY=off GOSUMDB=off GOTOOLCHAIN=local ./bin/gosx check -repo $wt/luahelper-lsp -verif /verif -prop $prop -tier quick -noevidence "$@" > /tmp/tryin_$prop.out 2>&1; rc=$?
[ "$id" != "-" ] && git -C $wt checkout -- .
echo "exit=$rc"; grep -E "^VIOLATION|^  class|^KNOWN|^INCONCLUSIVE|^ENGINE|^OK|^\[C" /tmp/tryin_$prop.out | head -${LINES_MAX:-12} | cut -c1-260
