#!/bin/bash
# usage: try_job.sh <seed-id|-> <property> <job> [tier] — applies a kept seed to /repo, runs ONE job of the property's check (no evidence), undoes it.
id=$1; prop=$2; job=$3; tier=${4:-quick}
if [ "$id" != "-" ]; then (cd /repo && git apply /verif/seeded/$id/patch.diff) || { echo "apply failed"; exit 2; }; fi
cd /verif && GOFLAGS=-mod=mod GOPROXY=off GOSUMDB=off GOTOOLCHAIN=local ./bin/gosx check -repo /repo/luahelper-lsp -verif /verif -prop $prop -tier $tier -noevidence -v -job $job > /tmp/tryjob_$prop.out 2>&1; rc=$?
[ "$id" != "-" ] && git -C /repo checkout -- .
echo "exit=$rc"; grep -E "^VIOLATION|^  class|^INCONCLUSIVE|^ENGINE|^OK|^\[C|model=" /tmp/tryjob_$prop.out | head -${LINES_MAX:-8} | cut -c1-240
