#!/bin/bash
# usage: try_mutant.sh <seed-id> <property> [tier] — applies a kept seeded change to /repo, runs the check, undoes it.
id=$1; prop=$2; tier=${3:-quick}
cd /repo && git apply /verif/seeded/$id/patch.diff || { echo "apply failed"; exit 2; }
cd /verif && VERIF_NOEVIDENCE=1 ./bin/check $prop $tier > /tmp/try_$id.out 2>&1; rc=$?
git -C /repo checkout -- . 
echo "exit=$rc"; grep -E "^VIOLATION|^  class|^KNOWN|^INCONCLUSIVE|^ENGINE|^OK" /tmp/try_$id.out | head -20
git -C /repo status --short | head -3
