#!/bin/bash
# usage: keep_mutant.sh <worktree> <seed-id> <property>
# Confirms a seeded change independently (build, unedited suite passes, demo fails with / passes without), then stores it under /verif/seeded/<seed-id>/.
set -u
export GOFLAGS=-mod=mod GOPROXY=off GOSUMDB=off GOTOOLCHAIN=local
wt=$1; id=$2; prop=$3
out=/verif/seeded/$id
cd $wt || exit 2
demo=$(git status --short | grep '^??' | awk '{print $2}' | grep -E 'zz_seeded.*\.go$|seeded.*\.go$' | head -5)
[ -z "$demo" ] && { echo "no demo file found"; git status --short; exit 2; }
echo "demo files: $demo"
git diff > /tmp/keep_$id.diff
[ -s /tmp/keep_$id.diff ] || { echo "empty diff"; exit 2; }
mkdir -p /tmp/keep_$id.demo
for d in $demo; do mkdir -p /tmp/keep_$id.demo/$(dirname $d); cp $d /tmp/keep_$id.demo/$d; done
log=/tmp/keep_$id.log; : > $log
# 1. build + full suite with change, demo moved aside
for d in $demo; do mv $d $d.aside; done
(cd luahelper-lsp && go build ./... ) >> $log 2>&1; b=$?
(cd luahelper-lsp && go test -vet=off -count=1 ./... ) > /tmp/keep_$id.suite 2>&1; s=$?
for d in $demo; do mv $d.aside $d; done
echo "build_with_change=$b suite_with_change=$s" | tee -a $log
# 2. demo with change
pk=$(for d in $demo; do dirname $d; done | sort -u | sed 's#^luahelper-lsp/#./#')
(cd luahelper-lsp && go test -vet=off -count=1 -run 'Seeded|seeded|Demo' $pk ) > /tmp/keep_$id.demo_with 2>&1; dw=$?
echo "demo_with_change_exit=$dw" | tee -a $log
# 3. demo without change
git apply -R /tmp/keep_$id.diff
(cd luahelper-lsp && go test -vet=off -count=1 -run 'Seeded|seeded|Demo' $pk ) > /tmp/keep_$id.demo_without 2>&1; dwo=$?
git apply /tmp/keep_$id.diff
echo "demo_without_change_exit=$dwo" | tee -a $log
if [ $b -eq 0 ] && [ $s -eq 0 ] && [ $dw -ne 0 ] && [ $dwo -eq 0 ]; then
  mkdir -p $out/demo
  cp /tmp/keep_$id.diff $out/patch.diff
  cp -r /tmp/keep_$id.demo/. $out/demo/
  [ -f SEEDED.md ] && cp SEEDED.md $out/SEEDED.md
  cat > $out/meta.json <<M
{"seed_id": "$id", "property": "$prop", "confirmed": {"build_with_change": "ok", "unedited_suite_with_change": "pass", "demo_with_change": "FAIL (exit $dw)", "demo_without_change": "pass"},
 "ran": ["go build ./...", "go test -vet=off -count=1 ./... (demo moved aside)", "go test -run 'Seeded|seeded|Demo' $(echo $pk | tr '\n' ' ') with and without the change (git apply -R)"],
 "needs_to_manifest": "see SEEDED.md", "demo_files": "$(echo $demo | tr '\n' ' ' | tr -s ' ')"}
M
  echo "KEPT $out"
else
  echo "REJECTED (see /tmp/keep_$id.*)"; tail -5 /tmp/keep_$id.suite; tail -15 /tmp/keep_$id.demo_with; tail -5 /tmp/keep_$id.demo_without
fi
rm -rf /tmp/keep_$id.demo
