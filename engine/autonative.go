package main

import (
	"fmt"
	"path/filepath"
	"reflect"
	"strings"
	"unicode"
	"unicode/utf8"

	"golang.org/x/tools/go/ssa"
)

// autoNative wraps a real Go function of simple signature (ints, runes, bools, strings, []string,
// []byte, error) so that the interpreter calls the real library with concrete arguments.
// Symbolic integer arguments are concretised by forking; symbolic strings abort as unsupported.
func autoNative(name string, fn interface{}) extFn {
	fv := reflect.ValueOf(fn)
	ft := fv.Type()
	return func(e *Engine, _ *frame, _ *ssa.Function, a []value) value {
		in := make([]reflect.Value, ft.NumIn())
		for i := range in {
			t := ft.In(i)
			var v value
			if i < len(a) {
				v = a[i]
			}
			in[i] = e.toReflect(name, v, t)
		}
		var out []reflect.Value
		if ft.IsVariadic() {
			out = fv.CallSlice(in)
		} else {
			out = fv.Call(in)
		}
		res := make([]value, len(out))
		for i, o := range out {
			res[i] = fromReflect(o)
		}
		switch len(res) {
		case 0:
			return nil
		case 1:
			return res[0]
		}
		return tuple(res)
	}
}

func (e *Engine) toReflect(name string, v value, t reflect.Type) reflect.Value {
	switch t.Kind() {
	case reflect.Bool:
		return reflect.ValueOf(e.truth(v)).Convert(t)
	case reflect.Int, reflect.Int8, reflect.Int16, reflect.Int32, reflect.Int64:
		var c uint64
		switch x := v.(type) {
		case uint64:
			c = x
		case *symv:
			c = e.concretize(x.t)
			return reflect.ValueOf(sext(c, x.t.bits)).Convert(t)
		}
		return reflect.ValueOf(sext(c, t.Bits())).Convert(t)
	case reflect.Uint, reflect.Uint8, reflect.Uint16, reflect.Uint32, reflect.Uint64:
		var c uint64
		switch x := v.(type) {
		case uint64:
			c = x
		case *symv:
			c = e.concretize(x.t)
		}
		return reflect.ValueOf(c).Convert(t)
	case reflect.String:
		return reflect.ValueOf(e.needStr(v, name)).Convert(t)
	case reflect.Slice:
		xs, _ := v.([]value)
		s := reflect.MakeSlice(t, len(xs), len(xs))
		for i, x := range xs {
			s.Index(i).Set(e.toReflect(name, x, t.Elem()))
		}
		return s
	}
	e.unsupported("autoNative " + name + ": parameter type " + t.String())
	return reflect.Value{}
}

func fromReflect(o reflect.Value) value {
	switch o.Kind() {
	case reflect.Bool:
		return o.Bool()
	case reflect.Int, reflect.Int8, reflect.Int16, reflect.Int32, reflect.Int64:
		return mask(uint64(o.Int()), o.Type().Bits())
	case reflect.Uint, reflect.Uint8, reflect.Uint16, reflect.Uint32, reflect.Uint64:
		return o.Uint()
	case reflect.String:
		return o.String()
	case reflect.Slice:
		if o.IsNil() {
			return []value(nil)
		}
		r := make([]value, o.Len())
		for i := range r {
			r[i] = fromReflect(o.Index(i))
		}
		return r
	case reflect.Interface:
		if o.IsNil() {
			return iface{}
		}
		if err, ok := o.Interface().(error); ok {
			return mkError(err.Error())
		}
	}
	panic(fmt.Sprintf("fromReflect: %v", o.Type()))
}

func init() {
	auto := map[string]interface{}{
		"unicode.IsUpper":              unicode.IsUpper,
		"unicode.IsLower":              unicode.IsLower,
		"unicode.ToUpper":              unicode.ToUpper,
		"unicode.ToLower":              unicode.ToLower,
		"unicode.IsLetter":             unicode.IsLetter,
		"unicode.IsDigit":              unicode.IsDigit,
		"unicode.IsSpace":              unicode.IsSpace,
		"unicode/utf8.RuneLen":         utf8.RuneLen,
		"unicode/utf8.ValidString":     utf8.ValidString,
		"strings.ToUpper":              strings.ToUpper,
		"strings.Title":                strings.Title,
		"strings.Repeat":               strings.Repeat,
		"strings.EqualFold":            strings.EqualFold,
		"strings.IndexByte":            strings.IndexByte,
		"strings.IndexRune":            strings.IndexRune,
		"strings.IndexAny":             strings.IndexAny,
		"strings.LastIndexByte":        strings.LastIndexByte,
		"strings.ContainsRune":         strings.ContainsRune,
		"strings.ContainsAny":          strings.ContainsAny,
		"strings.TrimRight":            strings.TrimRight,
		"strings.Trim":                 strings.Trim,
		"strings.Fields":               strings.Fields,
		"strings.SplitN":               strings.SplitN,
		"strings.Compare":              strings.Compare,
		"path/filepath.Base":           filepath.Base,
		"path/filepath.Dir":            filepath.Dir,
		"path/filepath.Ext":            filepath.Ext,
		"path/filepath.Clean":          filepath.Clean,
		"path/filepath.ToSlash":        filepath.ToSlash,
		"path/filepath.IsAbs":          filepath.IsAbs,
		"path/filepath.Join":           filepath.Join,
		"path/filepath.Rel":            filepath.Rel,
		"path/filepath.Abs":            filepath.Abs,
	}
	for k, f := range auto {
		if _, ok := natives[k]; !ok {
			natives[k] = autoNative(k, f)
		}
	}
}
