package main

import (
	"fmt"
	"regexp"
	"go/types"
	"sort"
	"strings"
	"sync"
	"sync/atomic"

	"golang.org/x/tools/go/ssa"
)

type decision struct {
	conc  bool   // concretisation decision (else branch decision)
	taken bool   // branch: direction; conc: v == val (true) or v != val (false)
	val   uint64 // conc only
	force bool   // only one side feasible: no alternative was queued
}

// pathEnd terminates the current path (not a Go-level panic of the interpreted program).
type pathEnd struct {
	kind string // assume, steps, depth, unsupported, infeasible, unknown
	msg  string
}

// targetPanic is a Go-level panic of the interpreted program.
type targetPanic struct{ v value }

type violation struct {
	Class   string            `json:"class"`
	Msg     string            `json:"msg"`
	Kind    string            `json:"kind"` // assert, explicit, panic, depth, steps
	Model   map[string]uint64 `json:"model"`
	Job     string            `json:"job"`
	Replay  string            `json:"replay,omitempty"`
	Native  string            `json:"native,omitempty"` // confirmed / not-reproduced / not-run
	NativeO string            `json:"native_output,omitempty"`
}

type obs struct {
	tag string
	v   value
}

type domain struct {
	vals      []uint64
	entangled bool
}

// Shared is the state shared by all workers of one job.
type Shared struct {
	prog     *ssa.Program
	mu       sync.Mutex
	cond     *sync.Cond
	work     [][]decision
	active   int
	stopped  bool
	paths    int64
	maxPaths int64
	params   map[string]int64
	fnInfo   sync.Map // *ssa.Function -> *fnInfo
	extCache sync.Map // *ssa.Function -> extEntry
	job      string
	verbose  bool
	paranoid int // cross-check every n-th solver-free decision with the solver (0 = off)
	overrides map[string]extFn
	permuteMaps bool
	mapPermBudget int
	exploreSched bool
	traceAccess  bool
	schedBudget  int
}

func (sh *Shared) pushWork(p []decision) {
	sh.mu.Lock()
	sh.work = append(sh.work, p)
	sh.mu.Unlock()
	sh.cond.Signal()
}

// popWork blocks until work is available or exploration has finished.
func (sh *Shared) popWork() ([]decision, bool) {
	sh.mu.Lock()
	defer sh.mu.Unlock()
	for {
		if sh.stopped {
			return nil, false
		}
		if n := len(sh.work); n > 0 {
			p := sh.work[n-1]
			sh.work = sh.work[:n-1]
			sh.active++
			return p, true
		}
		if sh.active == 0 {
			sh.stopped = true
			sh.cond.Broadcast()
			return nil, false
		}
		sh.cond.Wait()
	}
}

func (sh *Shared) doneWork() {
	sh.mu.Lock()
	sh.active--
	if sh.active == 0 && len(sh.work) == 0 {
		sh.stopped = true
		sh.cond.Broadcast()
	}
	sh.mu.Unlock()
}

type undoRec struct {
	p          *value
	old        value
	m          *mapv
	keys, vals []value
}

type Engine struct {
	lockBusy bool  // see verifLockBusy
	onLock   value // see verifOnLock
	sh      *Shared
	prog    *ssa.Program
	sol     *Solver
	globals map[*ssa.Global]*value

	prefix    []decision
	pos       int
	decisions []decision
	pc        []*Term
	steps     int
	depth     int
	MaxSteps  int
	MaxDepth  int
	symCount  map[string]int
	inputs    []*Term
	class     string // current known-finding class context for engine-detected outcomes

	vars      []*Term
	varByName map[string]*Term
	dom       map[int32]*domain
	env       []uint64 // singleton values of variables (valid where single[id])
	single    []bool
	models    [][]uint64
	modelOK   []int // number of pc conjuncts each cached model is known to satisfy (-1 = refuted)
	modelEp   []int // path epoch in which modelOK was computed

	undoOn bool
	undo   []undoRec
	epoch  int

	Paths       int
	Outcomes    map[string]int
	Violations  []violation
	vioCount    map[string]int
	FuncsSeen   map[*ssa.Function]int
	Unsupported map[string]int
	Reach       map[string]int
	Samples     []map[string]uint64
	Decided     int // branch decisions made with the solver
	QuickDec    int // branch decisions made by domain propagation / cached models
	ParanoidBad int
	quickN      int
	trace       bool
	runtimeErrT types.Type
	observe     []obs
	validation  []validationCase
	validateEvery int
	okPaths     int
	pathViol    int
	curFrame    *frame
	threads     []*gthread
	wgs     map[*value]*wgState
	mainT       *gthread
	cur         *gthread
	abort       interface{}
	killAck     chan struct{}
	Goroutines  int
	schedForks  int
	schedOff    bool
	permOff     bool
	permRev     bool // iterate every map in reverse insertion order (verifMapReverse)
	permForks   int
	Notifies    int
	race        *raceState
	raceQ       int
	RaceQueries int
	raceClass   func(w, o *accessEv) string
	vfs         map[string][]value // virtual files of the current path (verifVFSPut)
	vfsLinks    map[string]bool    // virtual files that are symbolic links to a file (verifVFSLink)
	lastTrace   string
	tracesShown int
	Asserts     int
}

func NewEngine(sh *Shared, sol *Solver) *Engine {
	e := &Engine{sh: sh, prog: sh.prog, sol: sol, globals: map[*ssa.Global]*value{}, MaxSteps: 3000000, MaxDepth: 400,
		Outcomes: map[string]int{}, FuncsSeen: map[*ssa.Function]int{}, Unsupported: map[string]int{}, Reach: map[string]int{},
		varByName: map[string]*Term{}, vioCount: map[string]int{}, killAck: make(chan struct{}, 1)}
	e.runtimeErrT = runtimeErrT
	return e
}

var runtimeErrT = types.NewNamed(types.NewTypeName(0, nil, "runtimeError", nil), types.NewStruct(nil, nil), nil)

// ---------------------------------------------------------------- domains

func (e *Engine) domainOf(id int32) *domain {
	return e.dom[id]
}

func (e *Engine) setDomain(id int32, vals []uint64) {
	e.dom[id] = &domain{vals: vals}
	e.noteSingle(id)
}

func (e *Engine) noteSingle(id int32) {
	d := e.dom[id]
	for int(id) >= len(e.env) {
		e.env = append(e.env, 0)
		e.single = append(e.single, false)
	}
	if d != nil && len(d.vals) == 1 {
		e.env[id] = d.vals[0]
		e.single[id] = true
	} else {
		e.single[id] = false
	}
}

// freeOf returns the variables of c that are not fixed to a single value.
func (e *Engine) freeOf(c *Term) []int32 {
	vs := c.freeVars()
	n := 0
	for _, v := range vs {
		if int(v) < len(e.single) && e.single[v] {
			continue
		}
		n++
	}
	if n == len(vs) {
		return vs
	}
	out := make([]int32, 0, n)
	for _, v := range vs {
		if int(v) < len(e.single) && e.single[v] {
			continue
		}
		out = append(out, v)
	}
	return out
}

const (
	qUnknown = iota
	qTrue
	qFalse
	qBoth
)

// quick tries to decide c from the per-variable domains without the solver.
// qTrue/qFalse: c has that value for every assignment allowed by the domains (sound because
// domains over-approximate the path condition). qBoth: both values occur and the deciding
// variable's domain is exact, so both sides are feasible.
func (e *Engine) quick(c *Term) int {
	free := e.freeOf(c)
	switch len(free) {
	case 0:
		if c.eval(e.env) != 0 {
			return qTrue
		}
		return qFalse
	case 1:
		id := free[0]
		d := e.dom[id]
		if d == nil {
			return qUnknown
		}
		nt, nf := 0, 0
		save := e.env[id]
		for _, v := range d.vals {
			e.env[id] = v
			if c.eval(e.env) != 0 {
				nt++
			} else {
				nf++
			}
			if nt > 0 && nf > 0 && d.entangled {
				break
			}
		}
		e.env[id] = save
		switch {
		case nf == 0 && nt > 0:
			return qTrue
		case nt == 0 && nf > 0:
			return qFalse
		case nt > 0 && nf > 0 && !d.entangled:
			return qBoth
		}
	}
	return qUnknown
}

// narrow updates the domains with the newly assumed constraint c.
// Returns false when a domain becomes empty (path condition infeasible).
func (e *Engine) narrow(c *Term) bool {
	free := e.freeOf(c)
	switch len(free) {
	case 0:
		return c.eval(e.env) != 0
	case 1:
		id := free[0]
		d := e.dom[id]
		if d == nil {
			return true
		}
		save := e.env[id]
		kept := make([]uint64, 0, len(d.vals))
		for _, v := range d.vals {
			e.env[id] = v
			if c.eval(e.env) != 0 {
				kept = append(kept, v)
			}
		}
		e.env[id] = save
		if len(kept) != len(d.vals) {
			e.dom[id] = &domain{vals: kept, entangled: d.entangled}
			e.noteSingle(id)
		}
		return len(kept) > 0
	default:
		for _, id := range free {
			if d := e.dom[id]; d != nil && !d.entangled {
				e.dom[id] = &domain{vals: d.vals, entangled: true}
			}
		}
	}
	return true
}

// ---------------------------------------------------------------- model cache

func (e *Engine) grabModel() []uint64 {
	m := make([]uint64, len(e.vars))
	if len(e.inputs) > 0 {
		vals := e.sol.Values(e.inputs)
		for i, in := range e.inputs {
			m[in.id] = vals[i]
		}
	}
	e.models = append(e.models, m)
	e.modelOK = append(e.modelOK, len(e.pc))
	e.modelEp = append(e.modelEp, e.epoch)
	if len(e.models) > 6 {
		e.models = e.models[1:]
		e.modelOK = e.modelOK[1:]
		e.modelEp = e.modelEp[1:]
	}
	return m
}

// validModels brings the cached models up to date with the path condition and returns the valid ones.
func (e *Engine) validModels() [][]uint64 {
	var out [][]uint64
	for i, m := range e.models {
		ok := e.modelOK[i]
		if e.modelEp[i] != e.epoch {
			ok = 0 // pc was reset since (new path): recheck everything
			e.modelEp[i] = e.epoch
		}
		if ok < 0 {
			continue
		}
		for ok < len(e.pc) {
			if e.pc[ok].eval(m) == 0 {
				ok = -1
				break
			}
			ok++
		}
		e.modelOK[i] = ok
		if ok >= 0 {
			out = append(out, m)
		}
	}
	return out
}

// ---------------------------------------------------------------- path condition

func (e *Engine) assume(c *Term) {
	e.sol.Assert(c)
	e.pc = append(e.pc, c)
	e.narrow(c)
}

func (e *Engine) queueAlt(d decision) {
	alt := make([]decision, len(e.decisions), len(e.decisions)+1)
	copy(alt, e.decisions)
	alt = append(alt, d)
	e.sh.pushWork(alt)
}

func (e *Engine) solverSat(c *Term) bool {
	r := e.sol.CheckWith2(c, e)
	if r == "unknown" {
		panic(pathEnd{"unknown", "solver unknown"})
	}
	return r == "sat"
}

// CheckWith2 is CheckWith that also caches the model when the answer is sat.
func (s *Solver) CheckWith2(t *Term, e *Engine) string {
	s.Push()
	s.Assert(t)
	r := s.Check()
	if r == "sat" {
		e.pc = append(e.pc, t)
		e.grabModel()
		e.pc = e.pc[:len(e.pc)-1]
		// the grabbed model satisfies pc+t; it certainly satisfies pc
		e.modelOK[len(e.modelOK)-1] = len(e.pc)
	}
	s.Pop()
	return r
}

func (e *Engine) paranoidCheck(c *Term, q int) {
	if e.sh.paranoid <= 0 {
		return
	}
	e.quickN++
	if e.quickN%e.sh.paranoid != 0 {
		return
	}
	t := e.sol.CheckWith(c) == "sat"
	f := e.sol.CheckWith(tNot(c)) == "sat"
	want := qUnknown
	switch {
	case t && f:
		want = qBoth
	case t:
		want = qTrue
	case f:
		want = qFalse
	}
	if want != q {
		e.ParanoidBad++
		fmt.Printf("PARANOID MISMATCH: quick=%d solver=%d on %s\n", q, want, c)
	}
}

// branch decides a symbolic condition on the current path.
func (e *Engine) branch(c *Term) bool {
	if c.isTrue() {
		return true
	}
	if c.isFalse() {
		return false
	}
	if e.pos < len(e.prefix) {
		d := e.prefix[e.pos]
		e.pos++
		if d.conc {
			panic("replay mismatch: expected branch decision")
		}
		e.decisions = append(e.decisions, d)
		if d.taken {
			e.assume(c)
		} else {
			e.assume(tNot(c))
		}
		return d.taken
	}
	nc := tNot(c)
	q := e.quick(c)
	if q != qUnknown {
		e.QuickDec++
		e.paranoidCheck(c, q)
	}
	switch q {
	case qTrue:
		e.decisions = append(e.decisions, decision{taken: true, force: true})
		e.assume(c)
		return true
	case qFalse:
		e.decisions = append(e.decisions, decision{taken: false, force: true})
		e.assume(nc)
		return false
	case qBoth:
		e.queueAlt(decision{taken: false})
		e.decisions = append(e.decisions, decision{taken: true})
		e.assume(c)
		return true
	}
	wT, wF := false, false
	for _, m := range e.validModels() {
		if c.eval(m) != 0 {
			wT = true
		} else {
			wF = true
		}
		if wT && wF {
			break
		}
	}
	if !wT || !wF {
		e.Decided++
	} else {
		e.QuickDec++
	}
	if !wT {
		wT = e.solverSat(c)
	}
	if wT && !wF {
		wF = e.solverSat(nc)
	}
	switch {
	case wT && wF:
		e.queueAlt(decision{taken: false})
		e.decisions = append(e.decisions, decision{taken: true})
		e.assume(c)
		return true
	case wT:
		e.decisions = append(e.decisions, decision{taken: true, force: true})
		e.assume(c)
		return true
	default:
		e.decisions = append(e.decisions, decision{taken: false, force: true})
		e.assume(nc)
		return false
	}
}

// concretize picks a concrete value for a symbolic bit-vector, forking over alternatives.
func (e *Engine) concretize(t *Term) uint64 {
	if t.isConst() {
		return t.val
	}
	for {
		if e.pos < len(e.prefix) {
			d := e.prefix[e.pos]
			e.pos++
			if !d.conc {
				panic("replay mismatch: expected concretisation decision")
			}
			e.decisions = append(e.decisions, d)
			if d.taken {
				e.assume(tEq(t, bvLit(d.val, t.bits)))
				return d.val
			}
			e.assume(tNot(tEq(t, bvLit(d.val, t.bits))))
			continue
		}
		var v uint64
		got := false
		// a value from the domains
		free := e.freeOf(t)
		if len(free) == 0 {
			v = t.eval(e.env)
			e.decisions = append(e.decisions, decision{conc: true, val: v, taken: true, force: true})
			e.assume(tEq(t, bvLit(v, t.bits)))
			return v
		}
		if len(free) == 1 {
			if d := e.dom[free[0]]; d != nil && len(d.vals) > 0 && !d.entangled {
				save := e.env[free[0]]
				e.env[free[0]] = d.vals[0]
				v = t.eval(e.env)
				e.env[free[0]] = save
				got = true
			}
		}
		if !got {
			if ms := e.validModels(); len(ms) > 0 {
				v = t.eval(ms[len(ms)-1])
				got = true
			}
		}
		if !got {
			e.Decided++
			r := e.sol.Check()
			if r != "sat" {
				panic(pathEnd{"infeasible", "concretize on " + r + " path"})
			}
			m := e.grabModel()
			v = t.eval(m)
		}
		eq := tEq(t, bvLit(v, t.bits))
		ne := tNot(eq)
		other := false
		switch e.quick(ne) {
		case qTrue, qBoth:
			other = true
			e.QuickDec++
		case qFalse:
			other = false
			e.QuickDec++
		default:
			for _, m := range e.validModels() {
				if ne.eval(m) != 0 {
					other = true
					break
				}
			}
			if !other {
				e.Decided++
				other = e.solverSat(ne)
			}
		}
		if other {
			e.queueAlt(decision{conc: true, val: v, taken: false})
			e.decisions = append(e.decisions, decision{conc: true, val: v, taken: true})
		} else {
			e.decisions = append(e.decisions, decision{conc: true, val: v, taken: true, force: true})
		}
		e.assume(eq)
		return v
	}
}

func (e *Engine) fresh(name string, bits int) *symv {
	n := e.symCount[name]
	e.symCount[name] = n + 1
	full := fmt.Sprintf("%s!%d", name, n)
	full = "|" + strings.ReplaceAll(full, "|", "_") + "|"
	t := e.varByName[full]
	if t == nil {
		t = &Term{op: "var", bits: bits, name: full, id: int32(len(e.vars))}
		e.vars = append(e.vars, t)
		e.varByName[full] = t
		e.sol.Declare(full, bits)
	} else if t.bits != bits {
		panic("variable " + full + " re-declared with another width")
	}
	e.inputs = append(e.inputs, t)
	for int(t.id) >= len(e.env) {
		e.env = append(e.env, 0)
		e.single = append(e.single, false)
	}
	e.single[t.id] = false
	switch {
	case bits == 0:
		e.setDomain(t.id, []uint64{0, 1})
	case bits <= 8:
		vals := make([]uint64, 1<<uint(bits))
		for i := range vals {
			vals[i] = uint64(i)
		}
		e.setDomain(t.id, vals)
	}
	return &symv{t}
}

// freshRange creates a variable of the given width constrained to lo..hi (inclusive, unsigned) with an explicit domain.
func (e *Engine) freshRange(name string, bits int, lo, hi uint64) *symv {
	s := e.fresh(name, bits)
	if hi-lo <= 4096 {
		vals := make([]uint64, 0, hi-lo+1)
		for v := lo; v <= hi; v++ {
			vals = append(vals, v)
		}
		e.setDomain(s.t.id, vals)
	}
	c := tAnd(app(0, "bvuge", s.t, bvLit(lo, bits)), app(0, "bvule", s.t, bvLit(hi, bits)))
	e.sol.Assert(c)
	e.pc = append(e.pc, c)
	return s
}

func (e *Engine) model() map[string]uint64 {
	m := map[string]uint64{}
	r := e.sol.Check()
	if r != "sat" {
		return nil
	}
	vals := e.sol.Values(e.inputs)
	for i, in := range e.inputs {
		m[strings.Trim(in.name, "|")] = vals[i]
	}
	return m
}

const maxViolationsKept = 3

func (e *Engine) addViolation(v violation) {
	key := v.Class + "|" + v.Kind + "|" + v.Msg
	e.vioCount[key]++
	if e.vioCount[key] > maxViolationsKept {
		return
	}
	v.Job = e.sh.job
	e.Violations = append(e.Violations, v)
}

func (e *Engine) report(kind, class, msg string) {
	e.pathViol++
	key := class + "|" + kind + "|" + msg
	if e.vioCount[key] >= maxViolationsKept {
		e.vioCount[key]++
		return
	}
	m := e.model()
	if m == nil {
		// the path condition is not satisfiable: engine invariant broken
		e.Outcomes["infeasible-at-report"]++
		return
	}
	e.addViolation(violation{Class: class, Msg: msg, Kind: kind, Model: m})
}

// Run explores entry until the shared work queue drains.
func (e *Engine) Run(entry *ssa.Function) {
	for {
		p, ok := e.sh.popWork()
		if !ok {
			return
		}
		if e.sh.maxPaths > 0 && atomic.LoadInt64(&e.sh.paths) >= e.sh.maxPaths {
			e.Outcomes["pathcap"]++
			e.sh.doneWork()
			continue
		}
		e.prefix = p
		e.runPath(entry)
		atomic.AddInt64(&e.sh.paths, 1)
		e.sh.doneWork()
	}
}

func (e *Engine) rollback() {
	for i := len(e.undo) - 1; i >= 0; i-- {
		r := &e.undo[i]
		if r.m != nil {
			r.m.keys, r.m.vals = r.keys, r.vals
			r.m.epoch = 0
		} else {
			*r.p = r.old
		}
	}
	e.undo = e.undo[:0]
}

func (e *Engine) logStore(p *value) {
	if e.undoOn {
		e.undo = append(e.undo, undoRec{p: p, old: *p})
	}
}

// touchMap must be called before any mutation of m.
func (e *Engine) touchMap(m *mapv) {
	if !e.undoOn || m.epoch == e.epoch {
		return
	}
	e.undo = append(e.undo, undoRec{m: m, keys: m.keys, vals: m.vals})
	m.keys = append([]value(nil), m.keys...)
	m.vals = append([]value(nil), m.vals...)
	m.epoch = e.epoch
}

func (e *Engine) runPath(entry *ssa.Function) {
	e.pos = 0
	e.decisions = e.decisions[:0]
	e.pc = e.pc[:0]
	e.steps = 0
	e.depth = 0
	e.class = ""
	e.pathViol = 0
	e.observe = e.observe[:0]
	e.symCount = map[string]int{}
	e.inputs = e.inputs[:0]
	e.dom = map[int32]*domain{}
	for i := range e.single {
		e.single[i] = false
	}
	e.epoch++
	e.undoOn = true
	e.resetThreads()
	e.raceReset()
	e.vfs = nil
	e.vfsLinks = nil
	e.schedForks = 0
	e.schedOff = false
	e.lockBusy = false
	e.onLock = nil
	e.permOff = false
	e.permRev = false
	e.permForks = 0
	e.sol.Push()
	outcome := "ok"
	func() {
		defer func() {
			if r := recover(); r != nil {
				switch r := r.(type) {
				case pathEnd:
					outcome = r.kind
					if r.kind == "unsupported" {
						e.Unsupported[r.msg]++
					}
					if r.kind == "steps" || r.kind == "depth" {
						e.report(r.kind, e.class, "path exceeded "+r.kind+" budget in "+r.msg)
					}
				case targetPanic:
					outcome = "panic"
					if (e.trace || e.sh.verbose) && e.tracesShown < 2 {
						e.tracesShown++
						fmt.Printf("uncaught panic %s at: %s\n", e.show(r.v), e.lastTrace)
					}
					e.report("panic", e.class, "uncaught panic: "+normPanic(e.show(r.v)))
				default:
					panic(r)
				}
			}
		}()
		e.call(nil, entry, nil)
		e.raceCheck()
	}()
	e.killThreads()
	if outcome == "ok" {
		// the solver confirms that the completed path is feasible (also a self-check of the domain propagation)
		switch e.sol.Check() {
		case "unsat":
			outcome = "infeasible-at-end"
		case "unknown":
			outcome = "unknown"
		default:
			e.okPaths++
			wantV := e.pathViol == 0 && len(e.validation) < 3 && (e.okPaths == 1 || (e.validateEvery > 0 && e.okPaths%e.validateEvery == 0))
			if (len(e.Samples) < 4 || wantV) && len(e.inputs) > 0 {
				vals := e.sol.Values(e.inputs)
				m := map[string]uint64{}
				env := make([]uint64, len(e.vars))
				for i, in := range e.inputs {
					m[strings.Trim(in.name, "|")] = vals[i]
					env[in.id] = vals[i]
				}
				if len(e.Samples) < 4 {
					e.Samples = append(e.Samples, m)
				}
				if wantV {
					vc := validationCase{model: m}
					for _, o := range e.observe {
						vc.observes = append(vc.observes, o.tag+"|"+strUnder(o.v, env))
					}
					e.validation = append(e.validation, vc)
				}
			}
		}
	}
	e.sol.Pop()
	e.rollback()
	e.undoOn = false
	e.Paths++
	e.Outcomes[outcome]++
}

func (e *Engine) show(v value) string {
	switch v := v.(type) {
	case iface:
		if v.t == nil {
			return "nil"
		}
		if v.t == errorT || v.t == runtimeErrT {
			return e.show(v.v)
		}
		return fmt.Sprintf("%s(%s)", v.t, e.show(v.v))
	case *symv:
		return "sym"
	case *symstr:
		return fmt.Sprintf("symstr[%d]", len(v.b))
	case structure:
		var parts []string
		for _, f := range v {
			parts = append(parts, e.show(f))
		}
		return "{" + strings.Join(parts, ",") + "}"
	case *value:
		if v == nil {
			return "nilptr"
		}
		return "&" + e.show(*v)
	}
	return fmt.Sprintf("%v", v)
}

func outcomeString(o map[string]int) string {
	var ks []string
	for k, v := range o {
		ks = append(ks, fmt.Sprintf("%s=%d", k, v))
	}
	sort.Strings(ks)
	return strings.Join(ks, " ")
}

// strUnder renders a (possibly symbolic) string value under a full assignment.
func strUnder(v value, env []uint64) string {
	switch s := v.(type) {
	case string:
		return s
	case *symstr:
		b := make([]byte, len(s.b))
		for i, c := range s.b {
			switch c := c.(type) {
			case uint64:
				b[i] = byte(c)
			case *symv:
				b[i] = byte(c.t.eval(env))
			}
		}
		return string(b)
	}
	return fmt.Sprintf("<%T>", v)
}

var reNum = regexp.MustCompile(`\d+`)

// normPanic replaces the numbers of a run-time panic message so that one defect forms one group.
func normPanic(s string) string { return reNum.ReplaceAllString(s, "N") }
