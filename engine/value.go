package main

import (
	"fmt"
	"go/types"

	"golang.org/x/tools/go/ssa"
)

type value interface{}

type tuple []value
type array []value
type structure []value

type iface struct {
	t types.Type
	v value
}

type closure struct {
	Fn  *ssa.Function
	Env []value
}

// symv is a symbolic scalar (bool when t.bits==0, else bit-vector of t.bits).
type symv struct{ t *Term }

// symstr is a string of concrete length whose bytes may be symbolic (each elem uint64 or *symv of 8 bits).
type symstr struct{ b []value }

// native wraps an opaque Go object created by a native external (e.g. *strings.Replacer).
type native struct {
	obj  interface{}
	desc string
	args []value
}

// mapv is an insertion-ordered map that tolerates symbolic keys.
type mapv struct {
	keys  []value
	vals  []value
	kt    types.Type
	epoch int // path epoch of the last copy-on-write (undo log)
}

type iter interface{ next() tuple }

func intInfo(t types.Type) (bits int, signed bool, ok bool) {
	b, isB := t.Underlying().(*types.Basic)
	if !isB {
		return 0, false, false
	}
	switch b.Kind() {
	case types.Int, types.Int64, types.UntypedInt:
		return 64, true, true
	case types.Int32, types.UntypedRune:
		return 32, true, true
	case types.Int16:
		return 16, true, true
	case types.Int8:
		return 8, true, true
	case types.Uint, types.Uint64, types.Uintptr:
		return 64, false, true
	case types.Uint32:
		return 32, false, true
	case types.Uint16:
		return 16, false, true
	case types.Uint8:
		return 8, false, true
	}
	return 0, false, false
}

func mask(v uint64, bits int) uint64 {
	if bits >= 64 {
		return v
	}
	return v & ((1 << uint(bits)) - 1)
}

func sext(v uint64, bits int) int64 {
	if bits >= 64 {
		return int64(v)
	}
	sh := uint(64 - bits)
	return int64(v<<sh) >> sh
}

func zero(t types.Type) value {
	switch t := t.(type) {
	case *types.Basic:
		switch {
		case t.Kind() == types.UntypedNil:
			panic("untyped nil has no zero value")
		case t.Info()&types.IsBoolean != 0:
			return false
		case t.Info()&types.IsInteger != 0:
			return uint64(0)
		case t.Info()&types.IsFloat != 0:
			return float64(0)
		case t.Info()&types.IsString != 0:
			return ""
		case t.Kind() == types.UnsafePointer:
			return (*value)(nil)
		}
		panic(fmt.Sprintf("zero for unexpected basic type: %v", t))
	case *types.Pointer:
		return (*value)(nil)
	case *types.Array:
		a := make(array, t.Len())
		for i := range a {
			a[i] = zero(t.Elem())
		}
		return a
	case *types.Named:
		return zero(t.Underlying())
	case *types.Alias:
		return zero(types.Unalias(t))
	case *types.Interface:
		return iface{}
	case *types.Slice:
		return []value(nil)
	case *types.Struct:
		s := make(structure, t.NumFields())
		for i := range s {
			s[i] = zero(t.Field(i).Type())
		}
		return s
	case *types.Tuple:
		if t.Len() == 1 {
			return zero(t.At(0).Type())
		}
		s := make(tuple, t.Len())
		for i := range s {
			s[i] = zero(t.At(i).Type())
		}
		return s
	case *types.Chan:
		return (*chanv)(nil)
	case *types.Map:
		return (*mapv)(nil)
	case *types.Signature:
		return (*ssa.Function)(nil)
	}
	panic(fmt.Sprintf("zero: unexpected type %T %v", t, t))
}

func copyVal(v value) value {
	switch v := v.(type) {
	case structure:
		a := make(structure, len(v))
		for i := range v {
			a[i] = copyVal(v[i])
		}
		return a
	case array:
		a := make(array, len(v))
		for i := range v {
			a[i] = copyVal(v[i])
		}
		return a
	}
	return v
}

func isSymbolic(v value) bool {
	switch v := v.(type) {
	case *symv:
		return true
	case *symstr:
		return true
	case structure:
		for _, e := range v {
			if isSymbolic(e) {
				return true
			}
		}
	case array:
		for _, e := range v {
			if isSymbolic(e) {
				return true
			}
		}
	case iface:
		return isSymbolic(v.v)
	}
	return false
}

// strBytes returns the bytes of a string value (concrete or symbolic) as values.
func strBytes(v value) []value {
	switch s := v.(type) {
	case string:
		b := make([]value, len(s))
		for i := 0; i < len(s); i++ {
			b[i] = uint64(s[i])
		}
		return b
	case *symstr:
		return s.b
	}
	panic(fmt.Sprintf("strBytes: not a string: %T", v))
}

// mkStr builds a string value from bytes, concrete if all bytes are.
func mkStr(b []value) value {
	conc := true
	for _, e := range b {
		if _, ok := e.(uint64); !ok {
			conc = false
			break
		}
	}
	if conc {
		bs := make([]byte, len(b))
		for i, e := range b {
			bs[i] = byte(e.(uint64))
		}
		return string(bs)
	}
	cp := make([]value, len(b))
	copy(cp, b)
	return &symstr{cp}
}

func strLen(v value) int {
	switch s := v.(type) {
	case string:
		return len(s)
	case *symstr:
		return len(s.b)
	}
	panic(fmt.Sprintf("strLen: %T", v))
}
