package main

import (
	"bytes"
	"context"
	"encoding/hex"
	"encoding/json"
	"fmt"
	"go/ast"
	"go/parser"
	"go/printer"
	"go/token"
	"os"
	"os/exec"
	"path/filepath"
	"sort"
	"strings"
	"time"
)

// nativeIntrinsics is the native twin of intrinsicDecls: values come from the model file
// named by $VERIF_REPLAY, so the very same harness source is the replay test.
const nativeIntrinsics = `
import (
	verifjson "encoding/json"
	veriffmt "fmt"
	verifos "os"
	verifhex "encoding/hex"
)

type verifReplayT struct {
	Entry  string            ` + "`json:\"entry\"`" + `
	Params map[string]int64  ` + "`json:\"params\"`" + `
	Model  map[string]uint64 ` + "`json:\"model\"`" + `
}

var verifR *verifReplayT
var verifCount = map[string]int{}

func verifLoadReplay() *verifReplayT {
	if verifR == nil {
		verifR = &verifReplayT{}
		b, err := verifos.ReadFile(verifos.Getenv("VERIF_REPLAY"))
		if err != nil {
			panic("verif: cannot read replay file: " + err.Error())
		}
		if err := verifjson.Unmarshal(b, verifR); err != nil {
			panic("verif: bad replay file: " + err.Error())
		}
	}
	return verifR
}

func verifNext(name string) uint64 {
	r := verifLoadReplay()
	n := verifCount[name]
	verifCount[name] = n + 1
	return r.Model[veriffmt.Sprintf("%s!%d", name, n)]
}

func verifByte(name string) byte                  { return byte(verifNext(name)) }
func verifByteIn(name string, set string) byte    { return byte(verifNext(name)) }
func verifBool(name string) bool                  { return verifNext(name) != 0 }
func verifInt(name string) int                    { return int(verifNext(name)) }
func verifU32(name string) uint32                 { return uint32(verifNext(name)) }
func verifRange(name string, lo, hi int) int {
	if lo == hi {
		return lo
	}
	return int(verifNext(name))
}
func verifBytes(name string, n int) []byte {
	b := make([]byte, n)
	for i := range b {
		b[i] = byte(verifNext(name))
	}
	return b
}
func verifBytesIn(name string, n int, set string) []byte { return verifBytes(name, n) }
func verifParam(name string) int {
	v, ok := verifLoadReplay().Params[name]
	if !ok {
		panic("verif: no parameter " + name)
	}
	return int(v)
}
func verifParamOr(name string, def int) int {
	if v, ok := verifLoadReplay().Params[name]; ok {
		return int(v)
	}
	return def
}
func verifAssume(c bool) {
	if !c {
		veriffmt.Println("VERIF-ASSUME-FAILED")
		verifos.Exit(0)
	}
}
func verifAssert(c bool, msg string) {
	if !c {
		veriffmt.Println("VERIF-ASSERT-FAILED " + verifClassNow + "|" + msg)
	}
}
func verifViolation(class string, msg string) { veriffmt.Println("VERIF-VIOLATION " + class + "|" + msg) }

var verifClassNow string

func verifClass(class string)           { verifClassNow = class; veriffmt.Println("VERIF-CLASS " + class) }
func verifReach(tag string)             { veriffmt.Println("VERIF-REACH " + tag) }
func verifObserve(tag string, s string) { veriffmt.Println("VERIF-OBSERVE " + tag + "|" + verifhex.EncodeToString([]byte(s))) }
func verifNative() bool                 { return true }
func verifConcretize(v int) int         { return v }
func verifIsSym(v int) bool             { return false }

var verifVFSDir string

// natively the virtual files are real files under a fresh temporary directory
func verifVFSRoot() string {
	if verifVFSDir == "" {
		d, err := verifos.MkdirTemp("", "verifvfs")
		if err != nil {
			panic(err)
		}
		verifVFSDir = d
	}
	return verifVFSDir
}
func verifVFSPut(name string, content []byte) {
	i := len(name) - 1
	for i >= 0 && name[i] != '/' {
		i--
	}
	verifos.MkdirAll(name[:i], 0o755)
	if err := verifos.WriteFile(name, content, 0o644); err != nil {
		panic(err)
	}
}
func verifVFSDel(name string) { verifos.Remove(name) }
func verifVFSLink(name string, target string) {
	i := len(name) - 1
	for i >= 0 && name[i] != '/' {
		i--
	}
	verifos.MkdirAll(name[:i], 0o755)
	verifos.Remove(name)
	if err := verifos.Symlink(target, name); err != nil {
		panic(err)
	}
}
func verifVFSIsLink(name string) bool { return false } // only environment models call it
func verifVFSList() []string { return nil } // only environment models call it, and those are not part of native runs
func verifTask(name string, notification bool) {}
func verifSched(explore bool)                     {}
func verifMapOrder(explore bool)                  {}
func verifMapReverse(on bool)                     {}
func verifLockBusy(busy bool)                     {}
func verifOnLock(f func())                        {}
`

type replayCase struct {
	Entry  string            `json:"entry"`
	Params map[string]int64  `json:"params"`
	Model  map[string]uint64 `json:"model"`
	Expect map[string]string `json:"expect,omitempty"`
}

// replayer builds one native test binary per entry package and runs model files against it.
type replayer struct {
	p      *Program
	tmp    string
	bins   map[string]string // package rel dir -> test binary
	BuildS float64
	Runs   int
}

func newReplayer(p *Program) (*replayer, error) {
	tmp, err := os.MkdirTemp("", "gosx-replay-")
	if err != nil {
		return nil, err
	}
	return &replayer{p: p, tmp: tmp, bins: map[string]string{}}, nil
}

func (r *replayer) Close() {
	if os.Getenv("GOSX_KEEP") != "" {
		fmt.Println("replay directory kept:", r.tmp)
		return
	}
	os.RemoveAll(r.tmp)
}

// patchOverride rewrites file src so that function target (name, optional receiver type name) is
// renamed to <name>__verifOrig and a forwarding function with the original name calls repl.
func patchOverride(src []byte, recvType, name, replRecv, repl string) ([]byte, bool, error) {
	fset := token.NewFileSet()
	f, err := parser.ParseFile(fset, "x.go", src, parser.ParseComments)
	if err != nil {
		return nil, false, err
	}
	for _, d := range f.Decls {
		fd, ok := d.(*ast.FuncDecl)
		if !ok || fd.Name.Name != name {
			continue
		}
		rt := ""
		if fd.Recv != nil && len(fd.Recv.List) == 1 {
			t := fd.Recv.List[0].Type
			if st, ok := t.(*ast.StarExpr); ok {
				t = st.X
			}
			if id, ok := t.(*ast.Ident); ok {
				rt = id.Name
			}
		}
		if rt != recvType {
			continue
		}
		// name all parameters
		var args []string
		n := 0
		for _, fl := range fd.Type.Params.List {
			if len(fl.Names) == 0 {
				fl.Names = []*ast.Ident{ast.NewIdent(fmt.Sprintf("verifP%d", n))}
				n++
			}
			for _, nm := range fl.Names {
				if nm.Name == "_" {
					nm.Name = fmt.Sprintf("verifP%d", n)
					n++
				}
				a := nm.Name
				if _, isVar := fl.Type.(*ast.Ellipsis); isVar {
					a += "..."
				}
				args = append(args, a)
			}
		}
		recvName := ""
		if fd.Recv != nil {
			if len(fd.Recv.List[0].Names) == 0 || fd.Recv.List[0].Names[0].Name == "_" {
				fd.Recv.List[0].Names = []*ast.Ident{ast.NewIdent("verifRecv")}
			}
			recvName = fd.Recv.List[0].Names[0].Name
		}
		var sig bytes.Buffer
		sig.WriteString("func ")
		if fd.Recv != nil {
			sig.WriteString("(")
			sig.WriteString(recvName + " ")
			printer.Fprint(&sig, fset, fd.Recv.List[0].Type)
			sig.WriteString(") ")
		}
		sig.WriteString(name)
		var tb bytes.Buffer
		printer.Fprint(&tb, fset, fd.Type)
		sig.WriteString(strings.TrimPrefix(tb.String(), "func"))
		call := repl + "(" + strings.Join(args, ", ") + ")"
		if replRecv != "" {
			call = recvName + "." + call
		} else if fd.Recv != nil {
			// a method replaced by a plain function: the receiver becomes the first argument
			call = repl + "(" + strings.Join(append([]string{recvName}, args...), ", ") + ")"
		}
		body := call
		if fd.Type.Results != nil && len(fd.Type.Results.List) > 0 {
			body = "return " + call
		}
		fd.Name.Name = name + "__verifOrig"
		var out bytes.Buffer
		if err := printer.Fprint(&out, fset, f); err != nil {
			return nil, false, err
		}
		out.WriteString("\n" + sig.String() + " {\n\t" + body + "\n}\n")
		return out.Bytes(), true, nil
	}
	return src, false, nil
}

// splitFn parses an ssa function name like "(*pkg/path.T).M" or "pkg/path.F".
func splitFn(s string) (pkg, recv, name string) {
	if strings.HasPrefix(s, "(") {
		i := strings.LastIndex(s, ").")
		inner := strings.TrimPrefix(s[1:i], "*")
		name = s[i+2:]
		j := strings.LastIndex(inner, ".")
		return inner[:j], inner[j+1:], name
	}
	j := strings.LastIndex(s, ".")
	return s[:j], "", s[j+1:]
}

func (r *replayer) overlayFor(entryRel string, overrides [][2]string) (string, error) {
	ov := map[string]string{}
	write := func(virt string, content []byte) error {
		real := filepath.Join(r.tmp, fmt.Sprintf("f%d_%s", len(ov), filepath.Base(virt)))
		if err := os.WriteFile(real, content, 0o644); err != nil {
			return err
		}
		ov[virt] = real
		return nil
	}
	seen := map[string]bool{}
	funcsByRel := map[string][]string{}
	pkgNameByRel := map[string]string{}
	for _, h := range r.p.harness {
		if err := write(h.virt, h.src); err != nil {
			return "", err
		}
		funcsByRel[h.rel] = append(funcsByRel[h.rel], h.funcs...)
		pkgNameByRel[h.rel] = h.pkgName
		if !seen[h.rel] {
			seen[h.rel] = true
			if err := write(filepath.Join(r.p.repo, h.rel, "zz_verif_intrinsics.go"), []byte("package "+h.pkgName+"\n"+nativeIntrinsics)); err != nil {
				return "", err
			}
		}
	}
	// the test driver in the entry package
	var tb bytes.Buffer
	fmt.Fprintf(&tb, "package %s\n\nimport (\n\t\"os\"\n\t\"runtime/debug\"\n\t\"testing\"\n\t\"fmt\"\n)\n\n", pkgNameByRel[entryRel])
	tb.WriteString("var verifEntries = map[string]func(){\n")
	fs := funcsByRel[entryRel]
	sort.Strings(fs)
	for _, f := range fs {
		fmt.Fprintf(&tb, "\t%q: %s,\n", f, f)
	}
	tb.WriteString("}\n\nfunc TestVerifReplay(t *testing.T) {\n\tdebug.SetMaxStack(64 << 20)\n\tr := verifLoadReplay()\n\tdefer func() {\n\t\tif verifVFSDir != \"\" {\n\t\t\tos.RemoveAll(verifVFSDir)\n\t\t}\n\t}()\n")
	tb.WriteString("\tif s := os.Getenv(\"VERIF_SETUP\"); s != \"\" {\n\t\tverifEntries[s]()\n\t}\n")
	tb.WriteString("\tf := verifEntries[r.Entry]\n\tif f == nil {\n\t\tt.Fatalf(\"no entry %s\", r.Entry)\n\t}\n\tf()\n\tfmt.Println(\"VERIF-DONE\")\n}\n")
	if err := write(filepath.Join(r.p.repo, entryRel, "zz_verif_replay_test.go"), tb.Bytes()); err != nil {
		return "", err
	}
	// overrides as source patches
	patched := map[string][]byte{}
	for _, o := range overrides {
		tpkg, trecv, tname := splitFn(o[0])
		_, rrecv, rname := splitFn(o[1])
		rel := strings.TrimPrefix(strings.TrimPrefix(tpkg, modulePrefix), "/")
		dir := filepath.Join(r.p.repo, rel)
		ents, err := os.ReadDir(dir)
		if err != nil {
			return "", err
		}
		done := false
		for _, ent := range ents {
			if !strings.HasSuffix(ent.Name(), ".go") || strings.HasSuffix(ent.Name(), "_test.go") {
				continue
			}
			fp := filepath.Join(dir, ent.Name())
			src, ok := patched[fp]
			if !ok {
				src, err = os.ReadFile(fp)
				if err != nil {
					return "", err
				}
			}
			out, hit, err := patchOverride(src, trecv, tname, rrecv, rname)
			if err != nil {
				return "", err
			}
			if hit {
				patched[fp] = out
				done = true
				break
			}
		}
		if !done {
			return "", fmt.Errorf("override target %s not found in %s", o[0], dir)
		}
	}
	for fp, src := range patched {
		if err := write(fp, src); err != nil {
			return "", err
		}
	}
	js, _ := json.Marshal(map[string]interface{}{"Replace": ov})
	path := filepath.Join(r.tmp, "overlay_"+strings.ReplaceAll(entryRel, "/", "_")+".json")
	return path, os.WriteFile(path, js, 0o644)
}

// binFor builds (once) the native replay binary for the package of an entry.
func (r *replayer) binFor(entryRel string, overrides [][2]string) (string, error) {
	return r.binForOpt(entryRel, overrides, false)
}

func (r *replayer) binForOpt(entryRel string, overrides [][2]string, race bool) (string, error) {
	key := entryRel + fmt.Sprint(overrides) + fmt.Sprint(race)
	if b, ok := r.bins[key]; ok {
		return b, nil
	}
	t0 := time.Now()
	ov, err := r.overlayFor(entryRel, overrides)
	if err != nil {
		return "", err
	}
	bin := filepath.Join(r.tmp, fmt.Sprintf("replay%d.test", len(r.bins)))
	args := []string{"test", "-c", "-vet=off", "-overlay", ov, "-o", bin}
	if race {
		args = append(args, "-race")
	}
	args = append(args, "./"+entryRel)
	cmd := exec.Command("go", args...)
	cmd.Dir = r.p.repo
	cmd.Env = goEnv()
	out, err := cmd.CombinedOutput()
	r.BuildS += time.Since(t0).Seconds()
	if err != nil {
		return "", fmt.Errorf("native replay build failed: %v\n%s", err, out)
	}
	r.bins[key] = bin
	return bin, nil
}

type replayResult struct {
	Output   string
	TimedOut bool
	ExitErr  bool
}

func (r *replayer) run(bin, entryRel, setup string, rc *replayCase, file string, timeout time.Duration) (*replayResult, error) {
	js, _ := json.MarshalIndent(rc, "", " ")
	if err := os.WriteFile(file, js, 0o644); err != nil {
		return nil, err
	}
	ctx, cancel := context.WithTimeout(context.Background(), timeout)
	defer cancel()
	cmd := exec.CommandContext(ctx, bin, "-test.run", "^TestVerifReplay$", "-test.timeout", "0")
	if n, ok := rc.Params["NCPU"]; ok && n > 0 {
		// the engine models runtime.NumCPU() == NCPU; natively the same value is obtained with a CPU affinity mask
		cmd = exec.CommandContext(ctx, "taskset", "-c", fmt.Sprintf("0-%d", n-1), bin, "-test.run", "^TestVerifReplay$", "-test.timeout", "0")
	}
	cmd.Dir = filepath.Join(r.p.repo, entryRel)
	// GOMAXPROCS > 1 even under a one-CPU affinity mask: the OS then interleaves the goroutines' threads,
	// which the race detector needs to observe schedule-dependent races (runtime.NumCPU is unaffected)
	cmd.Env = append(os.Environ(), "VERIF_REPLAY="+file, "VERIF_SETUP="+setup, "GOMAXPROCS=8")
	out, err := cmd.CombinedOutput()
	r.Runs++
	res := &replayResult{Output: string(out)}
	if ctx.Err() == context.DeadlineExceeded {
		res.TimedOut = true
	} else if err != nil {
		res.ExitErr = true
	}
	return res, nil
}

// confirms reports whether the native run reproduces violation v.
func confirms(v *violation, res *replayResult) bool {
	lines := strings.Split(res.Output, "\n")
	has := func(s string) bool {
		for _, l := range lines {
			if strings.TrimSpace(l) == s {
				return true
			}
		}
		return false
	}
	switch v.Kind {
	case "explicit":
		return has("VERIF-VIOLATION " + v.Class + "|" + v.Msg)
	case "assert":
		return has("VERIF-ASSERT-FAILED " + v.Class + "|" + strings.TrimPrefix(v.Msg, "assert failed: "))
	case "panic":
		if strings.Contains(v.Msg, "all goroutines are asleep") {
			// a deadlock of the code under test: natively the process hangs (the test binary's own goroutines
			// keep the runtime's detector quiet) or the runtime reports it
			return res.TimedOut || strings.Contains(res.Output, "all goroutines are asleep")
		}
		return res.ExitErr && strings.Contains(res.Output, "panic:") && !strings.Contains(res.Output, "stack overflow")
	case "race":
		return strings.Contains(res.Output, "WARNING: DATA RACE") || strings.Contains(res.Output, "concurrent map")
	case "depth":
		return strings.Contains(res.Output, "stack overflow") || strings.Contains(res.Output, "goroutine stack exceeds") || res.TimedOut
	case "steps":
		return res.TimedOut || strings.Contains(res.Output, "stack overflow")
	}
	return false
}

func observesOf(out string) []string {
	var obs []string
	for _, l := range strings.Split(out, "\n") {
		l = strings.TrimSpace(l)
		if strings.HasPrefix(l, "VERIF-OBSERVE ") {
			rest := strings.TrimPrefix(l, "VERIF-OBSERVE ")
			i := strings.Index(rest, "|")
			b, _ := hex.DecodeString(rest[i+1:])
			obs = append(obs, rest[:i]+"|"+string(b))
		}
	}
	return obs
}

func tail(s string, n int) string {
	if len(s) <= n {
		return s
	}
	return "…" + s[len(s)-n:]
}
