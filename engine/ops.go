package main

import (
	"fmt"
	"go/constant"
	"go/token"
	"go/types"
	"math"
	"unicode/utf8"

	"golang.org/x/tools/go/ssa"
)

func constantString(c *ssa.Const) value {
	if c.Value.Kind() == constant.String {
		return constant.StringVal(c.Value)
	}
	// string(int) constant
	return string(rune(c.Int64()))
}

func termOf(v value, bits int) *Term {
	switch v := v.(type) {
	case uint64:
		return bvLit(v, bits)
	case bool:
		return boolLit(v)
	case *symv:
		return v.t
	}
	panic(fmt.Sprintf("termOf: %T", v))
}

func symBool(t *Term) value {
	if t.isTrue() {
		return true
	}
	if t.isFalse() {
		return false
	}
	return &symv{t}
}

func (e *Engine) unop(instr *ssa.UnOp, x value) value {
	switch instr.Op {
	case token.MUL: // load
		p := x.(*value)
		if p == nil {
			e.rtPanic("invalid memory address or nil pointer dereference")
		}
		if e.race != nil && e.race.on {
			if al, isAlloc := instr.X.(*ssa.Alloc); !isAlloc || al.Heap {
				e.raceCell(p, false)
			}
		}
		return copyVal(*p)
	case token.NOT:
		switch x := x.(type) {
		case bool:
			return !x
		case *symv:
			return symBool(tNot(x.t))
		}
	case token.SUB:
		switch x := x.(type) {
		case float64:
			return -x
		case symfloat:
			return x
		case uint64:
			bits, _, _ := intInfo(instr.X.Type())
			return mask(-x, bits)
		case *symv:
			return &symv{app(x.t.bits, "bvneg", x.t)}
		}
	case token.XOR:
		switch x := x.(type) {
		case uint64:
			bits, _, _ := intInfo(instr.X.Type())
			return mask(^x, bits)
		case *symv:
			return &symv{app(x.t.bits, "bvnot", x.t)}
		}
	case token.ARROW:
		ch, _ := x.(*chanv)
		v, ok := e.chanRecv(ch)
		if instr.CommaOk {
			return tuple{v, ok}
		}
		return v
	}
	panic(fmt.Sprintf("unop %v on %T", instr.Op, x))
}

func (e *Engine) binop(op token.Token, t types.Type, x, y value) value {
	if _, ok := x.(symfloat); ok {
		e.unsupported("arithmetic/comparison on a float that depends on symbolic bytes")
	}
	if _, ok := y.(symfloat); ok {
		e.unsupported("arithmetic/comparison on a float that depends on symbolic bytes")
	}
	// strings
	switch xs := x.(type) {
	case string, *symstr:
		return e.strBinop(op, xs, y)
	case float64:
		yf := y.(float64)
		switch op {
		case token.ADD:
			return xs + yf
		case token.SUB:
			return xs - yf
		case token.MUL:
			return xs * yf
		case token.QUO:
			return xs / yf
		case token.EQL:
			return xs == yf
		case token.NEQ:
			return xs != yf
		case token.LSS:
			return xs < yf
		case token.LEQ:
			return xs <= yf
		case token.GTR:
			return xs > yf
		case token.GEQ:
			return xs >= yf
		}
		panic("float binop " + op.String())
	}
	if op == token.EQL {
		return e.equals(t, x, y)
	}
	if op == token.NEQ {
		r := e.equals(t, x, y)
		switch r := r.(type) {
		case bool:
			return !r
		case *symv:
			return symBool(tNot(r.t))
		}
	}
	// booleans (only ==, != reach here normally; && || are lowered to control flow)
	if _, ok := x.(bool); ok {
		panic("bool binop " + op.String())
	}
	bits, signed, ok := intInfo(t)
	if !ok {
		panic(fmt.Sprintf("binop %v on type %v (%T)", op, t, x))
	}
	xc, xok := x.(uint64)
	yc, yok := y.(uint64)
	if xok && yok {
		return e.concBinop(op, bits, signed, xc, yc)
	}
	// shifts: y may have a different width
	xt := termOf(x, bits)
	var yt *Term
	if ys, isSym := y.(*symv); isSym {
		yt = ys.t
		if yt.bits != bits {
			yt = tExtend(yt, bits, false)
		}
	} else {
		yt = bvLit(yc, bits)
	}
	cmp := func(sop, uop string) value {
		if signed {
			return symBool(app(0, sop, xt, yt))
		}
		return symBool(app(0, uop, xt, yt))
	}
	switch op {
	case token.ADD:
		return &symv{app(bits, "bvadd", xt, yt)}
	case token.SUB:
		return &symv{app(bits, "bvsub", xt, yt)}
	case token.MUL:
		return &symv{app(bits, "bvmul", xt, yt)}
	case token.AND:
		return &symv{app(bits, "bvand", xt, yt)}
	case token.OR:
		return &symv{app(bits, "bvor", xt, yt)}
	case token.XOR:
		return &symv{app(bits, "bvxor", xt, yt)}
	case token.AND_NOT:
		return &symv{app(bits, "bvand", xt, app(bits, "bvnot", yt))}
	case token.SHL:
		return &symv{app(bits, "bvshl", xt, yt)}
	case token.SHR:
		if signed {
			return &symv{app(bits, "bvashr", xt, yt)}
		}
		return &symv{app(bits, "bvlshr", xt, yt)}
	case token.QUO, token.REM:
		// division by zero panics in Go: fork on y == 0
		if e.branch(tEq(yt, bvLit(0, bits))) {
			e.rtPanic("integer divide by zero")
		}
		name := map[bool]map[token.Token]string{true: {token.QUO: "bvsdiv", token.REM: "bvsrem"}, false: {token.QUO: "bvudiv", token.REM: "bvurem"}}[signed][op]
		return &symv{app(bits, name, xt, yt)}
	case token.LSS:
		return cmp("bvslt", "bvult")
	case token.LEQ:
		return cmp("bvsle", "bvule")
	case token.GTR:
		return cmp("bvsgt", "bvugt")
	case token.GEQ:
		return cmp("bvsge", "bvuge")
	}
	panic("symbolic binop " + op.String())
}

func (e *Engine) concBinop(op token.Token, bits int, signed bool, x, y uint64) value {
	sx, sy := sext(x, bits), sext(y, bits)
	switch op {
	case token.ADD:
		return mask(x+y, bits)
	case token.SUB:
		return mask(x-y, bits)
	case token.MUL:
		return mask(x*y, bits)
	case token.QUO:
		if y == 0 {
			e.rtPanic("integer divide by zero")
		}
		if signed {
			return mask(uint64(sx/sy), bits)
		}
		return mask(x/y, bits)
	case token.REM:
		if y == 0 {
			e.rtPanic("integer divide by zero")
		}
		if signed {
			return mask(uint64(sx%sy), bits)
		}
		return mask(x%y, bits)
	case token.AND:
		return x & y
	case token.OR:
		return x | y
	case token.XOR:
		return mask(x^y, bits)
	case token.AND_NOT:
		return x &^ y
	case token.SHL:
		if y >= 64 {
			return uint64(0)
		}
		return mask(x<<y, bits)
	case token.SHR:
		if signed {
			if y >= 64 {
				y = 63
			}
			return mask(uint64(sx>>y), bits)
		}
		if y >= 64 {
			return uint64(0)
		}
		return x >> y
	case token.LSS:
		if signed {
			return sx < sy
		}
		return x < y
	case token.LEQ:
		if signed {
			return sx <= sy
		}
		return x <= y
	case token.GTR:
		if signed {
			return sx > sy
		}
		return x > y
	case token.GEQ:
		if signed {
			return sx >= sy
		}
		return x >= y
	}
	panic("concBinop " + op.String())
}

func (e *Engine) strBinop(op token.Token, x, y value) value {
	xb, yb := strBytes(x), strBytes(y)
	switch op {
	case token.ADD:
		return mkStr(append(append([]value{}, xb...), yb...))
	case token.EQL, token.NEQ:
		var r value
		if len(xb) != len(yb) {
			r = false
		} else {
			acc := boolLit(true)
			all := true
			for i := range xb {
				xc, xok := xb[i].(uint64)
				yc, yok := yb[i].(uint64)
				if xok && yok {
					if xc != yc {
						all = false
						break
					}
					continue
				}
				eq := tEq(termOf(xb[i], 8), termOf(yb[i], 8))
				acc = tAnd(acc, eq)
			}
			if !all {
				r = false
			} else {
				r = symBool(acc)
			}
		}
		if op == token.NEQ {
			switch rr := r.(type) {
			case bool:
				return !rr
			case *symv:
				return symBool(tNot(rr.t))
			}
		}
		return r
	case token.LSS, token.LEQ, token.GTR, token.GEQ:
		xs, xok := x.(string)
		ys, yok := y.(string)
		if xok && yok {
			switch op {
			case token.LSS:
				return xs < ys
			case token.LEQ:
				return xs <= ys
			case token.GTR:
				return xs > ys
			default:
				return xs >= ys
			}
		}
		// lexicographic byte order with symbolic bytes: x < y iff at the first differing position x's byte is
		// smaller, or x is a proper prefix of y
		lt, eqp := boolLit(false), boolLit(true)
		n := len(xb)
		if len(yb) < n {
			n = len(yb)
		}
		for k := 0; k < n; k++ {
			xt, yt := termOf(xb[k], 8), termOf(yb[k], 8)
			lt = tOr(lt, tAnd(eqp, app(0, "bvult", xt, yt)))
			eqp = tAnd(eqp, tEq(xt, yt))
		}
		if len(xb) < len(yb) {
			lt = tOr(lt, eqp)
		}
		le := lt
		if len(xb) == len(yb) {
			le = tOr(lt, eqp)
		}
		switch op {
		case token.LSS:
			return symBool(lt)
		case token.LEQ:
			return symBool(le)
		case token.GTR:
			return symBool(tNot(le))
		default:
			return symBool(tNot(lt))
		}
	}
	panic("strBinop " + op.String())
}

// equals implements == for the static type t.
func (e *Engine) equals(t types.Type, x, y value) value {
	switch x := x.(type) {
	case bool:
		switch y := y.(type) {
		case bool:
			return x == y
		case *symv:
			return symBool(tEq(boolLit(x), y.t))
		}
	case uint64:
		switch y := y.(type) {
		case uint64:
			return x == y
		case *symv:
			return symBool(tEq(bvLit(x, y.t.bits), y.t))
		}
	case *symv:
		switch y := y.(type) {
		case *symv:
			return symBool(tEq(x.t, y.t))
		case uint64:
			return symBool(tEq(x.t, bvLit(y, x.t.bits)))
		case bool:
			return symBool(tEq(x.t, boolLit(y)))
		}
	case float64:
		return x == y.(float64)
	case string, *symstr:
		return e.strBinop(token.EQL, x, y)
	case *value:
		return x == y.(*value)
	case *mapv:
		return x == y.(*mapv)
	case *chanv:
		return x == y.(*chanv)
	case *ssa.Function:
		yf, ok := y.(*ssa.Function)
		return ok && x == yf
	case *closure:
		yc, ok := y.(*closure)
		return ok && x == yc
	case []value:
		// only comparison with nil is legal
		yv := y.([]value)
		return (x == nil) == (yv == nil) && (x == nil || yv == nil) && len(x) == len(yv)
	case iface:
		yi := y.(iface)
		if x.t == nil || yi.t == nil {
			return x.t == nil && yi.t == nil
		}
		if !types.Identical(x.t, yi.t) {
			return false
		}
		return e.equals(x.t, x.v, yi.v)
	case structure:
		ys := y.(structure)
		st := t.Underlying().(*types.Struct)
		acc := value(true)
		for i := range x {
			r := e.equals(st.Field(i).Type(), x[i], ys[i])
			acc = andVal(acc, r)
			if b, ok := acc.(bool); ok && !b {
				return false
			}
		}
		return acc
	case array:
		ya := y.(array)
		at := t.Underlying().(*types.Array)
		acc := value(true)
		for i := range x {
			acc = andVal(acc, e.equals(at.Elem(), x[i], ya[i]))
			if b, ok := acc.(bool); ok && !b {
				return false
			}
		}
		return acc
	case *native:
		return x == y.(*native)
	case nil:
		return y == nil
	}
	panic(fmt.Sprintf("equals: %T vs %T", x, y))
}

func andVal(a, b value) value {
	ab, aok := a.(bool)
	bb, bok := b.(bool)
	switch {
	case aok && bok:
		return ab && bb
	case aok:
		if !ab {
			return false
		}
		return b
	case bok:
		if !bb {
			return false
		}
		return a
	}
	return symBool(tAnd(a.(*symv).t, b.(*symv).t))
}

func (e *Engine) conv(tdst, tsrc types.Type, x value) value {
	if _, ok := x.(symfloat); ok {
		if b, isB := tdst.Underlying().(*types.Basic); isB && b.Info()&types.IsFloat != 0 {
			return x
		}
		e.unsupported("conversion of a float that depends on symbolic bytes")
	}
	ud, us := tdst.Underlying(), tsrc.Underlying()
	switch ud := ud.(type) {
	case *types.Pointer, *types.Signature, *types.Map, *types.Chan, *types.Interface, *types.Struct, *types.Array:
		return x
	case *types.Slice:
		// string -> []byte / []rune
		if _, ok := us.(*types.Basic); ok {
			if eb, ok := ud.Elem().Underlying().(*types.Basic); ok && eb.Kind() == types.Uint8 {
				b := strBytes(x)
				cp := make([]value, len(b))
				copy(cp, b)
				return cp
			}
			if s, ok := x.(string); ok {
				var r []value
				for _, c := range s {
					r = append(r, mask(uint64(c), 32))
				}
				return r
			}
			e.unsupported("[]rune(symbolic string)")
		}
		return x
	case *types.Basic:
		if ud.Info()&types.IsString != 0 {
			switch us := us.(type) {
			case *types.Slice:
				if eb, ok := us.Elem().Underlying().(*types.Basic); ok && eb.Kind() == types.Uint8 {
					return mkStr(x.([]value))
				}
				// []rune -> string
				var rs []rune
				for _, v := range x.([]value) {
					c, ok := v.(uint64)
					if !ok {
						e.unsupported("string([]rune) symbolic")
					}
					rs = append(rs, rune(sext(c, 32)))
				}
				return string(rs)
			case *types.Basic:
				if us.Info()&types.IsString != 0 {
					return x
				}
				// string(integer): UTF-8 encoding of the rune
				bits, signed, _ := intInfo(us)
				switch v := x.(type) {
				case uint64:
					var r rune
					if signed {
						r = rune(sext(v, bits))
					} else if v > 0x10FFFF {
						r = utf8.RuneError
					} else {
						r = rune(v)
					}
					return string(r)
				case *symv:
					// ASCII stays one byte; otherwise concretise
					lim := bvLit(0x80, v.t.bits)
					if e.branch(app(0, "bvult", v.t, lim)) {
						return &symstr{[]value{&symv{tExtend(v.t, 8, false)}}}
					}
					c := e.concretize(v.t)
					return string(rune(c))
				}
			}
			panic(fmt.Sprintf("conv to string from %v", tsrc))
		}
		if ud.Info()&types.IsInteger != 0 {
			dbits, _, _ := intInfo(ud)
			switch v := x.(type) {
			case uint64:
				sbits, ssigned, ok := intInfo(us)
				if !ok {
					panic("conv int from " + tsrc.String())
				}
				if ssigned {
					return mask(uint64(sext(v, sbits)), dbits)
				}
				return mask(v, dbits)
			case float64:
				return mask(uint64(int64(v)), dbits)
			case *symv:
				_, ssigned, _ := intInfo(us)
				return &symv{tExtend(v.t, dbits, ssigned)}
			case *value: // unsafe.Pointer -> uintptr
				e.unsupported("pointer to integer conversion")
			}
		}
		if ud.Info()&types.IsFloat != 0 {
			switch v := x.(type) {
			case float64:
				if ud.Kind() == types.Float32 {
					return float64(float32(v))
				}
				return v
			case uint64:
				sbits, ssigned, _ := intInfo(us)
				if ssigned {
					return float64(sext(v, sbits))
				}
				return float64(v)
			case *symv:
				e.unsupported("symbolic integer to float")
			}
		}
		if ud.Info()&types.IsBoolean != 0 {
			return x
		}
		if ud.Kind() == types.UnsafePointer {
			return x
		}
	}
	panic(fmt.Sprintf("conv: %v -> %v (%T)", tsrc, tdst, x))
}

func (e *Engine) slice(instr *ssa.Slice, x, lo, hi, max value) value {
	var length, capacity int64
	var data []value
	isStr := false
	switch x := x.(type) {
	case string, *symstr:
		data = strBytes(x)
		length = int64(len(data))
		capacity = length
		isStr = true
	case []value:
		data = x
		length = int64(len(x))
		capacity = int64(cap(x))
	case *value:
		if x == nil {
			e.rtPanic("slice of nil array pointer")
		}
		a := (*x).(array)
		data = []value(a)
		length = int64(len(a))
		capacity = length
	default:
		panic(fmt.Sprintf("slice of %T", x))
	}
	l := int64(0)
	if lo != nil {
		l = e.toInt(lo, instr.Low.Type())
	}
	h := length
	if hi != nil {
		h = e.toInt(hi, instr.High.Type())
	}
	m := capacity
	if max != nil {
		m = e.toInt(max, instr.Max.Type())
	}
	limit := capacity
	if isStr {
		limit = length
	}
	if l < 0 || h < l || h > limit || m < h || m > capacity {
		e.rtPanic(fmt.Sprintf("slice bounds out of range [%d:%d] with capacity %d", l, h, limit))
	}
	if isStr {
		return mkStr(data[l:h])
	}
	if data == nil {
		return []value(nil)
	}
	return data[:capacity][l:h:m]
}

// keyEq compares two map keys, returning a bool or symbolic bool.
func (e *Engine) keyEq(m *mapv, a, b value) value {
	return e.equals(m.kt, a, b)
}

func (e *Engine) mapFind(m *mapv, k value) int {
	for i, mk := range m.keys {
		if e.truth(e.keyEq(m, mk, k)) {
			return i
		}
	}
	return -1
}

func (e *Engine) mapSet(m *mapv, k, v value) {
	e.raceAccess(m, true)
	i := e.mapFind(m, k)
	e.touchMap(m)
	if i >= 0 {
		m.vals[i] = v
		return
	}
	m.keys = append(m.keys, k)
	m.vals = append(m.vals, v)
}

func (e *Engine) mapDelete(m *mapv, k value) {
	e.raceAccess(m, true)
	if i := e.mapFind(m, k); i >= 0 {
		e.touchMap(m)
		m.keys = append(append([]value{}, m.keys[:i]...), m.keys[i+1:]...)
		m.vals = append(append([]value{}, m.vals[:i]...), m.vals[i+1:]...)
	}
}

func (e *Engine) lookup(instr *ssa.Lookup, x, idx value) value {
	switch x := x.(type) {
	case *mapv:
		e.raceAccess(x, false)
		vt := instr.X.Type().Underlying().(*types.Map).Elem()
		var v value
		ok := false
		if x != nil {
			if i := e.mapFind(x, idx); i >= 0 {
				v = copyVal(x.vals[i])
				ok = true
			}
		}
		if !ok {
			v = zero(vt)
		}
		if instr.CommaOk {
			return tuple{v, ok}
		}
		return v
	case string, *symstr:
		b := strBytes(x)
		i := e.toInt(idx, instr.Index.Type())
		if i < 0 || i >= int64(len(b)) {
			e.rtPanic(fmt.Sprintf("index out of range [%d] with length %d", i, len(b)))
		}
		return b[i]
	}
	panic(fmt.Sprintf("lookup on %T", x))
}

type mapIter struct {
	m *mapv
	i int
	k []value
	v []value
}

func (it *mapIter) next() tuple {
	if it.i >= len(it.k) {
		return tuple{false, nil, nil}
	}
	r := tuple{true, it.k[it.i], copyVal(it.v[it.i])}
	it.i++
	return r
}

type strIter struct {
	e *Engine
	b []value
	i int
}

func (it *strIter) next() tuple {
	if it.i >= len(it.b) {
		return tuple{false, uint64(0), uint64(0)}
	}
	// decode one rune; symbolic lead byte: fork on ASCII, else concretise the needed bytes
	start := it.i
	lead := it.b[it.i]
	if c, ok := lead.(uint64); ok && c < 0x80 {
		it.i++
		return tuple{true, uint64(start), c}
	}
	if s, ok := lead.(*symv); ok {
		if it.e.branch(app(0, "bvult", s.t, bvLit(0x80, 8))) {
			it.i++
			return tuple{true, uint64(start), &symv{tExtend(s.t, 32, false)}}
		}
	}
	// concretise up to 4 bytes
	var buf []byte
	for j := it.i; j < len(it.b) && j < it.i+4; j++ {
		switch c := it.b[j].(type) {
		case uint64:
			buf = append(buf, byte(c))
		case *symv:
			buf = append(buf, byte(it.e.concretize(c.t)))
		}
	}
	r, n := utf8.DecodeRune(buf)
	it.i += n
	return tuple{true, uint64(start), mask(uint64(r), 32)}
}

func (e *Engine) rangeIter(x value, t types.Type) iter {
	switch x := x.(type) {
	case *mapv:
		if x == nil {
			return &mapIter{}
		}
		e.raceAccess(x, false)
		ks, vs := append([]value{}, x.keys...), append([]value{}, x.vals...)
		if e.permRev {
			// a second, very different iteration order for maps of any size (Go's order is unspecified)
			for i, j := 0, len(ks)-1; i < j; i, j = i+1, j-1 {
				ks[i], ks[j] = ks[j], ks[i]
				vs[i], vs[j] = vs[j], vs[i]
			}
		}
		if e.sh.permuteMaps && !e.permOff && len(ks) >= 2 && len(ks) <= 4 {
			// Go's map iteration order is unspecified: explore the orders (Fisher-Yates with forked choices)
			for i := 0; i < len(ks)-1; i++ {
				if e.sh.mapPermBudget > 0 && e.permForks >= e.sh.mapPermBudget {
					break
				}
				e.permForks++
				s := e.freshRange("mapiter", 64, 0, uint64(len(ks)-1-i))
				j := i + int(e.concretize(s.t))
				ks[i], ks[j] = ks[j], ks[i]
				vs[i], vs[j] = vs[j], vs[i]
			}
		}
		return &mapIter{m: x, k: ks, v: vs}
	case string, *symstr:
		return &strIter{e: e, b: strBytes(x)}
	}
	panic(fmt.Sprintf("range over %T", x))
}

var _ = math.Abs
