package main

import (
	"bufio"
	"fmt"
	"io"
	"os/exec"
	"regexp"
	"strconv"
	"strings"
	"time"
)

// solverErr is raised (as a Go panic) when the solver process answers with an error
// or dies; the explorer turns it into an inconclusive run, never into "holds".
type solverErr struct{ msg string }

type Solver struct {
	bin      string
	cmd      *exec.Cmd
	in       io.WriteCloser
	w        *bufio.Writer
	out      *bufio.Reader
	declared map[string]bool
	Retries int
	Queries  int
	Time     time.Duration
	depth    int
	log      io.Writer
}

func solverArgs(bin string) []string {
	if strings.Contains(bin, "cvc5") {
		return []string{"--incremental", "--lang=smt2", "--produce-models", "--tlimit-per=20000"}
	}
	return []string{"-in", "-t:20000"}
}

func NewSolver(bin string) (*Solver, error) {
	cmd := exec.Command(bin, solverArgs(bin)...)
	in, err := cmd.StdinPipe()
	if err != nil {
		return nil, err
	}
	outp, err := cmd.StdoutPipe()
	if err != nil {
		return nil, err
	}
	cmd.Stderr = cmd.Stdout
	if err := cmd.Start(); err != nil {
		return nil, err
	}
	s := &Solver{bin: bin, cmd: cmd, in: in, w: bufio.NewWriterSize(in, 1<<16), out: bufio.NewReaderSize(outp, 1<<16), declared: map[string]bool{}}
	if strings.Contains(bin, "cvc5") {
		s.send("(set-logic QF_BV)")
	} else {
		s.send("(set-option :global-declarations true)")
	}
	s.send("(set-option :produce-models true)")
	return s, nil
}

func (s *Solver) send(line string) {
	if s.log != nil {
		fmt.Fprintln(s.log, line)
	}
	s.w.WriteString(line)
	s.w.WriteByte('\n')
}

func (s *Solver) readLine() string {
	s.w.Flush()
	l, err := s.out.ReadString('\n')
	if err != nil {
		panic(solverErr{fmt.Sprintf("solver died: %v", err)})
	}
	l = strings.TrimSpace(l)
	if strings.HasPrefix(l, "(error") {
		panic(solverErr{"solver error: " + l})
	}
	return l
}

func (s *Solver) Declare(name string, bits int) {
	if s.declared[name] {
		return
	}
	s.declared[name] = true
	if bits == 0 {
		s.send(fmt.Sprintf("(declare-const %s Bool)", name))
	} else {
		s.send(fmt.Sprintf("(declare-const %s (_ BitVec %d))", name, bits))
	}
}

func (s *Solver) Push()          { s.send("(push 1)"); s.depth++ }
func (s *Solver) Pop()           { s.send("(pop 1)"); s.depth-- }
func (s *Solver) Assert(t *Term) { s.send("(assert " + t.String() + ")") }

// Check returns "sat", "unsat" or "unknown".
func (s *Solver) Check() string {
	t0 := time.Now()
	s.send("(check-sat)")
	r := s.readLine()
	s.Queries++
	// "unknown" here means the per-query time limit was hit (the queries are quantifier-free bit-vector
	// problems). On a loaded machine a starved solver process can hit it on a trivial query: ask again,
	// twice at most; a query that stays unknown is reported as such and makes the run inconclusive.
	for retry := 0; r == "unknown" && retry < 2; retry++ {
		s.Retries++
		s.send("(check-sat)")
		r = s.readLine()
	}
	s.Time += time.Since(t0)
	if r != "sat" && r != "unsat" && r != "unknown" {
		panic(solverErr{"unexpected check-sat answer: " + r})
	}
	return r
}

// CheckWith asks whether the current stack plus t is satisfiable.
func (s *Solver) CheckWith(t *Term) string {
	s.Push()
	s.Assert(t)
	r := s.Check()
	s.Pop()
	return r
}

func (s *Solver) readSexp() string {
	var sb strings.Builder
	bal := 0
	started := false
	for {
		l := s.readLine()
		sb.WriteString(l)
		sb.WriteByte(' ')
		for _, c := range l {
			if c == '(' {
				bal++
				started = true
			} else if c == ')' {
				bal--
			}
		}
		if started && bal == 0 {
			break
		}
	}
	return strings.TrimSpace(sb.String())
}

// Value evaluates a bit-vector or bool term in the current model (after a sat Check).
func (s *Solver) Value(t *Term) uint64 {
	s.send("(get-value (" + t.String() + "))")
	ans := s.readSexp()
	if m := reTailBV.FindStringSubmatch(ans); m != nil {
		n, _ := strconv.ParseUint(m[1], 10, 64)
		return n
	}
	if m := reTailHex.FindStringSubmatch(ans); m != nil {
		n, _ := strconv.ParseUint(m[1], 16, 64)
		return n
	}
	if m := reTailBin.FindStringSubmatch(ans); m != nil {
		n, _ := strconv.ParseUint(m[1], 2, 64)
		return n
	}
	if strings.HasSuffix(ans, " true))") {
		return 1
	}
	if strings.HasSuffix(ans, " false))") {
		return 0
	}
	panic(solverErr{"cannot parse model value: " + ans})
}

var (
	reTailBV  = regexp.MustCompile(`\(_ bv(\d+) \d+\)\s*\)\s*\)$`)
	reTailHex = regexp.MustCompile(`#x([0-9a-fA-F]+)\s*\)\s*\)$`)
	reTailBin = regexp.MustCompile(`#b([01]+)\s*\)\s*\)$`)
	reValItem = regexp.MustCompile(`\((\|[^|]*\||[^\s()]+)\s+(#x[0-9a-fA-F]+|#b[01]+|\(_ bv\d+ \d+\)|true|false)\)`)
)

// Values evaluates many variables in one round trip (terms must be variables).
func (s *Solver) Values(ts []*Term) []uint64 {
	out := make([]uint64, len(ts))
	if len(ts) == 0 {
		return out
	}
	var sb strings.Builder
	sb.WriteString("(get-value (")
	for _, t := range ts {
		sb.WriteString(t.String())
		sb.WriteByte(' ')
	}
	sb.WriteString("))")
	s.send(sb.String())
	ans := s.readSexp()
	ms := reValItem.FindAllStringSubmatch(ans, -1)
	if len(ms) != len(ts) {
		panic(solverErr{fmt.Sprintf("get-value: expected %d values, got %d: %s", len(ts), len(ms), ans)})
	}
	for i, m := range ms {
		v := m[2]
		switch {
		case v == "true":
			out[i] = 1
		case v == "false":
			out[i] = 0
		case strings.HasPrefix(v, "#x"):
			out[i], _ = strconv.ParseUint(v[2:], 16, 64)
		case strings.HasPrefix(v, "#b"):
			out[i], _ = strconv.ParseUint(v[2:], 2, 64)
		default:
			f := strings.Fields(strings.Trim(v, "()"))
			out[i], _ = strconv.ParseUint(strings.TrimPrefix(f[1], "bv"), 10, 64)
		}
	}
	return out
}

func (s *Solver) Close() {
	defer func() { recover() }()
	s.send("(exit)")
	s.w.Flush()
	s.in.Close()
	s.cmd.Wait()
}
