package main

import (
	"fmt"
	"go/token"
	"go/types"
	"strings"

	"golang.org/x/tools/go/ssa"
)

type nativeFn func(args []value) value

type deferred struct {
	fn   value
	args []value
	tail *deferred
}

type frame struct {
	e         *Engine
	caller    *frame
	fn        *ssa.Function
	block     *ssa.BasicBlock
	prevBlock *ssa.BasicBlock
	info      *fnInfo
	env       []value
	locals    []value
	defers    *deferred
	result    value
	panicking bool
	panic     interface{}
}

func (e *Engine) rtPanic(msg string) {
	e.lastTrace = e.stackTrace()
	panic(targetPanic{iface{t: e.runtimeErrT, v: "runtime error: " + msg}})
}

// stackTrace renders the interpreted call stack (innermost first).
func (e *Engine) stackTrace() string {
	var sb strings.Builder
	n := 0
	for fr := e.curFrame; fr != nil && n < 12; fr = fr.caller {
		sb.WriteString(fr.fn.String())
		sb.WriteString(" <- ")
		n++
	}
	return sb.String()
}

// storeInto assigns v to the cell at addr. Aggregates are written field by field into the existing
// object so that previously computed interior pointers (&x.f, &a[i]) stay valid, as in real memory.
func (e *Engine) storeInto(addr *value, v value, log bool) {
	switch sv := v.(type) {
	case structure:
		if dst, ok := (*addr).(structure); ok && len(dst) == len(sv) {
			for i := range sv {
				e.storeInto(&dst[i], sv[i], log)
			}
			return
		}
	case array:
		if dst, ok := (*addr).(array); ok && len(dst) == len(sv) {
			for i := range sv {
				e.storeInto(&dst[i], sv[i], log)
			}
			return
		}
	}
	if log {
		e.logStore(addr)
	}
	*addr = copyVal(v)
}

func (e *Engine) unsupported(msg string) {
	panic(pathEnd{"unsupported", msg})
}

func (fr *frame) get(key ssa.Value) value {
	switch key := key.(type) {
	case nil:
		return nil
	case *ssa.Function, *ssa.Builtin:
		return key
	case *ssa.Const:
		return constValue(key)
	case *ssa.Global:
		if r, ok := fr.e.globals[key]; ok {
			return r
		}
		// lazily create globals of packages whose init we do not run
		p := new(value)
		*p = zero(key.Type().(*types.Pointer).Elem())
		if key.Pkg != nil && key.Pkg.Pkg.Path() == "golang.org/x/text/encoding/simplifiedchinese" && key.Name() == "GBK" {
			*p = iface{t: gbkT, v: "GBK"}
		}
		fr.e.globals[key] = p
		return p
	}
	if i, ok := fr.info.index[key]; ok {
		return fr.env[i]
	}
	panic(fmt.Sprintf("get: no value for %T: %v in %s", key, key.Name(), fr.fn))
}

func (fr *frame) set(key ssa.Value, v value) {
	fr.env[fr.info.index[key]] = v
}

// fnInfo numbers the SSA values of a function so that a frame's environment is a slice.
type fnInfo struct {
	index map[ssa.Value]int
	n     int
}

func (e *Engine) infoOf(fn *ssa.Function) *fnInfo {
	if v, ok := e.sh.fnInfo.Load(fn); ok {
		return v.(*fnInfo)
	}
	in := &fnInfo{index: map[ssa.Value]int{}}
	add := func(v ssa.Value) {
		in.index[v] = in.n
		in.n++
	}
	for _, p := range fn.Params {
		add(p)
	}
	for _, fv := range fn.FreeVars {
		add(fv)
	}
	for _, b := range fn.Blocks {
		for _, instr := range b.Instrs {
			if v, ok := instr.(ssa.Value); ok {
				add(v)
			}
		}
	}
	v, _ := e.sh.fnInfo.LoadOrStore(fn, in)
	return v.(*fnInfo)
}

func constValue(c *ssa.Const) value {
	if c.Value == nil {
		return zero(c.Type())
	}
	if t, ok := c.Type().Underlying().(*types.Basic); ok {
		switch {
		case t.Info()&types.IsBoolean != 0:
			return c.Value.String() == "true"
		case t.Info()&types.IsString != 0:
			if c.Value.Kind().String() == "String" {
				return constantString(c)
			}
			return constantString(c)
		case t.Info()&types.IsInteger != 0:
			bits, signed, _ := intInfo(t)
			if signed {
				return mask(uint64(c.Int64()), bits)
			}
			return mask(c.Uint64(), bits)
		case t.Info()&types.IsFloat != 0:
			return c.Float64()
		}
	}
	panic(fmt.Sprintf("constValue: unexpected constant %v of type %v", c, c.Type()))
}

func (e *Engine) call(caller *frame, fn value, args []value) value {
	switch fn := fn.(type) {
	case *ssa.Function:
		if fn == nil {
			e.rtPanic("call of nil function")
		}
		return e.callSSA(caller, fn, args, nil)
	case *closure:
		return e.callSSA(caller, fn.Fn, args, fn.Env)
	case *ssa.Builtin:
		return e.callBuiltin(caller, fn, args)
	case nativeFn:
		return fn(args)
	}
	panic(fmt.Sprintf("cannot call %T", fn))
}

func (e *Engine) callSSA(caller *frame, fn *ssa.Function, args []value, env []value) value {
	if ext := e.external(fn); ext != nil {
		return ext(e, caller, fn, args)
	}
	if fn.Blocks == nil {
		e.unsupported("no body: " + fn.String())
	}
	e.FuncsSeen[fn]++
	e.depth++
	if e.depth > e.MaxDepth {
		panic(pathEnd{"depth", fn.String()})
	}
	defer func() { e.depth-- }()
	fr := &frame{e: e, caller: caller, fn: fn}
	saved := e.curFrame
	e.curFrame = fr
	defer func() { e.curFrame = saved }()
	fr.info = e.infoOf(fn)
	fr.env = make([]value, fr.info.n)
	fr.block = fn.Blocks[0]
	fr.locals = make([]value, len(fn.Locals))
	for i, l := range fn.Locals {
		fr.locals[i] = zero(l.Type().(*types.Pointer).Elem())
		fr.set(l, &fr.locals[i])
	}
	for i, p := range fn.Params {
		fr.set(p, args[i])
	}
	for i, fv := range fn.FreeVars {
		fr.set(fv, env[i])
	}
	for fr.block != nil {
		runFrame(fr)
	}
	// drop references
	return fr.result
}

// runFrame executes fr until return, handling Go-level panics by running defers (recover block).
func runFrame(fr *frame) {
	defer func() {
		if fr.block == nil {
			return // normal return
		}
		r := recover()
		if r == nil {
			return
		}
		if _, ok := r.(targetPanic); !ok {
			panic(r) // pathEnd or interpreter bug: not recoverable by the program
		}
		fr.panicking = true
		fr.panic = r
		fr.runDefers()
		fr.block = fr.fn.Recover
	}()
outer:
	for {
		for _, instr := range fr.block.Instrs {
			fr.e.steps++
			if fr.e.steps > fr.e.MaxSteps {
				panic(pathEnd{"steps", fr.fn.String()})
			}
			switch visitInstr(fr, instr) {
			case kReturn:
				return
			case kJump:
				continue outer
			}
		}
		panic("fell off the end of block in " + fr.fn.String())
	}
}

func (fr *frame) runDefers() {
	for d := fr.defers; d != nil; d = d.tail {
		fr.runDefer(d)
	}
	fr.defers = nil
	if fr.panicking {
		panic(fr.panic)
	}
}

func (fr *frame) runDefer(d *deferred) {
	var ok bool
	defer func() {
		if !ok {
			r := recover()
			if _, isT := r.(targetPanic); !isT {
				panic(r)
			}
			fr.panicking = true
			fr.panic = r
		}
	}()
	fr.e.call(fr, d.fn, d.args)
	ok = true
}

type continuation int

const (
	kNext continuation = iota
	kReturn
	kJump
)

func prepareCall(fr *frame, call *ssa.CallCommon) (fn value, args []value) {
	v := fr.get(call.Value)
	if call.Method == nil {
		fn = v
	} else {
		recv := v.(iface)
		if recv.t == nil {
			fr.e.rtPanic("method value: interface conversion: interface is nil")
		}
		if recv.t == gbkT && call.Method.Name() == "NewDecoder" {
			return nativeFn(func([]value) value {
				p := new(value)
				*p = &native{desc: "gbk-decoder"}
				return p
			}), nil
		}
		if recv.t == errorT || recv.t == fr.e.runtimeErrT {
			if call.Method.Name() == "Error" {
				msg := recv.v
				return nativeFn(func([]value) value { return msg }), nil
			}
		}
		m := fr.e.prog.LookupMethod(recv.t, call.Method.Pkg(), call.Method.Name())
		if m == nil {
			panic(fmt.Sprintf("method not found: %v.%s", recv.t, call.Method.Name()))
		}
		fn = m
		args = append(args, recv.v)
	}
	for _, a := range call.Args {
		args = append(args, fr.get(a))
	}
	return
}

func visitInstr(fr *frame, instr ssa.Instruction) continuation {
	e := fr.e
	switch instr := instr.(type) {
	case *ssa.DebugRef:
	case *ssa.UnOp:
		fr.env[fr.info.index[instr]] = e.unop(instr, fr.get(instr.X))
	case *ssa.BinOp:
		fr.env[fr.info.index[instr]] = e.binop(instr.Op, instr.X.Type(), fr.get(instr.X), fr.get(instr.Y))
	case *ssa.Call:
		fn, args := prepareCall(fr, &instr.Call)
		fr.env[fr.info.index[instr]] = e.call(fr, fn, args)
	case *ssa.ChangeInterface:
		fr.env[fr.info.index[instr]] = fr.get(instr.X)
	case *ssa.ChangeType:
		fr.env[fr.info.index[instr]] = fr.get(instr.X)
	case *ssa.Convert:
		fr.env[fr.info.index[instr]] = e.conv(instr.Type(), instr.X.Type(), fr.get(instr.X))
	case *ssa.MakeInterface:
		fr.env[fr.info.index[instr]] = iface{t: instr.X.Type(), v: fr.get(instr.X)}
	case *ssa.Extract:
		fr.env[fr.info.index[instr]] = fr.get(instr.Tuple).(tuple)[instr.Index]
	case *ssa.Slice:
		fr.env[fr.info.index[instr]] = e.slice(instr, fr.get(instr.X), fr.get(instr.Low), fr.get(instr.High), fr.get(instr.Max))
	case *ssa.Return:
		switch len(instr.Results) {
		case 0:
		case 1:
			fr.result = fr.get(instr.Results[0])
		default:
			var res []value
			for _, r := range instr.Results {
				res = append(res, fr.get(r))
			}
			fr.result = tuple(res)
		}
		fr.block = nil
		return kReturn
	case *ssa.RunDefers:
		fr.runDefers()
	case *ssa.Panic:
		e.lastTrace = e.stackTrace()
		panic(targetPanic{fr.get(instr.X)})
	case *ssa.Store:
		addr := fr.get(instr.Addr).(*value)
		if addr == nil {
			e.rtPanic("invalid memory address or nil pointer dereference")
		}
		al, isAlloc := instr.Addr.(*ssa.Alloc)
		if (!isAlloc || al.Heap) && e.race != nil && e.race.on {
			e.raceCell(addr, true)
		}
		e.storeInto(addr, fr.get(instr.Val), !isAlloc || al.Heap)
	case *ssa.If:
		succ := 1
		if e.truth(fr.get(instr.Cond)) {
			succ = 0
		}
		fr.prevBlock, fr.block = fr.block, fr.block.Succs[succ]
		fr.phis()
		return kJump
	case *ssa.Jump:
		fr.prevBlock, fr.block = fr.block, fr.block.Succs[0]
		fr.phis()
		return kJump
	case *ssa.Defer:
		fn, args := prepareCall(fr, &instr.Call)
		fr.defers = &deferred{fn: fn, args: args, tail: fr.defers}
	case *ssa.Alloc:
		var addr *value
		if instr.Heap {
			addr = new(value)
			fr.env[fr.info.index[instr]] = addr
		} else {
			addr = fr.env[fr.info.index[instr]].(*value)
		}
		*addr = zero(instr.Type().(*types.Pointer).Elem())
	case *ssa.MakeSlice:
		n := e.toInt(fr.get(instr.Cap), instr.Cap.Type())
		l := e.toInt(fr.get(instr.Len), instr.Len.Type())
		if n < 0 || l < 0 || l > n || n > 1<<24 {
			e.rtPanic("makeslice: len out of range")
		}
		s := make([]value, n)
		tElt := instr.Type().Underlying().(*types.Slice).Elem()
		for i := range s {
			s[i] = zero(tElt)
		}
		fr.env[fr.info.index[instr]] = s[:l]
	case *ssa.MakeMap:
		fr.env[fr.info.index[instr]] = &mapv{kt: instr.Type().Underlying().(*types.Map).Key(), epoch: e.epoch}
	case *ssa.Range:
		fr.env[fr.info.index[instr]] = e.rangeIter(fr.get(instr.X), instr.X.Type())
	case *ssa.Next:
		fr.env[fr.info.index[instr]] = fr.get(instr.Iter).(iter).next()
	case *ssa.FieldAddr:
		p := fr.get(instr.X).(*value)
		if p == nil {
			e.rtPanic("invalid memory address or nil pointer dereference")
		}
		fr.env[fr.info.index[instr]] = &(*p).(structure)[instr.Field]
	case *ssa.Field:
		fr.env[fr.info.index[instr]] = fr.get(instr.X).(structure)[instr.Field]
	case *ssa.IndexAddr:
		x := fr.get(instr.X)
		idx := e.toInt(fr.get(instr.Index), instr.Index.Type())
		switch x := x.(type) {
		case []value:
			if idx < 0 || idx >= int64(len(x)) {
				e.rtPanic(fmt.Sprintf("index out of range [%d] with length %d", idx, len(x)))
			}
			fr.env[fr.info.index[instr]] = &x[idx]
		case *value:
			if x == nil {
				e.rtPanic("invalid memory address or nil pointer dereference")
			}
			a := (*x).(array)
			if idx < 0 || idx >= int64(len(a)) {
				e.rtPanic(fmt.Sprintf("index out of range [%d] with length %d", idx, len(a)))
			}
			fr.env[fr.info.index[instr]] = &a[idx]
		default:
			panic(fmt.Sprintf("IndexAddr on %T", x))
		}
	case *ssa.Index:
		x := fr.get(instr.X)
		idx := e.toInt(fr.get(instr.Index), instr.Index.Type())
		switch x := x.(type) {
		case array:
			if idx < 0 || idx >= int64(len(x)) {
				e.rtPanic("index out of range")
			}
			fr.env[fr.info.index[instr]] = x[idx]
		case string, *symstr:
			b := strBytes(x)
			if idx < 0 || idx >= int64(len(b)) {
				e.rtPanic(fmt.Sprintf("index out of range [%d] with length %d", idx, len(b)))
			}
			fr.env[fr.info.index[instr]] = b[idx]
		default:
			panic(fmt.Sprintf("Index on %T", x))
		}
	case *ssa.Lookup:
		fr.env[fr.info.index[instr]] = e.lookup(instr, fr.get(instr.X), fr.get(instr.Index))
	case *ssa.MapUpdate:
		m := fr.get(instr.Map).(*mapv)
		if m == nil {
			e.rtPanic("assignment to entry in nil map")
		}
		e.mapSet(m, fr.get(instr.Key), copyVal(fr.get(instr.Value)))
	case *ssa.TypeAssert:
		fr.env[fr.info.index[instr]] = e.typeAssert(instr, fr.get(instr.X).(iface))
	case *ssa.MakeClosure:
		var bindings []value
		for _, b := range instr.Bindings {
			bindings = append(bindings, fr.get(b))
		}
		fr.env[fr.info.index[instr]] = &closure{instr.Fn.(*ssa.Function), bindings}
	case *ssa.Phi:
		// handled at block entry
	case *ssa.Go:
		fn, args := prepareCall(fr, &instr.Call)
		e.spawn(fn, args)
	case *ssa.Send:
		ch, _ := fr.get(instr.Chan).(*chanv)
		e.chanSend(ch, copyVal(fr.get(instr.X)))
	case *ssa.MakeChan:
		n := e.toInt(fr.get(instr.Size), instr.Size.Type())
		fr.env[fr.info.index[instr]] = &chanv{cap: int(n), elem: instr.Type().Underlying().(*types.Chan).Elem()}
	case *ssa.Select:
		e.unsupported(fmt.Sprintf("%T in %s", instr, fr.fn))
	default:
		panic(fmt.Sprintf("unexpected instruction: %T", instr))
	}
	return kNext
}

// phis evaluates the phi nodes of the new block simultaneously.
func (fr *frame) phis() {
	var idx int = -1
	for i, p := range fr.block.Preds {
		if p == fr.prevBlock {
			idx = i
			break
		}
	}
	var vals []value
	var keys []*ssa.Phi
	for _, instr := range fr.block.Instrs {
		phi, ok := instr.(*ssa.Phi)
		if !ok {
			break
		}
		keys = append(keys, phi)
		vals = append(vals, fr.get(phi.Edges[idx]))
	}
	for i, k := range keys {
		fr.env[fr.info.index[k]] = vals[i]
	}
}

// truth decides a bool value, forking when symbolic.
func (e *Engine) truth(v value) bool {
	switch v := v.(type) {
	case bool:
		return v
	case *symv:
		return e.branch(v.t)
	}
	panic(fmt.Sprintf("truth: %T", v))
}

// toInt returns a concrete signed integer, concretising if symbolic.
func (e *Engine) toInt(v value, t types.Type) int64 {
	bits, signed, _ := intInfo(t)
	switch v := v.(type) {
	case uint64:
		if signed {
			return sext(v, bits)
		}
		return int64(v)
	case *symv:
		c := e.concretize(v.t)
		if signed {
			return sext(c, bits)
		}
		return int64(c)
	}
	panic(fmt.Sprintf("toInt: %T", v))
}

func (e *Engine) typeAssert(instr *ssa.TypeAssert, itf iface) value {
	var v value
	err := ""
	if idst, ok := instr.AssertedType.Underlying().(*types.Interface); ok {
		v = itf
		if itf.t == nil {
			err = "interface conversion: interface is nil"
		} else if !types.Implements(itf.t, idst) && !types.Implements(types.NewPointer(itf.t), idst) {
			ms := e.prog.MethodSets.MethodSet(itf.t)
			okAll := true
			for i := 0; i < idst.NumMethods(); i++ {
				if ms.Lookup(idst.Method(i).Pkg(), idst.Method(i).Name()) == nil {
					okAll = false
				}
			}
			if !okAll {
				err = fmt.Sprintf("interface conversion: %v is not %v", itf.t, idst)
			}
		}
	} else if itf.t != nil && types.Identical(itf.t, instr.AssertedType) {
		v = itf.v
	} else {
		err = fmt.Sprintf("interface conversion: interface is %v, not %v", itf.t, instr.AssertedType)
	}
	if err != "" {
		if !instr.CommaOk {
			e.rtPanic(err)
		}
		return tuple{zero(instr.AssertedType), false}
	}
	if instr.CommaOk {
		return tuple{v, true}
	}
	return v
}

func (e *Engine) callBuiltin(caller *frame, fn *ssa.Builtin, args []value) value {
	switch fn.Name() {
	case "append":
		if len(args) == 1 {
			return args[0]
		}
		var y []value
		switch a := args[1].(type) {
		case string, *symstr:
			y = strBytes(a)
		case []value:
			y = a
		}
		x := args[0].([]value)
		if len(y) == 0 {
			return x
		}
		// always reallocate unless capacity allows (keep Go aliasing semantics)
		if len(x)+len(y) <= cap(x) {
			x = x[:len(x)+len(y)]
			for i, v := range y {
				e.logStore(&x[len(x)-len(y)+i])
				x[len(x)-len(y)+i] = copyVal(v)
			}
			return x
		}
		n := make([]value, len(x), (len(x)+len(y))*2)
		copy(n, x)
		for _, v := range y {
			n = append(n, copyVal(v))
		}
		return n
	case "copy":
		dst := args[0].([]value)
		var src []value
		switch a := args[1].(type) {
		case string, *symstr:
			src = strBytes(a)
		case []value:
			src = a
		}
		n := len(dst)
		if len(src) < n {
			n = len(src)
		}
		if n > 0 && len(src) > 0 && &dst[0] != &src[0] {
			// overlapping copies within one backing array need a temporary
			tmp := make([]value, n)
			for i := 0; i < n; i++ {
				tmp[i] = copyVal(src[i])
			}
			for i := 0; i < n; i++ {
				e.storeInto(&dst[i], tmp[i], true)
			}
		}
		return uint64(n)
	case "len":
		switch x := args[0].(type) {
		case string:
			return uint64(len(x))
		case *symstr:
			return uint64(len(x.b))
		case array:
			return uint64(len(x))
		case *value:
			return uint64(len((*x).(array)))
		case []value:
			return uint64(len(x))
		case *mapv:
			if x == nil {
				return uint64(0)
			}
			return uint64(len(x.keys))
		case *chanv:
			if x == nil {
				return uint64(0)
			}
			return uint64(len(x.buf))
		}
		panic(fmt.Sprintf("len of %T", args[0]))
	case "cap":
		switch x := args[0].(type) {
		case []value:
			return uint64(cap(x))
		case array:
			return uint64(len(x))
		}
	case "close":
		ch, _ := args[0].(*chanv)
		e.chanClose(ch)
		return nil
	case "delete":
		m := args[0].(*mapv)
		if m != nil {
			e.mapDelete(m, args[1])
		}
		return nil
	case "panic":
		panic(targetPanic{args[0]})
	case "recover":
		// recover is only effective when called directly by a deferred function
		if caller == nil || caller.caller == nil {
			return iface{}
		}
		fr := caller.caller
		if fr.panicking {
			p := fr.panic.(targetPanic).v
			fr.panicking = false
			fr.panic = nil
			switch p := p.(type) {
			case iface:
				return p
			default:
				return iface{t: e.runtimeErrT, v: p}
			}
		}
		return iface{}
	case "print", "println":
		return nil
	case "min", "max":
	}
	panic("unsupported builtin " + fn.Name())
}

func posStr(prog *ssa.Program, p token.Pos) string {
	return prog.Fset.Position(p).String()
}

var _ = strings.Contains
