package main

import (
	"fmt"
	"regexp"
	"strconv"
)

func enumStrings(alpha string, maxLen int, f func(s string)) {
	var rec func(prefix []byte)
	rec = func(prefix []byte) {
		f(string(prefix))
		if len(prefix) == maxLen {
			return
		}
		for i := 0; i < len(alpha); i++ {
			rec(append(prefix, alpha[i]))
		}
	}
	rec(nil)
}

// cmdSelftest validates the library models against the real library, exhaustively on short strings.
func cmdSelftest() int {
	e := &Engine{}
	bad, n := 0, 0
	fail := func(what, s string) {
		bad++
		if bad < 20 {
			fmt.Printf("MODEL MISMATCH %s on %q\n", what, s)
		}
	}
	enumStrings("019+-a.e", 5, func(s string) {
		n++
		v, ok := e.mParseInt(strBytes(s), 10, true)
		w, err := strconv.ParseInt(s, 10, 64)
		if ok != (err == nil) || (ok && v.(uint64) != uint64(w)) {
			fail("ParseInt/10", s)
		}
		v, ok = e.mParseInt(strBytes(s), 10, false)
		u, err := strconv.ParseUint(s, 10, 64)
		if ok != (err == nil) || (ok && v.(uint64) != u) {
			fail("ParseUint/10", s)
		}
	})
	enumStrings("09afAFgx-", 4, func(s string) {
		n++
		v, ok := e.mParseInt(strBytes(s), 16, false)
		u, err := strconv.ParseUint(s, 16, 64)
		if ok != (err == nil) || (ok && v.(uint64) != u) {
			fail("ParseUint/16", s)
		}
	})
	enumStrings("019.eE+-a", 6, func(s string) {
		n++
		ok, _ := e.mParseFloatSyntax(strBytes(s))
		_, err := strconv.ParseFloat(s, 64)
		// the syntax model must agree except for range errors, which need >= 3 exponent digits
		if ok != (err == nil) {
			if ne, isNum := err.(*strconv.NumError); !(ok && isNum && ne.Err == strconv.ErrRange) {
				fail("ParseFloat syntax", s)
			}
		}
	})
	re := regexp.MustCompile(hexFloatPattern)
	enumStrings("09afg.p+-", 5, func(s string) {
		n++
		if e.mHexFloatRe(strBytes(s)) != re.MatchString(s) {
			fail("hex float regex", s)
		}
	})
	fmt.Printf("selftest: %d strings compared, %d mismatches\n", n, bad)
	if bad > 0 {
		return 1
	}
	return 0
}
