package main

import (
	"encoding/json"
	"flag"
	"fmt"
	"go/types"
	"os"
	"path/filepath"
	"runtime"
	"sort"
	"strconv"
	"strings"
	"sync"
	"time"

	"golang.org/x/tools/go/ssa"
)

// Spec is /verif/harness/<prop>/spec.json.
type Spec struct {
	Property    string    `json:"property"`
	Level       string    `json:"level"`
	Harness     []string  `json:"harness"`
	Jobs        []JobSpec `json:"jobs"`
	Assumptions []string  `json:"assumptions"`
	Explanation string    `json:"explanation"`
}

type JobSpec struct {
	Name         string                      `json:"name"`
	Entry        string                      `json:"entry"`
	Setup        string                      `json:"setup"`
	Tiers        map[string]map[string]int64 `json:"tiers"` // tier -> params; a missing tier skips the job
	RequireReach []string                    `json:"require_reach"`
	MaxSteps     int                         `json:"max_steps"`
	MaxDepth     int                         `json:"max_depth"`
	MaxPaths     int64                       `json:"max_paths"`
	Bound        string                      `json:"bound"` // human-readable statement of the bound
	Overrides    []string                    `json:"overrides"` // target=replacement, in addition to the harness files' //gosx:override lines
	Models       []string                    `json:"models"`    // target=replacement for the symbolic run only: environment models (harness code) of functions that the native replay runs for real
	PermuteMaps  bool                        `json:"permute_maps"`   // explore the iteration orders of maps with 2..4 entries (forked choices)
	MapPermBudget int                        `json:"map_perm_budget"` // at most this many permutation choices per path (0 = all)
	ExploreSched bool                        `json:"explore_sched"` // fork over every choice among several ready select cases (arrival orders of worker results)
	SchedBudget  int                         `json:"sched_budget"` // at most this many scheduling choices are forked per path (0 = all)
	TraceAccess  bool                        `json:"trace_access"`  // record map accesses with locksets and vector clocks; report feasible conflicting pairs (C10)
	ReplayRace   bool                        `json:"replay_race"`   // build the native replay binary with the race detector
	ReplayRepeat int                         `json:"replay_repeat"` // native replays are repeated up to this many times until one confirms (schedule-dependent behaviour)
	Validate     int                         `json:"validate"` // replay every n-th ok path natively and compare observations (0 = default 1 per job)
}

type jobResult struct {
	Name        string            `json:"job"`
	Entry       string            `json:"entry"`
	Params      map[string]int64  `json:"params"`
	Bound       string            `json:"bound"`
	Paths       int               `json:"paths"`
	Outcomes    map[string]int    `json:"outcomes"`
	Reach       map[string]int    `json:"reach"`
	Queries     int               `json:"solver_queries"`
	SolverS     float64           `json:"solver_time_s"`
	Decided     int               `json:"decisions_by_solver"`
	QuickDec    int               `json:"decisions_by_domain_or_cached_model"`
	Asserts     int               `json:"assertion_verdict_queries"`
	Funcs       int               `json:"functions_encoded"`
	Unsupported map[string]int    `json:"unsupported,omitempty"`
	WallS       float64           `json:"wall_s"`
	Violations  []violation       `json:"-"`
	VioCounts   map[string]int    `json:"violation_counts,omitempty"`
	Samples     []map[string]uint64 `json:"-"`
	funcNames   map[string]int
	Validated   int               `json:"paths_validated_natively"`
	ValidBad    int               `json:"validation_mismatches"`
	problems    []string
	validation  []validationCase
}

type validationCase struct {
	model    map[string]uint64
	observes []string
}

func main() {
	if len(os.Args) < 2 {
		fmt.Println("usage: gosx check|selftest ...")
		os.Exit(2)
	}
	switch os.Args[1] {
	case "check":
		os.Exit(cmdCheck(os.Args[2:]))
	case "selftest":
		os.Exit(cmdSelftest())
	case "ssa":
		os.Exit(cmdSSA(os.Args[2:]))
	default:
		fmt.Println("unknown command", os.Args[1])
		os.Exit(2)
	}
}

func readKnown(path, prop string) (known map[string]string) {
	known = map[string]string{}
	b, err := os.ReadFile(path)
	if err != nil {
		return
	}
	for _, l := range strings.Split(string(b), "\n") {
		l = strings.TrimSpace(l)
		if !strings.HasPrefix(l, "known:") {
			continue
		}
		f := strings.Fields(strings.TrimPrefix(l, "known:"))
		if len(f) < 2 || f[0] != "property="+prop || !strings.HasPrefix(f[1], "class=") {
			continue
		}
		known[strings.TrimPrefix(f[1], "class=")] = strings.Join(f[2:], " ")
	}
	return
}

func cmdCheck(args []string) int {
	fs := flag.NewFlagSet("check", flag.ExitOnError)
	repo := fs.String("repo", "/repo/luahelper-lsp", "module directory (current working tree)")
	verif := fs.String("verif", "/verif", "verification root")
	prop := fs.String("prop", "", "property id, e.g. C13")
	tier := fs.String("tier", "quick", "quick|thorough")
	only := fs.String("job", "", "run only this job")
	workers := fs.Int("workers", runtime.NumCPU(), "parallel workers")
	solver := fs.String("solver", "z3", "solver binary")
	paranoid := fs.Int("paranoid", 0, "cross-check every n-th solver-free decision with the solver")
	noReplay := fs.Bool("noreplay", false, "skip native replay (debugging only: violations are then reported unconfirmed and the run is inconclusive)")
	trace := fs.Bool("trace", false, "trace calls")
	verbose := fs.Bool("v", false, "print model and native output of confirmed violations")
	noEvidence := fs.Bool("noevidence", false, "do not write the evidence file (debugging)")
	fs.Parse(args)
	if t := os.Getenv("VERIF_TIER"); t != "" && *tier == "" {
		*tier = t
	}
	seed := int64(0)
	if s := os.Getenv("VERIF_SEED"); s != "" {
		seed, _ = strconv.ParseInt(s, 10, 64)
	}
	t0 := time.Now()
	hdir := filepath.Join(*verif, "harness", *prop)
	var spec Spec
	sb, err := os.ReadFile(filepath.Join(hdir, "spec.json"))
	if err != nil {
		fmt.Println("cannot read spec:", err)
		return 2
	}
	if err := json.Unmarshal(sb, &spec); err != nil {
		fmt.Println("bad spec:", err)
		return 2
	}
	var hs []*harnessFile
	for i, h := range spec.Harness {
		hp := h
		if !filepath.IsAbs(hp) {
			hp = filepath.Join(hdir, h)
		}
		hf, err := readHarness(*repo, hp, i)
		if err != nil {
			fmt.Println("harness:", err)
			return 2
		}
		hs = append(hs, hf)
	}
	p, err := loadProgram(*repo, hs)
	if err != nil {
		fmt.Println(err)
		return 2
	}
	loadS := time.Since(t0).Seconds()
	known := readKnown(filepath.Join(*verif, "known_findings.txt"), *prop)

	var allOverrides [][2]string
	for _, h := range hs {
		allOverrides = append(allOverrides, h.overrides...)
	}

	var results []*jobResult
	var problems []string
	jobOverrides := map[string][][2]string{}
	for _, js := range spec.Jobs {
		if *only != "" && js.Name != *only {
			continue
		}
		params, ok := js.Tiers[*tier]
		if !ok {
			continue
		}
		jobOv := append([][2]string(nil), allOverrides...)
		for _, o := range js.Overrides {
			kv := strings.SplitN(o, "=", 2)
			if len(kv) == 2 {
				jobOv = append(jobOv, [2]string{strings.TrimSpace(kv[0]), strings.TrimSpace(kv[1])})
			}
		}
		jobOverrides[js.Name] = jobOv
		runOv := append([][2]string(nil), jobOv...)
		for _, o := range js.Models {
			kv := strings.SplitN(o, "=", 2)
			if len(kv) == 2 {
				runOv = append(runOv, [2]string{strings.TrimSpace(kv[0]), strings.TrimSpace(kv[1])})
			}
		}
		jr := runJob(p, &js, params, *workers, *solver, *paranoid, runOv, *trace, *verbose)
		results = append(results, jr)
		fmt.Printf("[%s/%s] paths=%d outcomes{%s} queries=%d solver=%.1fs quick=%d wall=%.1fs reach{%s}\n", *prop, js.Name, jr.Paths, outcomeString(jr.Outcomes), jr.Queries, jr.SolverS, jr.QuickDec, jr.WallS, outcomeString(jr.Reach))
		problems = append(problems, jr.problems...)
	}
	if len(results) == 0 {
		fmt.Println("no job selected")
		return 2
	}

	// ---- native replay of violations (and validation samples)
	replayDir := filepath.Join(*verif, "replays", *prop)
	os.RemoveAll(replayDir)
	os.MkdirAll(replayDir, 0o755)
	var rp *replayer
	if !*noReplay {
		rp, err = newReplayer(p)
		if err != nil {
			fmt.Println(err)
			return 2
		}
		defer rp.Close()
	}
	type group struct {
		class, kind, msg string
		count            int
		vs               []*violation
	}
	groups := map[string]*group{}
	var gkeys []string
	confirmedNew := 0
	totalViol := 0
	validated := 0
	for _, jr := range results {
		var js *JobSpec
		for i := range spec.Jobs {
			if spec.Jobs[i].Name == jr.Name {
				js = &spec.Jobs[i]
			}
		}
		pk, _ := p.findEntry(js.Entry)
		rel := p.relOfPkg(pk)
		for i := range jr.Violations {
			v := &jr.Violations[i]
			key := v.Class + "|" + v.Kind + "|" + v.Msg
			g := groups[key]
			if g == nil {
				g = &group{class: v.Class, kind: v.Kind, msg: v.Msg}
				groups[key] = g
				gkeys = append(gkeys, key)
			}
			g.vs = append(g.vs, v)
		}
		for k, n := range jr.VioCounts {
			if g := groups[k]; g != nil {
				g.count += n
			}
			totalViol += n
		}
		if rp == nil {
			continue
		}
		// violations: replay up to 2 per group and job
		perGroup := map[string]int{}
		for i := range jr.Violations {
			v := &jr.Violations[i]
			key := v.Class + "|" + v.Kind + "|" + v.Msg
			if perGroup[key] >= 2 {
				v.Native = "not-run"
				continue
			}
			perGroup[key]++
			bin, err := rp.binForOpt(rel, jobOverrides[jr.Name], js.ReplayRace)
			if err != nil {
				fmt.Println(err)
				problems = append(problems, "native replay build failed")
				v.Native = "not-run"
				continue
			}
			file := filepath.Join(replayDir, fmt.Sprintf("%s_%s_%d.json", jr.Name, sanitize(v.Class+"_"+v.Kind), i))
			rc := &replayCase{Entry: js.Entry, Params: jr.Params, Model: v.Model, Expect: map[string]string{"class": v.Class, "kind": v.Kind, "msg": v.Msg}}
			reps := js.ReplayRepeat
			if reps < 1 {
				reps = 1
			}
			for k := 0; k < reps; k++ {
				res, err := rp.run(bin, rel, js.Setup, rc, file, 20*time.Second)
				if err != nil {
					fmt.Println(err)
					v.Native = "not-run"
					break
				}
				v.Replay = file
				v.NativeO = tail(res.Output, 3000)
				if confirms(v, res) {
					v.Native = "confirmed"
					break
				}
				v.Native = "not-reproduced"
			}
		}
		// validation of sampled ok paths: the native run must produce the same observations
		for i, vc := range jr.validation {
			bin, err := rp.binForOpt(rel, jobOverrides[jr.Name], js.ReplayRace)
			if err != nil {
				fmt.Println(err)
				problems = append(problems, "native replay build failed")
				break
			}
			file := filepath.Join(replayDir, fmt.Sprintf("%s_sample_%d.json", jr.Name, i))
			rc := &replayCase{Entry: js.Entry, Params: jr.Params, Model: vc.model, Expect: map[string]string{"kind": "ok"}}
			res, err := rp.run(bin, rel, js.Setup, rc, file, 20*time.Second)
			if err != nil {
				continue
			}
			got := observesOf(res.Output)
			// a native run may legitimately hit a LISTED known-finding class that the engine's schedule did not
			// (schedule-dependent defects); anything else must be absent
			newViol := false
			for _, ln := range strings.Split(res.Output, "\n") {
				ln = strings.TrimSpace(ln)
				if strings.HasPrefix(ln, "VERIF-VIOLATION ") || strings.HasPrefix(ln, "VERIF-ASSERT-FAILED ") {
					rest := ln[strings.Index(ln, " ")+1:]
					cls := rest
					if i := strings.Index(rest, "|"); i >= 0 {
						cls = rest[:i]
					}
					if _, isKnown := known[cls]; !isKnown || cls == "" {
						newViol = true
					}
				}
			}
			okRun := strings.Contains(res.Output, "VERIF-DONE") && !strings.Contains(res.Output, "VERIF-ASSUME-FAILED") && !newViol
			if okRun && strings.Join(got, "\n") == strings.Join(vc.observes, "\n") {
				jr.Validated++
				validated++
			} else {
				jr.ValidBad++
				problems = append(problems, fmt.Sprintf("job %s: sampled ok path does not behave the same natively (replay %s)", jr.Name, file))
				fmt.Printf("VALIDATION MISMATCH job=%s file=%s\n  engine observes: %q\n  native observes: %q\n  native tail: %s\n", jr.Name, file, vc.observes, got, tail(res.Output, 400))
			}
		}
	}

	// ---- verdict
	exit := 0
	sort.Strings(gkeys)
	knownSeen := map[string]int{}
	for _, k := range gkeys {
		g := groups[k]
		nConf, nNot, nRun := 0, 0, 0
		var firstReplay string
		for _, v := range g.vs {
			switch v.Native {
			case "confirmed":
				nConf++
				nRun++
				if firstReplay == "" {
					firstReplay = v.Replay
				}
			case "not-reproduced":
				nNot++
				nRun++
			}
		}
		_, isKnown := known[g.class]
		switch {
		case nConf > 0 && isKnown && g.class != "":
			knownSeen[g.class] += g.count
		case nConf > 0:
			confirmedNew++
			fmt.Printf("VIOLATION property=%s replay=%s\n", *prop, firstReplay)
			fmt.Printf("  class=%q kind=%s msg=%q paths=%d\n", g.class, g.kind, g.msg, g.count)
			if *verbose {
				for _, v := range g.vs {
					if v.Native == "confirmed" {
						fmt.Printf("  model=%v\n  native output: %s\n", v.Model, tail(v.NativeO, 1500))
						break
					}
				}
			}
			exit = 1
		case rp == nil:
			fmt.Printf("UNCONFIRMED (replay disabled) class=%q kind=%s msg=%q paths=%d model=%v\n", g.class, g.kind, g.msg, g.count, g.vs[0].Model)
			problems = append(problems, "violations not replayed")
		default:
			fmt.Printf("ENGINE-DISCREPANCY class=%q kind=%s msg=%q paths=%d: the model does not reproduce natively (replays run: %d)\n", g.class, g.kind, g.msg, g.count, nRun)
			for _, v := range g.vs {
				if v.Native == "not-reproduced" {
					fmt.Printf("  replay=%s\n  native tail: %s\n", v.Replay, tail(v.NativeO, 300))
					break
				}
			}
			problems = append(problems, "engine discrepancy: "+g.msg)
		}
	}
	var kc []string
	for c := range knownSeen {
		kc = append(kc, c)
	}
	sort.Strings(kc)
	for _, c := range kc {
		fmt.Printf("KNOWN-FINDING: property=%s %s %s (paths in class: %d)\n", *prop, c, known[c], knownSeen[c])
	}
	for _, pr := range problems {
		fmt.Println("INCONCLUSIVE:", pr)
	}
	if exit == 0 && len(problems) > 0 {
		exit = 2
	}

	// ---- evidence
	if !*noEvidence {
		writeEvidence(filepath.Join(*verif, "evidence", *prop+".json"), &spec, *tier, seed, results, knownSeen, confirmedNew, validated, loadS, time.Since(t0).Seconds(), rp, *solver, problems)
	}
	if exit == 0 {
		fmt.Printf("OK property=%s tier=%s wall=%.1fs\n", *prop, *tier, time.Since(t0).Seconds())
	}
	return exit
}

func sanitize(s string) string {
	var sb strings.Builder
	for _, c := range s {
		if c >= 'a' && c <= 'z' || c >= 'A' && c <= 'Z' || c >= '0' && c <= '9' || c == '-' || c == '_' {
			sb.WriteRune(c)
		}
	}
	return sb.String()
}

func initEngine(e *Engine, p *Program, hpkg *ssa.Package) (err error) {
	for _, pk := range p.prog.AllPackages() {
		if strings.HasPrefix(pk.Pkg.Path(), modulePrefix) || interpretPkgs[pk.Pkg.Path()] {
			for _, m := range pk.Members {
				if g, ok := m.(*ssa.Global); ok {
					v := new(value)
					*v = zero(g.Type().(*types.Pointer).Elem())
					e.globals[g] = v
				}
			}
		}
	}
	e.sol.Push()
	e.symCount = map[string]int{}
	e.dom = map[int32]*domain{}
	defer func() {
		if r := recover(); r != nil {
			err = fmt.Errorf("init failed: %v", describePanic(e, r))
		}
		e.sol.Pop()
	}()
	e.call(nil, hpkg.Func("init"), nil)
	return nil
}

func describePanic(e *Engine, r interface{}) string {
	switch r := r.(type) {
	case targetPanic:
		return "panic in interpreted code: " + e.show(r.v)
	case pathEnd:
		return r.kind + ": " + r.msg
	case solverErr:
		return r.msg
	}
	return fmt.Sprint(r)
}

func runJob(p *Program, js *JobSpec, params map[string]int64, workers int, solverBin string, paranoid int, overrides [][2]string, trace bool, verbose bool) *jobResult {
	t0 := time.Now()
	jr := &jobResult{Name: js.Name, Entry: js.Entry, Params: params, Bound: js.Bound, Outcomes: map[string]int{}, Reach: map[string]int{}, Unsupported: map[string]int{}, VioCounts: map[string]int{}, funcNames: map[string]int{}}
	hpkg, entry := p.findEntry(js.Entry)
	if entry == nil {
		jr.problems = append(jr.problems, "entry not found: "+js.Entry)
		return jr
	}
	var setup *ssa.Function
	if js.Setup != "" {
		_, setup = p.findEntry(js.Setup)
		if setup == nil {
			jr.problems = append(jr.problems, "setup not found: "+js.Setup)
			return jr
		}
	}
	sh := &Shared{prog: p.prog, params: params, job: js.Name, paranoid: paranoid, verbose: verbose, exploreSched: js.ExploreSched, permuteMaps: js.PermuteMaps, mapPermBudget: js.MapPermBudget, traceAccess: js.TraceAccess, schedBudget: js.SchedBudget, maxPaths: js.MaxPaths, overrides: map[string]extFn{}}
	sh.cond = sync.NewCond(&sh.mu)
	for _, o := range overrides {
		tgt, repl := p.byName[o[0]], p.byName[o[1]]
		if tgt == nil || repl == nil {
			jr.problems = append(jr.problems, fmt.Sprintf("override: unknown function in %s=%s", o[0], o[1]))
			return jr
		}
		r := repl
		sh.overrides[o[0]] = func(e *Engine, caller *frame, _ *ssa.Function, args []value) value {
			return e.callSSA(caller, r, args, nil)
		}
	}
	sh.work = [][]decision{nil}
	engines := make([]*Engine, workers)
	var wg sync.WaitGroup
	var mu sync.Mutex
	for w := 0; w < workers; w++ {
		wg.Add(1)
		go func(w int) {
			defer wg.Done()
			sol, err := NewSolver(solverBin)
			if err != nil {
				mu.Lock()
				jr.problems = append(jr.problems, "cannot start solver: "+err.Error())
				mu.Unlock()
				return
			}
			defer sol.Close()
			e := NewEngine(sh, sol)
			e.trace = trace && w == 0
			if js.MaxSteps > 0 {
				e.MaxSteps = js.MaxSteps
			}
			if js.MaxDepth > 0 {
				e.MaxDepth = js.MaxDepth
			}
			engines[w] = e
			defer func() {
				if r := recover(); r != nil {
					mu.Lock()
					if len(jr.problems) > 0 && strings.HasPrefix(jr.problems[len(jr.problems)-1], "engine failure") {
						// one stack trace is enough
					} else if se, ok := r.(solverErr); ok {
						jr.problems = append(jr.problems, "solver: "+se.msg)
					} else {
						buf := make([]byte, 1<<14)
						n := runtime.Stack(buf, false)
						jr.problems = append(jr.problems, fmt.Sprintf("engine failure: %v\n%s", r, buf[:n]))
					}
					mu.Unlock()
					// stop the other workers
					sh.mu.Lock()
					sh.stopped = true
					sh.cond.Broadcast()
					sh.mu.Unlock()
				}
			}()
			// package initialisers and the job's set-up run concretely, once: no exploration of orders there
			e.permOff, e.schedOff = true, true
			if err := initEngine(e, p, hpkg); err != nil {
				panic(err.Error())
			}
			if setup != nil {
				e.sol.Push()
				e.symCount = map[string]int{}
				e.dom = map[int32]*domain{}
				func() {
					defer func() {
						if r := recover(); r != nil {
							panic("setup failed: " + describePanic(e, r))
						}
					}()
					e.call(nil, setup, nil)
				}()
				e.sol.Pop()
			}
			e.validateEvery = js.Validate
			e.Run(entry)
		}(w)
	}
	wg.Wait()
	for _, e := range engines {
		if e == nil {
			continue
		}
		jr.Paths += e.Paths
		for k, v := range e.Outcomes {
			jr.Outcomes[k] += v
		}
		for k, v := range e.Reach {
			jr.Reach[k] += v
		}
		for k, v := range e.Unsupported {
			jr.Unsupported[k] += v
		}
		for k, v := range e.vioCount {
			jr.VioCounts[k] += v
		}
		for f, n := range e.FuncsSeen {
			jr.funcNames[f.String()] += n
		}
		jr.Queries += e.sol.Queries
		jr.SolverS += e.sol.Time.Seconds()
		jr.Decided += e.Decided
		jr.QuickDec += e.QuickDec
		jr.Asserts += e.Asserts + e.RaceQueries
		jr.Violations = append(jr.Violations, e.Violations...)
		if len(jr.Samples) < 4 {
			jr.Samples = append(jr.Samples, e.Samples...)
		}
		if len(jr.validation) < 3 {
			jr.validation = append(jr.validation, e.validation...)
		}
		if e.ParanoidBad > 0 {
			jr.problems = append(jr.problems, fmt.Sprintf("paranoid cross-check found %d wrong solver-free decisions", e.ParanoidBad))
		}
	}
	if len(jr.validation) > 3 {
		jr.validation = jr.validation[:3]
	}
	jr.Funcs = len(jr.funcNames)
	jr.WallS = time.Since(t0).Seconds()
	for _, bad := range []string{"unknown", "unsupported", "infeasible-at-end", "infeasible-at-report", "infeasible", "pathcap"} {
		if n := jr.Outcomes[bad]; n > 0 {
			jr.problems = append(jr.problems, fmt.Sprintf("job %s: %d paths ended %q", js.Name, n, bad))
		}
	}
	for k, n := range jr.Unsupported {
		fmt.Printf("  unsupported x%d: %s\n", n, k)
	}
	for _, tag := range js.RequireReach {
		if jr.Reach[tag] == 0 {
			jr.problems = append(jr.problems, fmt.Sprintf("job %s: required marker %q never reached (vacuity guard)", js.Name, tag))
		}
	}
	if jr.Paths == 0 {
		jr.problems = append(jr.problems, "job "+js.Name+": no path explored")
	}
	return jr
}

func writeEvidence(path string, spec *Spec, tier string, seed int64, results []*jobResult, knownSeen map[string]int, newViol, validated int, loadS, wall float64, rp *replayer, solver string, problems []string) {
	states, trans, queries := 0, 0, 0
	solverS := 0.0
	var samples []interface{}
	funcs := map[string]int{}
	var bounds []string
	for _, jr := range results {
		states += jr.Paths
		trans += jr.Decided + jr.QuickDec + jr.Asserts
		queries += jr.Queries
		solverS += jr.SolverS
		for i, s := range jr.Samples {
			if i < 2 {
				samples = append(samples, map[string]interface{}{"job": jr.Name, "path_model": s})
			}
		}
		for i := range jr.Violations {
			if i < 2 {
				v := jr.Violations[i]
				samples = append(samples, map[string]interface{}{"job": jr.Name, "violating_model": v.Model, "class": v.Class, "msg": v.Msg, "native": v.Native})
			}
		}
		for f, n := range jr.funcNames {
			funcs[f] += n
		}
		bounds = append(bounds, fmt.Sprintf("%s: %s %v", jr.Name, jr.Bound, jr.Params))
	}
	if len(samples) == 0 {
		samples = append(samples, map[string]interface{}{"note": "no symbolic inputs on explored paths"})
	}
	var fnames []string
	for f := range funcs {
		fnames = append(fnames, f)
	}
	sort.Strings(fnames)
	level := spec.Level
	if level == "" {
		level = "model_checking"
	}
	if trans == 0 {
		trans = 1
	}
	replayRuns, replayBuild := 0, 0.0
	if rp != nil {
		replayRuns, replayBuild = rp.Runs, rp.BuildS
	}
	cov := map[string]interface{}{
		"states":                        states,
		"transitions":                   trans,
		"traces_validated_against_impl": replayRuns,
		"samples":                       samples,
		"explanation":                   spec.Explanation,
		"jobs":                          results,
		"bounds":                        bounds,
		"functions_encoded":             fnames,
		"functions_encoded_count":       len(fnames),
		"solver":                        solver,
		"solver_queries":                queries,
		"solver_time_s":                 solverS,
		"load_and_ssa_build_s":          loadS,
		"native_replay_build_s":         replayBuild,
		"ok_paths_validated_natively":   validated,
		"known_findings_seen":           knownSeen,
		"inconclusive_reasons":          problems,
		"exhaustive":                    false,
		"states_meaning":                "completed symbolic paths (each an equivalence class of inputs whose feasibility the solver confirmed)",
		"transitions_meaning":           "branch/concretisation decisions and assertion verdicts",
	}
	ev := map[string]interface{}{
		"property_id": spec.Property,
		"tier":        tier,
		"seed":        seed,
		"level":       level,
		"coverage":    cov,
		"assumptions": spec.Assumptions,
		"wall_s":      wall,
		"violations":  newViol,
	}
	b, _ := json.MarshalIndent(ev, "", " ")
	os.MkdirAll(filepath.Dir(path), 0o755)
	if err := os.WriteFile(path, b, 0o644); err != nil {
		fmt.Println("cannot write evidence:", err)
	}
}

// cmdSSA prints the SSA of one function (debugging aid): gosx ssa -verif DIR -prop P -func NAME
func cmdSSA(args []string) int {
	fs := flag.NewFlagSet("ssa", flag.ExitOnError)
	repo := fs.String("repo", "/repo/luahelper-lsp", "module directory")
	verif := fs.String("verif", "/verif", "verification root")
	prop := fs.String("prop", "", "property id")
	fn := fs.String("func", "", "function name (as printed by ssa, or a suffix)")
	fs.Parse(args)
	hdir := filepath.Join(*verif, "harness", *prop)
	var spec Spec
	sb, err := os.ReadFile(filepath.Join(hdir, "spec.json"))
	if err != nil {
		fmt.Println(err)
		return 2
	}
	json.Unmarshal(sb, &spec)
	var hs []*harnessFile
	for i, h := range spec.Harness {
		hp := h
		if !filepath.IsAbs(hp) {
			hp = filepath.Join(hdir, h)
		}
		hf, err := readHarness(*repo, hp, i)
		if err != nil {
			fmt.Println(err)
			return 2
		}
		hs = append(hs, hf)
	}
	p, err := loadProgram(*repo, hs)
	if err != nil {
		fmt.Println(err)
		return 2
	}
	for name, f := range p.byName {
		if name == *fn || strings.HasSuffix(name, *fn) {
			f.WriteTo(os.Stdout)
		}
	}
	return 0
}
