package main

import (
	"fmt"
	"strings"
)

// Term is a structured SMT-LIB term over Bool (bits==0) and fixed-width bit-vectors.
// Terms are immutable; the SMT text is produced lazily and cached.
type Term struct {
	op   string // "var", "const", or an SMT operator; "extract", "zext", "sext" use val
	bits int    // 0 = Bool
	args []*Term
	val  uint64 // const value (bool: 0/1); extract: result width; zext/sext: added bits
	name string // var: SMT name (already |quoted|)
	id   int32  // var: index in the engine's variable table
	s    string // cached text
	vars []int32
	vset bool
}

func (t *Term) isConst() bool { return t.op == "const" }
func (t *Term) isTrue() bool  { return t.op == "const" && t.bits == 0 && t.val == 1 }
func (t *Term) isFalse() bool { return t.op == "const" && t.bits == 0 && t.val == 0 }

var (
	termTrue  = &Term{op: "const", bits: 0, val: 1}
	termFalse = &Term{op: "const", bits: 0, val: 0}
)

func bvLit(v uint64, bits int) *Term {
	return &Term{op: "const", bits: bits, val: mask(v, bits)}
}

func boolLit(b bool) *Term {
	if b {
		return termTrue
	}
	return termFalse
}

func (t *Term) String() string {
	if t.s != "" {
		return t.s
	}
	switch t.op {
	case "var":
		t.s = t.name
	case "const":
		if t.bits == 0 {
			if t.val == 1 {
				t.s = "true"
			} else {
				t.s = "false"
			}
		} else {
			t.s = fmt.Sprintf("(_ bv%d %d)", t.val, t.bits)
		}
	default:
		var sb strings.Builder
		sb.WriteByte('(')
		switch t.op {
		case "extract":
			fmt.Fprintf(&sb, "(_ extract %d 0)", t.val-1)
		case "zext":
			fmt.Fprintf(&sb, "(_ zero_extend %d)", t.val)
		case "sext":
			fmt.Fprintf(&sb, "(_ sign_extend %d)", t.val)
		default:
			sb.WriteString(t.op)
		}
		for _, a := range t.args {
			sb.WriteByte(' ')
			sb.WriteString(a.String())
		}
		sb.WriteByte(')')
		t.s = sb.String()
	}
	return t.s
}

// freeVars returns the sorted ids of the variables occurring in t.
func (t *Term) freeVars() []int32 {
	if t.vset {
		return t.vars
	}
	switch t.op {
	case "var":
		t.vars = []int32{t.id}
	case "const":
	default:
		var acc []int32
		for _, a := range t.args {
			acc = mergeVars(acc, a.freeVars())
		}
		t.vars = acc
	}
	t.vset = true
	return t.vars
}

func mergeVars(a, b []int32) []int32 {
	if len(a) == 0 {
		return b
	}
	if len(b) == 0 {
		return a
	}
	out := make([]int32, 0, len(a)+len(b))
	i, j := 0, 0
	for i < len(a) && j < len(b) {
		switch {
		case a[i] < b[j]:
			out = append(out, a[i])
			i++
		case a[i] > b[j]:
			out = append(out, b[j])
			j++
		default:
			out = append(out, a[i])
			i++
			j++
		}
	}
	out = append(out, a[i:]...)
	out = append(out, b[j:]...)
	return out
}

// evalOp computes op over concrete argument values (SMT-LIB semantics).
func evalOp(t *Term, a []uint64) uint64 {
	bits := t.bits
	ab := 0
	if len(t.args) > 0 {
		ab = t.args[0].bits
	}
	b2u := func(b bool) uint64 {
		if b {
			return 1
		}
		return 0
	}
	switch t.op {
	case "not":
		return a[0] ^ 1
	case "and":
		for _, x := range a {
			if x == 0 {
				return 0
			}
		}
		return 1
	case "or":
		for _, x := range a {
			if x != 0 {
				return 1
			}
		}
		return 0
	case "=":
		return b2u(a[0] == a[1])
	case "ite":
		if a[0] != 0 {
			return a[1]
		}
		return a[2]
	case "bvadd":
		return mask(a[0]+a[1], bits)
	case "bvsub":
		return mask(a[0]-a[1], bits)
	case "bvmul":
		return mask(a[0]*a[1], bits)
	case "bvand":
		return a[0] & a[1]
	case "bvor":
		return a[0] | a[1]
	case "bvxor":
		return a[0] ^ a[1]
	case "bvnot":
		return mask(^a[0], bits)
	case "bvneg":
		return mask(-a[0], bits)
	case "bvshl":
		if a[1] >= uint64(bits) {
			return 0
		}
		return mask(a[0]<<a[1], bits)
	case "bvlshr":
		if a[1] >= uint64(bits) {
			return 0
		}
		return a[0] >> a[1]
	case "bvashr":
		sh := a[1]
		if sh >= uint64(bits) {
			sh = uint64(bits - 1)
		}
		return mask(uint64(sext(a[0], bits)>>sh), bits)
	case "bvudiv":
		if a[1] == 0 {
			return mask(^uint64(0), bits)
		}
		return a[0] / a[1]
	case "bvurem":
		if a[1] == 0 {
			return a[0]
		}
		return a[0] % a[1]
	case "bvsdiv":
		x, y := sext(a[0], bits), sext(a[1], bits)
		if y == 0 {
			if x >= 0 {
				return mask(^uint64(0), bits)
			}
			return 1
		}
		if y == -1 {
			return mask(uint64(-x), bits)
		}
		return mask(uint64(x/y), bits)
	case "bvsrem":
		x, y := sext(a[0], bits), sext(a[1], bits)
		if y == 0 {
			return a[0]
		}
		if y == -1 {
			return 0
		}
		return mask(uint64(x%y), bits)
	case "bvult":
		return b2u(a[0] < a[1])
	case "bvule":
		return b2u(a[0] <= a[1])
	case "bvugt":
		return b2u(a[0] > a[1])
	case "bvuge":
		return b2u(a[0] >= a[1])
	case "bvslt":
		return b2u(sext(a[0], ab) < sext(a[1], ab))
	case "bvsle":
		return b2u(sext(a[0], ab) <= sext(a[1], ab))
	case "bvsgt":
		return b2u(sext(a[0], ab) > sext(a[1], ab))
	case "bvsge":
		return b2u(sext(a[0], ab) >= sext(a[1], ab))
	case "extract":
		return mask(a[0], int(t.val))
	case "zext":
		return a[0]
	case "sext":
		return mask(uint64(sext(a[0], ab)), bits)
	}
	panic("evalOp: unknown operator " + t.op)
}

// eval evaluates t under a full assignment (indexed by variable id; missing ids read 0).
func (t *Term) eval(env []uint64) uint64 {
	switch t.op {
	case "const":
		return t.val
	case "var":
		if int(t.id) < len(env) {
			if t.bits == 0 {
				return env[t.id] & 1
			}
			return mask(env[t.id], t.bits)
		}
		return 0
	case "ite":
		if t.args[0].eval(env) != 0 {
			return t.args[1].eval(env)
		}
		return t.args[2].eval(env)
	case "and":
		for _, a := range t.args {
			if a.eval(env) == 0 {
				return 0
			}
		}
		return 1
	case "or":
		for _, a := range t.args {
			if a.eval(env) != 0 {
				return 1
			}
		}
		return 0
	}
	var buf [3]uint64
	a := buf[:len(t.args)]
	for i, x := range t.args {
		a[i] = x.eval(env)
	}
	return evalOp(t, a)
}

// eval1 evaluates t with the single variable id bound to v (all others 0).
func (t *Term) eval1(id int32, v uint64) uint64 {
	switch t.op {
	case "const":
		return t.val
	case "var":
		if t.id == id {
			if t.bits == 0 {
				return v & 1
			}
			return mask(v, t.bits)
		}
		return 0
	case "ite":
		if t.args[0].eval1(id, v) != 0 {
			return t.args[1].eval1(id, v)
		}
		return t.args[2].eval1(id, v)
	case "and":
		for _, a := range t.args {
			if a.eval1(id, v) == 0 {
				return 0
			}
		}
		return 1
	case "or":
		for _, a := range t.args {
			if a.eval1(id, v) != 0 {
				return 1
			}
		}
		return 0
	}
	var buf [3]uint64
	a := buf[:len(t.args)]
	for i, x := range t.args {
		a[i] = x.eval1(id, v)
	}
	return evalOp(t, a)
}

// app builds an application, folding constants.
func app(bits int, op string, args ...*Term) *Term {
	t := &Term{op: op, bits: bits, args: args}
	allc := true
	for _, a := range args {
		if a.op != "const" {
			allc = false
			break
		}
	}
	if allc {
		var buf [3]uint64
		a := buf[:0]
		for _, x := range args {
			a = append(a, x.val)
		}
		v := evalOp(t, a)
		if bits == 0 {
			return boolLit(v != 0)
		}
		return bvLit(v, bits)
	}
	return t
}

func tNot(a *Term) *Term {
	if a.op == "const" {
		return boolLit(a.val == 0)
	}
	if a.op == "not" {
		return a.args[0]
	}
	return &Term{op: "not", args: []*Term{a}}
}

func tAnd(a, b *Term) *Term {
	if a.isTrue() {
		return b
	}
	if b.isTrue() {
		return a
	}
	if a.isFalse() || b.isFalse() {
		return termFalse
	}
	return &Term{op: "and", args: []*Term{a, b}}
}

func tOr(a, b *Term) *Term {
	if a.isFalse() {
		return b
	}
	if b.isFalse() {
		return a
	}
	if a.isTrue() || b.isTrue() {
		return termTrue
	}
	return &Term{op: "or", args: []*Term{a, b}}
}

func tEq(a, b *Term) *Term {
	if a == b {
		return termTrue
	}
	if a.bits != b.bits {
		panic(fmt.Sprintf("tEq: width mismatch %d vs %d: %s / %s", a.bits, b.bits, a, b))
	}
	return app(0, "=", a, b)
}

func tExtend(a *Term, to int, signed bool) *Term {
	if to == a.bits {
		return a
	}
	if a.op == "const" {
		if to < a.bits {
			return bvLit(a.val, to)
		}
		if signed {
			return bvLit(uint64(sext(a.val, a.bits)), to)
		}
		return bvLit(a.val, to)
	}
	if to < a.bits {
		return &Term{op: "extract", bits: to, args: []*Term{a}, val: uint64(to)}
	}
	if signed {
		return &Term{op: "sext", bits: to, args: []*Term{a}, val: uint64(to - a.bits)}
	}
	return &Term{op: "zext", bits: to, args: []*Term{a}, val: uint64(to - a.bits)}
}

func tIte(c, a, b *Term) *Term {
	if c.isTrue() {
		return a
	}
	if c.isFalse() {
		return b
	}
	if a == b {
		return a
	}
	return &Term{op: "ite", bits: a.bits, args: []*Term{c, a, b}}
}
