package main

import (
	"fmt"
	"go/token"
	"go/types"
	"math"
	"net/url"
	gopath "path"
	"regexp"
	"regexp/syntax"
	"sort"
	"strconv"
	"strings"
	"sync"
	"unicode/utf8"

	"golang.org/x/text/encoding/simplifiedchinese"
	"golang.org/x/tools/go/ssa"
)

const modulePrefix = "luahelper-lsp"

type extFn func(e *Engine, caller *frame, fn *ssa.Function, args []value) value

func inModule(fn *ssa.Function) bool {
	p := fn.Pkg
	if p == nil && fn.Parent() != nil {
		return inModule(fn.Parent())
	}
	if p == nil {
		// synthetic wrappers/bound methods: look at the receiver/object package
		if fn.Object() != nil && fn.Object().Pkg() != nil {
			return strings.HasPrefix(fn.Object().Pkg().Path(), modulePrefix)
		}
		if fn.Synthetic != "" && len(fn.Blocks) > 0 {
			return true
		}
		return false
	}
	return strings.HasPrefix(p.Pkg.Path(), modulePrefix) || interpretPkgs[p.Pkg.Path()]
}

var interpretPkgs = map[string]bool{"container/list": true, "bytes": true}

type extEntry struct{ f extFn }

// external resolves how a call to fn is executed: nil = interpret its SSA.
func (e *Engine) external(fn *ssa.Function) extFn {
	if v, ok := e.sh.extCache.Load(fn); ok {
		return v.(extEntry).f
	}
	f := e.external1(fn)
	e.sh.extCache.Store(fn, extEntry{f})
	return f
}

func (e *Engine) external1(fn *ssa.Function) extFn {
	name := fn.Name()
	if strings.HasPrefix(name, "verif") && fn.Blocks == nil {
		if f, ok := intrinsics[name]; ok {
			return f
		}
		panic("unknown intrinsic " + name)
	}
	full := fn.String()
	if f, ok := e.sh.overrides[full]; ok {
		return f
	}
	if f, ok := overrides[full]; ok {
		return f
	}
	if f, ok := natives[full]; ok {
		return f
	}
	if inModule(fn) {
		return nil
	}
	if name == "init" {
		return func(*Engine, *frame, *ssa.Function, []value) value { return nil }
	}
	return func(e *Engine, _ *frame, fn *ssa.Function, _ []value) value {
		e.unsupported("external " + fn.String())
		return nil
	}
}

// concU returns a concrete integer, concretising (forking) a symbolic one.
func (e *Engine) concU(v value) uint64 {
	switch x := v.(type) {
	case uint64:
		return x
	case *symv:
		return e.concretize(x.t)
	}
	panic(fmt.Sprintf("concU: %T", v))
}

func concStr(v value) (string, bool) {
	s, ok := v.(string)
	return s, ok
}

func (e *Engine) needStr(v value, what string) string {
	s, ok := v.(string)
	if !ok {
		e.unsupported(what + " with symbolic string")
	}
	return s
}

func strSliceVal(ss []string) value {
	r := make([]value, len(ss))
	for i, s := range ss {
		r[i] = s
	}
	return r
}

var gbkT types.Type = types.NewNamed(types.NewTypeName(0, nil, "gbkEncoding", nil), types.NewStruct(nil, nil), nil)

var errorT types.Type = types.NewNamed(types.NewTypeName(0, nil, "errorString", nil), types.NewStruct(nil, nil), nil)

func mkError(msg string) value {
	return iface{t: errorT, v: msg}
}

// symbolic-aware helpers used by models: comparisons fork through e.truth
func (e *Engine) byteEq(a, b value) bool {
	return e.truth(e.equals(types.Typ[types.Uint8], a, b))
}

func (e *Engine) bytesEqAt(s []value, i int, sub []value) bool {
	if i+len(sub) > len(s) {
		return false
	}
	for j := range sub {
		if !e.byteEq(s[i+j], sub[j]) {
			return false
		}
	}
	return true
}

func (e *Engine) mIndex(s, sub []value) int {
	for i := 0; i+len(sub) <= len(s); i++ {
		if e.bytesEqAt(s, i, sub) {
			return i
		}
	}
	return -1
}

func (e *Engine) mReplaceAll(s []value, pairs [][2][]value) []value {
	// generic replacer: at each position try the pairs in order (strings.Replacer semantics for the
	// byte/generic replacers used here: first matching old string in argument order wins)
	var out []value
	for i := 0; i < len(s); {
		matched := false
		for _, p := range pairs {
			if len(p[0]) > 0 && e.bytesEqAt(s, i, p[0]) {
				out = append(out, p[1]...)
				i += len(p[0])
				matched = true
				break
			}
		}
		if !matched {
			out = append(out, s[i])
			i++
		}
	}
	return out
}

func allConc(args []value) bool {
	for _, a := range args {
		if isSymbolic(a) {
			return false
		}
		if s, ok := a.([]value); ok {
			for _, x := range s {
				if isSymbolic(x) {
					return false
				}
			}
		}
	}
	return true
}

// sprintfModel: string arguments may have symbolic bytes (spliced as they are for %s and %v; %q adds
// plain quotes without escaping — an approximation that only matters for message texts, which no check
// inspects). A format string with symbolic bytes is handled byte-wise: for every symbolic byte the path
// forks on whether it is '%' (afterwards every '%' of the format is concrete and the remaining symbolic
// bytes are known to be literal text); the flag / verb bytes that follow a '%' are concretised.
// Symbolic integers render as "?".
func sprintfModel(e *Engine, args []value) value {
	var fb []value
	switch f := args[0].(type) {
	case string:
		fb = strBytes(f)
	case *symstr:
		fb = append([]value{}, f.b...)
		for i, b := range fb {
			if sv, isSym := b.(*symv); isSym {
				if e.truth(&symv{tEq(sv.t, bvLit('%', 8))}) {
					fb[i] = uint64('%')
				}
			}
		}
	default:
		return args[0]
	}
	concAt := func(i int) byte {
		switch b := fb[i].(type) {
		case uint64:
			return byte(b)
		case *symv:
			c := e.concretize(b.t)
			fb[i] = c
			return byte(c)
		}
		return '?'
	}
	var va []value
	if len(args) > 1 && args[1] != nil {
		va = args[1].([]value)
	}
	allConc := true
	for _, a := range va {
		if isSymbolic(a) {
			allConc = false
		}
	}
	for _, b := range fb {
		if _, isSym := b.(*symv); isSym {
			allConc = false
		}
	}
	toGo := func(a value) interface{} {
		itf := a.(iface)
		switch v := itf.v.(type) {
		case string:
			return v
		case uint64:
			bits, signed, ok := intInfo(itf.t)
			if ok && signed {
				return sext(v, bits)
			}
			return v
		case bool, float64:
			return v
		case *symv, *symstr, symfloat:
			return "?"
		case iface:
			if v.t == errorT || v.t == runtimeErrT {
				if s, ok := v.v.(string); ok {
					return s
				}
			}
			return "<iface>"
		default:
			if itf.t == errorT || itf.t == runtimeErrT {
				return v
			}
			return fmt.Sprintf("<%T>", v)
		}
	}
	if allConc {
		bs := make([]byte, len(fb))
		for i := range fb {
			bs[i] = byte(fb[i].(uint64))
		}
		goArgs := make([]interface{}, len(va))
		for i, a := range va {
			goArgs[i] = toGo(a)
		}
		return fmt.Sprintf(string(bs), goArgs...)
	}
	isPct := func(i int) bool { c, ok := fb[i].(uint64); return ok && c == '%' }
	var out []value
	ai := 0
	for i := 0; i < len(fb); i++ {
		if !isPct(i) {
			out = append(out, fb[i])
			continue
		}
		if i+1 >= len(fb) {
			out = append(out, strBytes("%!(NOVERB)")...)
			continue
		}
		// collect the verb (flags/width are passed through to fmt for concrete arguments)
		j := i + 1
		for j < len(fb) {
			c := concAt(j)
			if c == '+' || c == '-' || c == '#' || c == ' ' || c == '0' || c == '.' || (c >= '1' && c <= '9') {
				j++
				continue
			}
			break
		}
		if j >= len(fb) {
			out = append(out, strBytes("%!(NOVERB)")...)
			break
		}
		verb := concAt(j)
		specB := make([]byte, 0, j+1-i)
		for k := i; k <= j; k++ {
			specB = append(specB, concAt(k))
		}
		spec := string(specB)
		i = j
		if verb == '%' {
			out = append(out, uint64('%'))
			continue
		}
		if ai >= len(va) {
			out = append(out, strBytes(fmt.Sprintf(spec))...) // the library's own %!verb(MISSING) text
			continue
		}
		a := va[ai]
		ai++
		if ss, isSym := a.(iface).v.(*symstr); isSym && (verb == 's' || verb == 'v' || verb == 'q') {
			if verb == 'q' {
				out = append(out, uint64('"'))
			}
			out = append(out, ss.b...)
			if verb == 'q' {
				out = append(out, uint64('"'))
			}
			continue
		}
		out = append(out, strBytes(fmt.Sprintf(spec, toGo(a)))...)
	}
	if ai < len(va) {
		// surplus arguments: %!(EXTRA type=value, ...) as the library prints it for concrete values
		extra := "%!(EXTRA "
		for k := ai; k < len(va); k++ {
			if k > ai {
				extra += ", "
			}
			extra += fmt.Sprintf("%T=%v", toGo(va[k]), toGo(va[k]))
		}
		out = append(out, strBytes(extra+")")...)
	}
	return mkStr(out)
}

var overrides = map[string]extFn{
	"luahelper-lsp/langserver/strbytesconv.BytesToString": func(e *Engine, _ *frame, _ *ssa.Function, a []value) value {
		return mkStr(a[0].([]value))
	},
	"luahelper-lsp/langserver/strbytesconv.StringToBytes": func(e *Engine, _ *frame, _ *ssa.Function, a []value) value {
		b := strBytes(a[0])
		return append([]value{}, b...)
	},
	"luahelper-lsp/langserver/filefolder.IsFileExist": func(e *Engine, _ *frame, _ *ssa.Function, a []value) value {
		if p, isC := a[0].(string); isC {
			_, ok := e.vfs[p]
			return ok
		}
		// symbolic path: compare with every virtual file (forks on symbolic equality)
		names := make([]string, 0, len(e.vfs))
		for n := range e.vfs {
			names = append(names, n)
		}
		sort.Strings(names)
		for _, n := range names {
			if e.truth(e.strBinop(token.EQL, a[0], n)) {
				return true
			}
		}
		return false
	},
	"luahelper-lsp/langserver/filefolder.IsDirExist": func(e *Engine, _ *frame, _ *ssa.Function, a []value) value {
		if _, isC := a[0].(string); !isC && len(e.vfs) == 0 {
			return false
		}
		return e.vfsIsDir(e.needStr(a[0], "IsDirExist"))
	},
	"luahelper-lsp/langserver/log.Debug": func(*Engine, *frame, *ssa.Function, []value) value { return nil },
	"luahelper-lsp/langserver/log.Error": func(*Engine, *frame, *ssa.Function, []value) value { return nil },
}

func bufField(a []value) *value {
	p := a[0].(*value)
	st := (*p).(structure)
	return &st[0]
}

func nop(*Engine, *frame, *ssa.Function, []value) value { return nil }

func (e *Engine) invoke(caller *frame, recv iface, name string, args ...value) value {
	m := e.prog.LookupMethod(recv.t, nil, name)
	if m == nil {
		panic("invoke: no method " + name + " on " + recv.t.String())
	}
	return e.call(caller, m, append([]value{recv.v}, args...))
}

func sortModel(e *Engine, caller *frame, _ *ssa.Function, a []value) value {
	data := a[0].(iface)
	n := int(e.invoke(caller, data, "Len").(uint64))
	for i := 1; i < n; i++ {
		for j := i; j > 0 && e.truth(e.invoke(caller, data, "Less", uint64(j), uint64(j-1))); j-- {
			e.invoke(caller, data, "Swap", uint64(j), uint64(j-1))
		}
	}
	return nil
}

func vfsRead(e *Engine, _ *frame, _ *ssa.Function, a []value) value {
	name := e.needStr(a[0], "ReadFile")
	if c, ok := e.vfs[name]; ok {
		return tuple{append([]value(nil), c...), iface{}}
	}
	return tuple{[]value(nil), mkError("open " + name + ": no such file or directory")}
}

func (e *Engine) vfsIsDir(path string) bool {
	p := strings.TrimSuffix(path, "/") + "/"
	for name := range e.vfs {
		if strings.HasPrefix(name, p) {
			return true
		}
	}
	return false
}

var natives = map[string]extFn{
	"github.com/yinfei8/jrpc2.NewServer": func(e *Engine, _ *frame, _ *ssa.Function, a []value) value {
		p := new(value)
		*p = &native{desc: "jrpc2-server"}
		return p
	},
	"(*github.com/yinfei8/jrpc2.Server).Notify": func(e *Engine, _ *frame, _ *ssa.Function, a []value) value {
		e.Notifies++
		return iface{} // the diagnostic is handed to the transport; no error
	},
	"io/ioutil.ReadFile": vfsRead,
	"os.ReadFile":        vfsRead,
	"context.Background": func(e *Engine, _ *frame, fn *ssa.Function, a []value) value { return iface{t: errorT, v: "ctx"} },
	"net/url.QueryUnescape": func(e *Engine, _ *frame, fn *ssa.Function, a []value) value {
		if s, ok := a[0].(string); ok {
			r, err := url.QueryUnescape(s)
			if err != nil {
				return tuple{"", iface{t: errorT, v: err.Error()}}
			}
			return tuple{r, iface{}}
		}
		return tuple{a[0], iface{}} // (text with symbolic bytes: taken as free of escapes)
	},
	"net/url.PathUnescape": func(e *Engine, _ *frame, fn *ssa.Function, a []value) value {
		if s, ok := a[0].(string); ok {
			r, err := url.PathUnescape(s)
			if err != nil {
				return tuple{"", iface{t: errorT, v: err.Error()}}
			}
			return tuple{r, iface{}}
		}
		return tuple{a[0], iface{}}
	},
	"sort.Strings": func(e *Engine, _ *frame, _ *ssa.Function, a []value) value {
		s := a[0].([]value)
		less := func(x, y value) bool {
			xs, xc := x.(string)
			ys, yc := y.(string)
			if xc && yc {
				return xs < ys
			}
			return e.truth(e.strBinop(token.LSS, x, y)) // symbolic bytes: the comparison forks
		}
		for i := 1; i < len(s); i++ {
			for j := i; j > 0 && less(s[j], s[j-1]); j-- {
				e.logStore(&s[j])
				e.logStore(&s[j-1])
				s[j], s[j-1] = s[j-1], s[j]
			}
		}
		return nil
	},
	"time.Now": func(e *Engine, _ *frame, fn *ssa.Function, a []value) value {
		return zero(fn.Signature.Results().At(0).Type())
	},
	"time.Since":                   func(e *Engine, _ *frame, fn *ssa.Function, a []value) value { return uint64(0) },
	"(time.Duration).Milliseconds": func(e *Engine, _ *frame, fn *ssa.Function, a []value) value { return uint64(0) },
	// sync.Map: the entries live in a map value stored in the struct's own `dirty` field, so that assigning a
	// fresh sync.Map{} to the variable empties it as it does natively
	"(*sync.Map).Load": func(e *Engine, _ *frame, fn *ssa.Function, a []value) value {
		m := e.syncMapOf(fn, a[0].(*value), false)
		if m != nil {
			if i := e.mapFind(m, a[1]); i >= 0 {
				return tuple{m.vals[i], true}
			}
		}
		return tuple{iface{}, false}
	},
	"(*sync.Map).Store": func(e *Engine, _ *frame, fn *ssa.Function, a []value) value {
		e.mapSet(e.syncMapOf(fn, a[0].(*value), true), a[1], a[2])
		return nil
	},
	"(*sync.Map).Delete": func(e *Engine, _ *frame, fn *ssa.Function, a []value) value {
		if m := e.syncMapOf(fn, a[0].(*value), false); m != nil {
			e.mapDelete(m, a[1])
		}
		return nil
	},
	"(*sync.Map).LoadOrStore": func(e *Engine, _ *frame, fn *ssa.Function, a []value) value {
		m := e.syncMapOf(fn, a[0].(*value), true)
		if i := e.mapFind(m, a[1]); i >= 0 {
			return tuple{m.vals[i], true}
		}
		e.mapSet(m, a[1], a[2])
		return tuple{a[2], false}
	},
	"(*sync.WaitGroup).Add": func(e *Engine, _ *frame, _ *ssa.Function, a []value) value {
		e.wgAdd(a[0].(*value), int(sext(a[1].(uint64), 64)))
		return nil
	},
	"(*sync.WaitGroup).Done": func(e *Engine, _ *frame, _ *ssa.Function, a []value) value { e.wgAdd(a[0].(*value), -1); return nil },
	"(*sync.WaitGroup).Wait": func(e *Engine, _ *frame, _ *ssa.Function, a []value) value { e.wgWait(a[0].(*value)); return nil },
	"(*sync.Mutex).Lock":     func(e *Engine, _ *frame, _ *ssa.Function, a []value) value { e.raceLock(a[0].(*value)); return nil },
	"(*sync.Mutex).Unlock":   func(e *Engine, _ *frame, _ *ssa.Function, a []value) value { e.raceUnlock(a[0].(*value)); return nil },
	"(*sync.Mutex).TryLock": func(e *Engine, _ *frame, _ *ssa.Function, a []value) value {
		if e.lockBusy {
			return false
		}
		e.raceLock(a[0].(*value))
		return true
	},
	"(*sync.RWMutex).TryLock": func(e *Engine, _ *frame, _ *ssa.Function, a []value) value {
		if e.lockBusy {
			return false
		}
		e.raceLock(a[0].(*value))
		return true
	},
	"(*sync.RWMutex).TryRLock": func(e *Engine, _ *frame, _ *ssa.Function, a []value) value {
		if e.lockBusy {
			return false
		}
		e.raceLockMode(a[0].(*value), true)
		return true
	},
	"(*sync.RWMutex).Lock":   func(e *Engine, _ *frame, _ *ssa.Function, a []value) value { e.raceLock(a[0].(*value)); return nil },
	"(*sync.RWMutex).Unlock": func(e *Engine, _ *frame, _ *ssa.Function, a []value) value { e.raceUnlock(a[0].(*value)); return nil },
	"(*sync.RWMutex).RLock": func(e *Engine, _ *frame, _ *ssa.Function, a []value) value {
		e.raceLockMode(a[0].(*value), true)
		return nil
	},
	"(*sync.RWMutex).RUnlock": func(e *Engine, _ *frame, _ *ssa.Function, a []value) value { e.raceUnlock(a[0].(*value)); return nil },
	"errors.New":              func(e *Engine, _ *frame, fn *ssa.Function, a []value) value { return mkError(a[0].(string)) },
	"strings.Join": func(e *Engine, _ *frame, fn *ssa.Function, a []value) value {
		var out []value
		sep := strBytes(a[1])
		for i, s := range a[0].([]value) {
			if i > 0 {
				out = append(out, sep...)
			}
			out = append(out, strBytes(s)...)
		}
		return mkStr(out)
	},
	"strings.LastIndex": func(e *Engine, _ *frame, fn *ssa.Function, a []value) value {
		s, sub := strBytes(a[0]), strBytes(a[1])
		for i := len(s) - len(sub); i >= 0; i-- {
			if e.bytesEqAt(s, i, sub) {
				return uint64(int64(i))
			}
		}
		return mask(uint64(0xFFFFFFFFFFFFFFFF), 64)
	},
	"strings.ReplaceAll": func(e *Engine, _ *frame, _ *ssa.Function, a []value) value {
		return mkStr(e.mReplaceAll(strBytes(a[0]), [][2][]value{{strBytes(a[1]), strBytes(a[2])}}))
	},
	"strings.TrimLeft": func(e *Engine, _ *frame, _ *ssa.Function, a []value) value {
		s := strBytes(a[0])
		cut := e.needStr(a[1], "TrimLeft cutset")
		i := 0
	outer:
		for i < len(s) {
			for j := 0; j < len(cut); j++ {
				if e.byteEq(s[i], uint64(cut[j])) {
					i++
					continue outer
				}
			}
			break
		}
		return mkStr(s[i:])
	},
	"strconv.FormatInt": func(e *Engine, _ *frame, _ *ssa.Function, a []value) value {
		return strconv.FormatInt(sext(e.concU(a[0]), 64), int(a[1].(uint64)))
	},
	"strconv.FormatFloat": func(e *Engine, _ *frame, _ *ssa.Function, a []value) value {
		if _, ok := a[0].(symfloat); ok {
			e.unsupported("strconv.FormatFloat of a float that depends on symbolic bytes")
		}
		return strconv.FormatFloat(a[0].(float64), byte(a[1].(uint64)), int(sext(a[2].(uint64), 64)), int(a[3].(uint64)))
	},
	"math.Abs": func(e *Engine, _ *frame, _ *ssa.Function, a []value) value { return math.Abs(a[0].(float64)) },
	"path.Match": func(e *Engine, _ *frame, _ *ssa.Function, a []value) value {
		ok, err := pathMatch(e.needStr(a[0], "path.Match"), e.needStr(a[1], "path.Match"))
		if err != nil {
			return tuple{ok, mkError(err.Error())}
		}
		return tuple{ok, iface{}}
	},
	"fmt.Sprintf": func(e *Engine, _ *frame, _ *ssa.Function, a []value) value { return sprintfModel(e, a) },
	"fmt.Errorf": func(e *Engine, _ *frame, _ *ssa.Function, a []value) value {
		return iface{t: errorT, v: sprintfModel(e, a)}
	},
	"strings.NewReplacer": func(e *Engine, _ *frame, _ *ssa.Function, a []value) value {
		var ss []string
		for _, v := range a[0].([]value) {
			ss = append(ss, v.(string))
		}
		p := new(value)
		*p = &native{obj: strings.NewReplacer(ss...), desc: "strings.Replacer", args: a[0].([]value)}
		return p
	},
	"(*strings.Replacer).Replace": func(e *Engine, _ *frame, _ *ssa.Function, a []value) value {
		n := (*a[0].(*value)).(*native)
		if s, ok := a[1].(string); ok {
			return n.obj.(*strings.Replacer).Replace(s)
		}
		var pairs [][2][]value
		for i := 0; i+1 < len(n.args); i += 2 {
			pairs = append(pairs, [2][]value{strBytes(n.args[i]), strBytes(n.args[i+1])})
		}
		return mkStr(e.mReplaceAll(strBytes(a[1]), pairs))
	},
	"strings.Index": func(e *Engine, _ *frame, _ *ssa.Function, a []value) value {
		return uint64(int64(e.mIndex(strBytes(a[0]), strBytes(a[1]))))
	},
	"strings.Contains": func(e *Engine, _ *frame, _ *ssa.Function, a []value) value {
		return e.mIndex(strBytes(a[0]), strBytes(a[1])) >= 0
	},
	"strings.HasPrefix": func(e *Engine, _ *frame, _ *ssa.Function, a []value) value {
		return e.bytesEqAt(strBytes(a[0]), 0, strBytes(a[1]))
	},
	"strings.HasSuffix": func(e *Engine, _ *frame, _ *ssa.Function, a []value) value {
		s, suf := strBytes(a[0]), strBytes(a[1])
		if len(suf) > len(s) {
			return false
		}
		return e.bytesEqAt(s, len(s)-len(suf), suf)
	},
	"strings.TrimSuffix": func(e *Engine, _ *frame, _ *ssa.Function, a []value) value {
		s, suf := strBytes(a[0]), strBytes(a[1])
		if len(suf) <= len(s) && e.bytesEqAt(s, len(s)-len(suf), suf) {
			return mkStr(s[:len(s)-len(suf)])
		}
		return a[0]
	},
	"strings.TrimPrefix": func(e *Engine, _ *frame, _ *ssa.Function, a []value) value {
		s, pre := strBytes(a[0]), strBytes(a[1])
		if e.bytesEqAt(s, 0, pre) {
			return mkStr(s[len(pre):])
		}
		return a[0]
	},
	"strings.Count": func(e *Engine, _ *frame, _ *ssa.Function, a []value) value {
		s, sub := strBytes(a[0]), strBytes(a[1])
		if len(sub) == 0 {
			e.unsupported("strings.Count with empty separator")
		}
		n := 0
		for i := 0; i+len(sub) <= len(s); {
			if e.bytesEqAt(s, i, sub) {
				n++
				i += len(sub)
			} else {
				i++
			}
		}
		return uint64(n)
	},
	"strings.Split": func(e *Engine, _ *frame, _ *ssa.Function, a []value) value {
		s, sep := strBytes(a[0]), strBytes(a[1])
		if len(sep) == 0 {
			e.unsupported("strings.Split with empty separator")
		}
		var parts []value
		start := 0
		for i := 0; i+len(sep) <= len(s); {
			if e.bytesEqAt(s, i, sep) {
				parts = append(parts, mkStr(s[start:i]))
				i += len(sep)
				start = i
			} else {
				i++
			}
		}
		parts = append(parts, mkStr(s[start:]))
		return parts
	},
	"strings.Replace": func(e *Engine, _ *frame, _ *ssa.Function, a []value) value {
		n := sext(a[3].(uint64), 64)
		if n >= 0 {
			if s0, ok := a[0].(string); ok {
				return strings.Replace(s0, e.needStr(a[1], "Replace"), e.needStr(a[2], "Replace"), int(n))
			}
			e.unsupported("strings.Replace with n >= 0 on symbolic string")
		}
		return mkStr(e.mReplaceAll(strBytes(a[0]), [][2][]value{{strBytes(a[1]), strBytes(a[2])}}))
	},
	"strings.ToLower": func(e *Engine, _ *frame, _ *ssa.Function, a []value) value {
		if s, ok := a[0].(string); ok {
			return strings.ToLower(s)
		}
		b := strBytes(a[0])
		out := make([]value, len(b))
		for i, c := range b {
			switch c := c.(type) {
			case uint64:
				if c >= 'A' && c <= 'Z' {
					c += 32
				}
				if c >= 0x80 {
					e.unsupported("ToLower on non-ASCII symbolic string")
				}
				out[i] = c
			case *symv:
				if !e.branch(app(0, "bvult", c.t, bvLit(0x80, 8))) {
					e.unsupported("ToLower on non-ASCII symbolic byte")
				}
				isUp := tAnd(app(0, "bvuge", c.t, bvLit('A', 8)), app(0, "bvule", c.t, bvLit('Z', 8)))
				out[i] = &symv{tIte(isUp, app(8, "bvadd", c.t, bvLit(32, 8)), c.t)}
			}
		}
		return mkStr(out)
	},
	"strings.TrimSpace": func(e *Engine, _ *frame, _ *ssa.Function, a []value) value {
		if s, ok := a[0].(string); ok {
			return strings.TrimSpace(s)
		}
		b := strBytes(a[0])
		isSp := func(c value) bool {
			for _, sp := range []uint64{' ', '\t', '\n', '\v', '\f', '\r'} {
				if e.byteEq(c, sp) {
					return true
				}
			}
			return false
		}
		lo, hi := 0, len(b)
		for lo < hi && isSp(b[lo]) {
			lo++
		}
		for hi > lo && isSp(b[hi-1]) {
			hi--
		}
		return mkStr(b[lo:hi])
	},
	"strconv.Itoa": func(e *Engine, _ *frame, _ *ssa.Function, a []value) value {
		return strconv.Itoa(int(sext(e.concU(a[0]), 64)))
	},
	"strconv.ParseInt": func(e *Engine, _ *frame, _ *ssa.Function, a []value) value {
		base, bits := int(a[1].(uint64)), int(a[2].(uint64))
		if s, ok := a[0].(string); ok {
			v, err := strconv.ParseInt(s, base, bits)
			if err != nil {
				return tuple{uint64(v), mkError(err.Error())}
			}
			return tuple{uint64(v), iface{}}
		}
		if (base != 10 && base != 16) || bits != 64 {
			// outside the symbolic model (e.g. base 0 with its prefixes): enumerate the bytes (they come from
			// small domains) and run the real function
			bs := strBytes(a[0])
			buf := make([]byte, len(bs))
			for i, c := range bs {
				switch c := c.(type) {
				case uint64:
					buf[i] = byte(c)
				case *symv:
					buf[i] = byte(e.concretize(c.t))
				}
			}
			v, err := strconv.ParseInt(string(buf), base, bits)
			if err != nil {
				return tuple{uint64(v), mkError(err.Error())}
			}
			return tuple{uint64(v), iface{}}
		}
		v, ok := e.mParseInt(strBytes(a[0]), base, true)
		if !ok {
			return tuple{uint64(0), mkError("strconv.ParseInt: invalid syntax")}
		}
		return tuple{v, iface{}}
	},
	"strconv.ParseUint": func(e *Engine, _ *frame, _ *ssa.Function, a []value) value {
		base, bits := int(a[1].(uint64)), int(a[2].(uint64))
		if s, ok := a[0].(string); ok {
			v, err := strconv.ParseUint(s, base, bits)
			if err != nil {
				return tuple{v, mkError(err.Error())}
			}
			return tuple{v, iface{}}
		}
		if (base != 10 && base != 16) || bits != 64 {
			e.unsupported("strconv.ParseUint on a symbolic string with base/bitSize outside the model")
		}
		v, ok := e.mParseInt(strBytes(a[0]), base, false)
		if !ok {
			return tuple{uint64(0), mkError("strconv.ParseUint: invalid syntax")}
		}
		return tuple{v, iface{}}
	},
	"strconv.ParseFloat": func(e *Engine, _ *frame, _ *ssa.Function, a []value) value {
		if int(a[1].(uint64)) != 64 {
			e.unsupported("strconv.ParseFloat bitSize != 64")
		}
		v, ok := e.mParseFloat(a[0])
		if !ok {
			// (a range error comes with the infinite value, as in the real function)
			fv, _ := v.(float64)
			return tuple{fv, mkError("strconv.ParseFloat: invalid syntax or out of range")}
		}
		return tuple{v, iface{}}
	},
	// regexp.Match(pattern, b): concrete pattern; the subject is concretised (forks over its feasible bytes)
	"regexp.Match": func(e *Engine, _ *frame, _ *ssa.Function, a []value) value {
		pat := e.needStr(a[0], "regexp.Match")
		re, err := regexp.Compile(pat)
		if err != nil {
			return tuple{false, mkError("error parsing regexp: " + err.Error())}
		}
		return tuple{re.Match(e.concBytes(a[1].([]value))), iface{}}
	},
	// the account database is not part of the model: no user
	"os/user.Current": func(e *Engine, _ *frame, fn *ssa.Function, a []value) value {
		return tuple{(*value)(nil), mkError("user: Current not implemented in the model")}
	},
	"regexp.QuoteMeta": func(e *Engine, _ *frame, _ *ssa.Function, a []value) value {
		return regexp.QuoteMeta(e.needStr(a[0], "regexp.QuoteMeta"))
	},
	"regexp.Compile": func(e *Engine, _ *frame, _ *ssa.Function, a []value) value {
		s := e.needStr(a[0], "regexp.Compile")
		re, err := regexp.Compile(s)
		if err != nil {
			return tuple{(*value)(nil), mkError(err.Error())}
		}
		p := new(value)
		*p = &native{obj: re, desc: "regexp"}
		return tuple{p, iface{}}
	},
	"regexp.MustCompile": func(e *Engine, _ *frame, _ *ssa.Function, a []value) value {
		s := e.needStr(a[0], "regexp.MustCompile")
		re, err := regexp.Compile(s)
		if err != nil {
			panic(targetPanic{mkError("regexp: Compile(" + s + "): " + err.Error())})
		}
		p := new(value)
		*p = &native{obj: re, desc: "regexp"}
		return p
	},
	"(*regexp.Regexp).MatchString": func(e *Engine, _ *frame, _ *ssa.Function, a []value) value {
		n := (*a[0].(*value)).(*native)
		re := n.obj.(*regexp.Regexp)
		if s, ok := a[1].(string); ok {
			return re.MatchString(s)
		}
		if re.String() == hexFloatPattern {
			return e.mHexFloatRe(strBytes(a[1]))
		}
		if re.String() == `^[0-9]+.+$` {
			// one or more digits followed by one or more non-newline characters, anchored at both ends
			b := strBytes(a[1])
			if len(b) < 2 || !e.isDigitV(b[0]) {
				return false
			}
			for _, c := range b[1:] {
				if e.isByte(c, '\n') {
					return false
				}
			}
			return true
		}
		if len(strBytes(a[1])) < regexMinLen(re.String()) {
			return false // shorter than the shortest string the pattern can match
		}
		if regexp.QuoteMeta(re.String()) == re.String() {
			// a pattern without metacharacters matches exactly when it occurs as a substring
			return e.mIndex(strBytes(a[1]), strBytes(re.String())) >= 0
		}
		e.unsupported("regexp.MatchString with symbolic string: " + re.String())
		return nil
	},
	"(*regexp.Regexp).FindAllString": func(e *Engine, _ *frame, _ *ssa.Function, a []value) value {
		n := (*a[0].(*value)).(*native)
		re := n.obj.(*regexp.Regexp)
		if s, ok := a[1].(string); ok {
			return strSliceVal(re.FindAllString(s, int(sext(a[2].(uint64), 64))))
		}
		if len(strBytes(a[1])) < regexMinLen(re.String()) {
			return []value(nil) // shorter than the shortest string the pattern can match: no match
		}
		// small domains: concretise the string (forks over the feasible byte values) and match natively
		b := strBytes(a[1])
		prod := 1
		for _, c := range b {
			if sv, isSym := c.(*symv); isSym {
				d := e.dom[sv.t.id]
				if d == nil || len(d.vals) == 0 {
					prod = 1 << 30
					break
				}
				prod *= len(d.vals)
				if prod > 4096 {
					break
				}
			}
		}
		if prod > 4096 {
			e.unsupported("regexp.FindAllString with symbolic string long enough to match: " + re.String())
		}
		return strSliceVal(re.FindAllString(string(e.concBytes(b)), int(sext(a[2].(uint64), 64))))
	},
	"(time.Time).Unix":     func(e *Engine, _ *frame, _ *ssa.Function, a []value) value { return uint64(0) },
	"(time.Time).UnixNano": func(e *Engine, _ *frame, _ *ssa.Function, a []value) value { return uint64(0) },
	"math.Pow": func(e *Engine, _ *frame, _ *ssa.Function, a []value) value {
		return math.Pow(a[0].(float64), a[1].(float64))
	},
	"unicode/utf8.RuneCountInString": func(e *Engine, _ *frame, _ *ssa.Function, a []value) value {
		if s, ok := a[0].(string); ok {
			return uint64(utf8.RuneCountInString(s))
		}
		// symbolic: count bytes that are not continuation bytes when the string is structurally
		// valid; for the prototype concretise the non-ASCII bytes
		b := strBytes(a[0])
		bs := make([]byte, len(b))
		for i, c := range b {
			switch c := c.(type) {
			case uint64:
				bs[i] = byte(c)
			case *symv:
				if e.branch(app(0, "bvult", c.t, bvLit(0x80, 8))) {
					bs[i] = 'a'
				} else {
					bs[i] = byte(e.concretize(c.t))
				}
			}
		}
		return uint64(utf8.RuneCount(bs))
	},
	"(*golang.org/x/text/encoding.Decoder).String": func(e *Engine, _ *frame, _ *ssa.Function, a []value) value {
		var s string
		switch v := a[1].(type) {
		case string:
			s = v
		case *symstr:
			// concretise (bounded by the harness alphabet); recorded as a cut in the design
			bs := make([]byte, len(v.b))
			for i, c := range v.b {
				switch c := c.(type) {
				case uint64:
					bs[i] = byte(c)
				case *symv:
					bs[i] = byte(e.concretize(c.t))
				}
			}
			s = string(bs)
		}
		r, err := simplifiedchinese.GBK.NewDecoder().String(s)
		if err != nil {
			return tuple{r, mkError(err.Error())}
		}
		return tuple{r, iface{}}
	},
}

func pathMatch(p, n string) (bool, error) { return gopath.Match(p, n) }

func init() {
	natives["sort.Sort"] = sortModel
	natives["sort.Stable"] = sortModel
	// sort.Slice / sort.SliceStable(x, less): insertion sort driven by the interpreted less function (stable; the
	// library's unstable order for equal elements is one of the orders a stable sort of some input order gives)
	sliceSort := func(e *Engine, caller *frame, _ *ssa.Function, a []value) value {
		itf, ok := a[0].(iface)
		if !ok {
			e.unsupported("sort.Slice: argument")
		}
		s, ok := itf.v.([]value)
		if !ok {
			if itf.v == nil {
				return nil
			}
			e.unsupported("sort.Slice: not a slice")
		}
		// less takes indices into the slice as it is at the time of the call: sort by swapping in place
		for i := 1; i < len(s); i++ {
			for j := i; j > 0 && e.truth(e.call(caller, a[1], []value{uint64(j), uint64(j - 1)})); j-- {
				e.logStore(&s[j])
				e.logStore(&s[j-1])
				s[j], s[j-1] = s[j-1], s[j]
			}
		}
		return nil
	}
	natives["(*sync.Mutex).Lock"] = func(e *Engine, caller *frame, _ *ssa.Function, a []value) value {
		if f := e.onLock; f != nil {
			e.onLock = nil
			e.call(caller, f, nil) // the message queued earlier is served first (see verifOnLock)
		}
		e.raceLock(a[0].(*value))
		return nil
	}
	natives["sort.Slice"] = sliceSort
	natives["sort.SliceStable"] = sliceSort
}

var regexMinCache sync.Map

// regexMinLen is the length in bytes of the shortest string the pattern can match (0 if unknown).
func regexMinLen(pattern string) int {
	if v, ok := regexMinCache.Load(pattern); ok {
		return v.(int)
	}
	n := 0
	if re, err := syntax.Parse(pattern, syntax.Perl); err == nil {
		n = reMin(re.Simplify())
	}
	regexMinCache.Store(pattern, n)
	return n
}

func reMin(re *syntax.Regexp) int {
	switch re.Op {
	case syntax.OpLiteral:
		return len(re.Rune) // every rune is at least one byte
	case syntax.OpCharClass, syntax.OpAnyCharNotNL, syntax.OpAnyChar:
		return 1
	case syntax.OpCapture:
		return reMin(re.Sub[0])
	case syntax.OpPlus:
		return reMin(re.Sub[0])
	case syntax.OpRepeat:
		return re.Min * reMin(re.Sub[0])
	case syntax.OpConcat:
		t := 0
		for _, s := range re.Sub {
			t += reMin(s)
		}
		return t
	case syntax.OpAlternate:
		m := -1
		for _, s := range re.Sub {
			if k := reMin(s); m < 0 || k < m {
				m = k
			}
		}
		if m < 0 {
			return 0
		}
		return m
	}
	return 0
}

// syncMapOf returns the map value that models the entries of the sync.Map at p (created on demand).
func (e *Engine) syncMapOf(fn *ssa.Function, p *value, create bool) *mapv {
	st := fn.Signature.Recv().Type().(*types.Pointer).Elem().Underlying().(*types.Struct)
	fi := -1
	for i := 0; i < st.NumFields(); i++ {
		if st.Field(i).Name() == "dirty" {
			fi = i
		}
	}
	if fi < 0 {
		e.unsupported("sync.Map without a dirty field")
	}
	sv, ok := (*p).(structure)
	if !ok {
		e.unsupported("sync.Map value of unexpected shape")
	}
	if m, ok := sv[fi].(*mapv); ok && m != nil {
		return m
	}
	if !create {
		return nil
	}
	m := &mapv{kt: types.NewInterfaceType(nil, nil)}
	e.logStore(&sv[fi])
	sv[fi] = m
	return m
}
