package main

import (
	"sort"
	"fmt"

	"golang.org/x/tools/go/ssa"
)

// intrinsicDecls is the Go source of the body-less declarations injected (as an overlay file)
// into every package that contains a harness file. The native twin is in replay.go.
const intrinsicDecls = `
func verifByte(name string) byte
func verifByteIn(name string, set string) byte
func verifBool(name string) bool
func verifInt(name string) int
func verifU32(name string) uint32
func verifRange(name string, lo, hi int) int
func verifBytes(name string, n int) []byte
func verifBytesIn(name string, n int, set string) []byte
func verifParam(name string) int
func verifParamOr(name string, def int) int
func verifAssume(c bool)
func verifAssert(c bool, msg string)
func verifViolation(class string, msg string)
func verifClass(class string)
func verifReach(tag string)
func verifObserve(tag string, s string)
func verifNative() bool
func verifConcretize(v int) int
func verifIsSym(v int) bool
func verifVFSRoot() string
func verifVFSPut(name string, content []byte)
func verifVFSDel(name string)
func verifVFSList() []string
func verifVFSLink(name string, target string)
func verifVFSIsLink(name string) bool
func verifTask(name string, notification bool)
func verifSched(explore bool)
func verifMapOrder(explore bool)
func verifMapReverse(on bool)
func verifLockBusy(busy bool)
func verifOnLock(f func())
`

func (e *Engine) byteIn(name, set string) *symv {
	s := e.fresh(name, 8)
	seen := map[uint64]bool{}
	var vals []uint64
	var c *Term = termFalse
	for i := 0; i < len(set); i++ {
		v := uint64(set[i])
		if seen[v] {
			continue
		}
		seen[v] = true
		vals = append(vals, v)
		c = tOr(c, tEq(s.t, bvLit(v, 8)))
	}
	e.setDomain(s.t.id, vals)
	e.sol.Assert(c)
	e.pc = append(e.pc, c)
	return s
}

var intrinsics = map[string]extFn{
	"verifByte": func(e *Engine, _ *frame, _ *ssa.Function, a []value) value {
		return e.fresh(a[0].(string), 8)
	},
	"verifByteIn": func(e *Engine, _ *frame, _ *ssa.Function, a []value) value {
		return e.byteIn(a[0].(string), a[1].(string))
	},
	"verifBool": func(e *Engine, _ *frame, _ *ssa.Function, a []value) value {
		return e.fresh(a[0].(string), 0)
	},
	"verifInt": func(e *Engine, _ *frame, _ *ssa.Function, a []value) value {
		return e.fresh(a[0].(string), 64)
	},
	"verifU32": func(e *Engine, _ *frame, _ *ssa.Function, a []value) value {
		return e.fresh(a[0].(string), 32)
	},
	"verifRange": func(e *Engine, _ *frame, _ *ssa.Function, a []value) value {
		lo, hi := sext(a[1].(uint64), 64), sext(a[2].(uint64), 64)
		if lo < 0 || hi < lo {
			panic("verifRange: need 0 <= lo <= hi")
		}
		if lo == hi {
			return uint64(lo)
		}
		return e.freshRange(a[0].(string), 64, uint64(lo), uint64(hi))
	},
	"verifBytes": func(e *Engine, _ *frame, _ *ssa.Function, a []value) value {
		n := int(a[1].(uint64))
		r := make([]value, n)
		for i := range r {
			r[i] = e.fresh(a[0].(string), 8)
		}
		return r
	},
	"verifBytesIn": func(e *Engine, _ *frame, _ *ssa.Function, a []value) value {
		n := int(a[1].(uint64))
		r := make([]value, n)
		for i := range r {
			r[i] = e.byteIn(a[0].(string), a[2].(string))
		}
		return r
	},
	"verifParam": func(e *Engine, _ *frame, _ *ssa.Function, a []value) value {
		v, ok := e.sh.params[a[0].(string)]
		if !ok {
			panic("verifParam: job has no parameter " + a[0].(string))
		}
		return uint64(v)
	},
	"verifParamOr": func(e *Engine, _ *frame, _ *ssa.Function, a []value) value {
		if v, ok := e.sh.params[a[0].(string)]; ok {
			return uint64(v)
		}
		return a[1]
	},
	"verifAssume": func(e *Engine, _ *frame, _ *ssa.Function, a []value) value {
		switch c := a[0].(type) {
		case bool:
			if !c {
				panic(pathEnd{"assume", ""})
			}
		case *symv:
			if e.pos < len(e.prefix) {
				// replaying: the assumption was feasible when the prefix was recorded
				e.assume(c.t)
				return nil
			}
			switch e.quick(c.t) {
			case qFalse:
				panic(pathEnd{"assume", ""})
			case qTrue, qBoth:
				e.assume(c.t)
				return nil
			}
			for _, m := range e.validModels() {
				if c.t.eval(m) != 0 {
					e.assume(c.t)
					return nil
				}
			}
			e.Decided++
			if !e.solverSat(c.t) {
				panic(pathEnd{"assume", ""})
			}
			e.assume(c.t)
		}
		return nil
	},
	"verifAssert": func(e *Engine, _ *frame, _ *ssa.Function, a []value) value {
		msg, _ := a[1].(string)
		switch c := a[0].(type) {
		case bool:
			if !c {
				e.report("assert", e.class, "assert failed: "+msg)
			}
		case *symv:
			if e.pos < len(e.prefix) {
				// replaying: the verdict was computed when this prefix was recorded
				e.decisions = append(e.decisions, e.prefix[e.pos])
				e.pos++
				e.assume(c.t)
				return nil
			}
			// the verdict of an assertion is always a solver query
			e.Asserts++
			e.sol.Push()
			e.sol.Assert(tNot(c.t))
			r := e.sol.Check()
			if r == "unknown" {
				e.sol.Pop()
				panic(pathEnd{"unknown", "solver unknown on assertion"})
			}
			if r == "sat" {
				e.pathViol++
				key := e.class + "|assert|assert failed: " + msg
				if e.vioCount[key] < maxViolationsKept {
					vals := e.sol.Values(e.inputs)
					m := map[string]uint64{}
					for i, in := range e.inputs {
						m[trimBar(in.name)] = vals[i]
					}
					e.addViolation(violation{Class: e.class, Kind: "assert", Msg: "assert failed: " + msg, Model: m})
				} else {
					e.vioCount[key]++
				}
			}
			e.sol.Pop()
			if !e.solverSat(c.t) {
				panic(pathEnd{"assert-all-fail", ""})
			}
			e.decisions = append(e.decisions, decision{taken: true, force: true})
			e.assume(c.t)
		}
		return nil
	},
	"verifReach": func(e *Engine, _ *frame, _ *ssa.Function, a []value) value {
		e.Reach[a[0].(string)]++
		return nil
	},
	"verifViolation": func(e *Engine, _ *frame, _ *ssa.Function, a []value) value {
		e.report("explicit", a[0].(string), a[1].(string))
		return nil
	},
	"verifClass": func(e *Engine, _ *frame, _ *ssa.Function, a []value) value {
		e.class = a[0].(string)
		return nil
	},
	"verifObserve": func(e *Engine, _ *frame, _ *ssa.Function, a []value) value {
		e.observe = append(e.observe, obs{a[0].(string), a[1]})
		return nil
	},
	"verifNative": func(e *Engine, _ *frame, _ *ssa.Function, a []value) value { return false },
	"verifConcretize": func(e *Engine, _ *frame, _ *ssa.Function, a []value) value {
		switch v := a[0].(type) {
		case uint64:
			return v
		case *symv:
			return e.concretize(v.t)
		}
		panic(fmt.Sprintf("verifConcretize: %T", a[0]))
	},
	"verifVFSRoot": func(e *Engine, _ *frame, _ *ssa.Function, a []value) value { return "/w" },
	"verifVFSPut": func(e *Engine, _ *frame, _ *ssa.Function, a []value) value {
		name := e.needStr(a[0], "verifVFSPut")
		if e.vfs == nil {
			e.vfs = map[string][]value{}
		}
		e.vfs[name] = append([]value(nil), a[1].([]value)...)
		return nil
	},
	// verifVFSLink(name, target): name is a symbolic link to the virtual file target (reads go to its content)
	"verifVFSLink": func(e *Engine, _ *frame, _ *ssa.Function, a []value) value {
		name, target := e.needStr(a[0], "verifVFSLink"), e.needStr(a[1], "verifVFSLink")
		if e.vfs == nil {
			e.vfs = map[string][]value{}
		}
		if e.vfsLinks == nil {
			e.vfsLinks = map[string]bool{}
		}
		e.vfs[name] = append([]value(nil), e.vfs[target]...)
		e.vfsLinks[name] = true
		return nil
	},
	"verifVFSIsLink": func(e *Engine, _ *frame, _ *ssa.Function, a []value) value {
		return e.vfsLinks[e.needStr(a[0], "verifVFSIsLink")]
	},
	"verifVFSDel": func(e *Engine, _ *frame, _ *ssa.Function, a []value) value {
		delete(e.vfs, e.needStr(a[0], "verifVFSDel"))
		return nil
	},
	// the names of all virtual files, sorted (used by environment models written as harness code)
	"verifVFSList": func(e *Engine, _ *frame, _ *ssa.Function, a []value) value {
		names := make([]string, 0, len(e.vfs))
		for n := range e.vfs {
			names = append(names, n)
		}
		sort.Strings(names)
		return strSliceVal(names)
	},
	"verifMapReverse": func(e *Engine, _ *frame, _ *ssa.Function, a []value) value {
		e.permRev = e.truth(a[0])
		return nil
	},
	"verifMapOrder": func(e *Engine, _ *frame, _ *ssa.Function, a []value) value {
		e.permOff = !e.truth(a[0])
		return nil
	},
	// verifLockBusy(true): from now on another message's handler is assumed to hold every mutex at the moment
	// the code asks for it - Lock waits for it (and then proceeds), TryLock fails. Models a request that arrives
	// while another handler runs; natively the harness creates that situation itself.
	"verifLockBusy": func(e *Engine, _ *frame, _ *ssa.Function, a []value) value {
		e.lockBusy = e.truth(a[0])
		return nil
	},
	// verifOnLock(f): f runs once, at the next sync.Mutex / RWMutex Lock call - it stands for a message that
	// was queued on that mutex earlier and is served first when the mutex is handed over.
	"verifOnLock": func(e *Engine, _ *frame, _ *ssa.Function, a []value) value {
		e.onLock = a[0]
		return nil
	},
	"verifSched": func(e *Engine, _ *frame, _ *ssa.Function, a []value) value {
		e.schedOff = !e.truth(a[0])
		return nil
	},
	"verifIsSym": func(e *Engine, _ *frame, _ *ssa.Function, a []value) value {
		_, ok := a[0].(*symv)
		return ok
	},
}

func trimBar(s string) string {
	if len(s) >= 2 && s[0] == '|' {
		return s[1 : len(s)-1]
	}
	return s
}
