package main

import (
	"encoding/json"
	"go/types"
	"reflect"
	"strings"

	"golang.org/x/tools/go/ssa"
)

// Model of encoding/json.Unmarshal for concrete input and a pointer to a struct / slice / basic value of
// the interpreted program: the text is decoded natively into generic values, which are then written into
// the interpreted object following the Go types (field matching by `json` tag or case-insensitive name,
// as encoding/json does; absent keys leave the field as it is). Only the shapes configuration files use
// are supported (structs, slices, strings, numbers, bools, maps with string keys); anything else ends
// the path as unsupported.
func init() {
	natives["encoding/json.Unmarshal"] = func(e *Engine, _ *frame, _ *ssa.Function, a []value) value {
		bs, ok := a[0].([]value)
		if !ok && a[0] != nil {
			e.unsupported("json.Unmarshal: data")
		}
		data := make([]byte, len(bs))
		for i, b := range bs {
			c, isC := b.(uint64)
			if !isC {
				e.unsupported("json.Unmarshal on symbolic bytes")
			}
			data[i] = byte(c)
		}
		itf, ok := a[1].(iface)
		if !ok || itf.t == nil {
			e.unsupported("json.Unmarshal: target")
		}
		pt, ok := itf.t.Underlying().(*types.Pointer)
		if !ok {
			return mkError("json: Unmarshal(non-pointer)")
		}
		ptr, ok := itf.v.(*value)
		if !ok || ptr == nil {
			return mkError("json: Unmarshal(nil)")
		}
		var gen interface{}
		if err := json.Unmarshal(data, &gen); err != nil {
			return mkError(err.Error())
		}
		nv, errMsg := e.jsonPopulate(*ptr, pt.Elem(), gen)
		if errMsg != "" {
			return mkError(errMsg)
		}
		e.storeInto(ptr, nv, true)
		return iface{}
	}
}

func (e *Engine) jsonPopulate(cur value, t types.Type, g interface{}) (value, string) {
	if g == nil {
		return cur, "" // JSON null: no effect on non-pointer values
	}
	switch u := t.Underlying().(type) {
	case *types.Basic:
		switch {
		case u.Info()&types.IsString != 0:
			s, ok := g.(string)
			if !ok {
				return cur, "json: cannot unmarshal " + reflect.TypeOf(g).String() + " into Go value of type string"
			}
			return s, ""
		case u.Info()&types.IsBoolean != 0:
			b, ok := g.(bool)
			if !ok {
				return cur, "json: cannot unmarshal into Go value of type bool"
			}
			return b, ""
		case u.Info()&types.IsInteger != 0:
			f, ok := g.(float64)
			if !ok || f != float64(int64(f)) {
				return cur, "json: cannot unmarshal into Go value of type int"
			}
			bits, _, _ := intInfo(t)
			return mask(uint64(int64(f)), bits), ""
		case u.Info()&types.IsFloat != 0:
			f, ok := g.(float64)
			if !ok {
				return cur, "json: cannot unmarshal into Go value of type float"
			}
			return f, ""
		}
	case *types.Slice:
		arr, ok := g.([]interface{})
		if !ok {
			return cur, "json: cannot unmarshal into Go value of slice type"
		}
		out := make([]value, len(arr))
		for i := range arr {
			v, msg := e.jsonPopulate(zero(u.Elem()), u.Elem(), arr[i])
			if msg != "" {
				return cur, msg
			}
			out[i] = v
		}
		return out, ""
	case *types.Struct:
		obj, ok := g.(map[string]interface{})
		if !ok {
			return cur, "json: cannot unmarshal into Go value of struct type"
		}
		src, _ := cur.(structure)
		out := make(structure, u.NumFields())
		for i := range out {
			if i < len(src) {
				out[i] = copyVal(src[i])
			} else {
				out[i] = zero(u.Field(i).Type())
			}
		}
		for i := 0; i < u.NumFields(); i++ {
			f := u.Field(i)
			if !f.Exported() {
				continue
			}
			name := f.Name()
			if tag := reflect.StructTag(u.Tag(i)).Get("json"); tag != "" {
				if tag == "-" {
					continue
				}
				if k := strings.Index(tag, ","); k >= 0 {
					tag = tag[:k]
				}
				if tag != "" {
					name = tag
				}
			}
			var gv interface{}
			found := false
			if x, ok := obj[name]; ok {
				gv, found = x, true
			} else {
				for k, x := range obj {
					if strings.EqualFold(k, name) {
						gv, found = x, true
						break
					}
				}
			}
			if !found {
				continue
			}
			v, msg := e.jsonPopulate(out[i], f.Type(), gv)
			if msg != "" {
				return cur, msg
			}
			out[i] = v
		}
		return out, ""
	case *types.Pointer:
		p := new(value)
		*p = zero(u.Elem())
		v, msg := e.jsonPopulate(*p, u.Elem(), g)
		if msg != "" {
			return cur, msg
		}
		*p = v
		return p, ""
	}
	e.unsupported("json.Unmarshal into " + t.String())
	return cur, ""
}
