package main

import (
	"fmt"
	"os"
	"sort"
	"strings"

	"golang.org/x/tools/go/ssa"
)

// Access tracing for C10 (enabled per job with "trace_access"): every read and write of a map object is
// recorded with the logical thread that performs it, the set of mutexes that thread holds and its vector
// clock. Logical threads are (a) the interpreted goroutines and (b) the "tasks" a harness opens with
// verifTask(name, kind): two handler invocations that the transport may run concurrently. Happens-before
// comes from program order, goroutine creation, channel communication and mutex release/acquire.
// At the end of a path every pair of conflicting accesses (same map, at least one write, different
// threads, not ordered by happens-before) becomes a candidate; a small SMT query over integer time
// stamps (critical sections exclude one another per mutex, the dispatcher's notification barrier, task
// program order) decides whether a schedule exists in which the two accesses are adjacent.

type vclock map[int]int

func (v vclock) copy() vclock {
	c := make(vclock, len(v))
	for k, x := range v {
		c[k] = x
	}
	return c
}

func (v vclock) join(o vclock) {
	for k, x := range o {
		if x > v[k] {
			v[k] = x
		}
	}
}

type lockHeld struct {
	m      *value
	shared bool // held through RLock
	acq    int  // identity of the acquisition (threads started inside a critical section inherit it)
}

type accessEv struct {
	obj   *mapv
	cell  *value // heap cell (non-map accesses)
	write bool
	tid   int
	clock int // the thread's own clock component at the access
	task  int // index into e.tasks (-1: setup / no task)
	vc    vclock
	nvc   vclock // the same clock without the mutex release->acquire edges (see hb)
	locks []lockHeld // mutexes held (in order of acquisition)
	site  string
}

type cellInfo struct {
	w  *accessEv
	rs []*accessEv
}

type taskInfo struct {
	name  string
	notif bool // notification (ordered before later messages) or request
	tid   int
}

type raceState struct {
	on      bool
	nextTid int
	tidOf   map[*gthread]int
	vcs     map[int]vclock
	nvcs    map[int]vclock // clocks that ignore mutex release->acquire edges; own components equal those of vcs
	locks   map[int][]lockHeld
	cells   map[*value]*cellInfo
	cand    map[string][2]*accessEv
	mutexVC map[*value]vclock // released by exclusive holders
	mutexRVC map[*value]vclock // released by shared (RLock) holders: only an exclusive acquire is ordered after them
	events  []accessEv
	seen    map[string]bool
	tasks   []taskInfo
	nextAcq int
	curTask int
	taskTid int // when a task is open, the main goroutine acts as this logical thread
}

func (e *Engine) raceReset() {
	e.race = &raceState{on: e.sh.traceAccess, tidOf: map[*gthread]int{}, vcs: map[int]vclock{}, nvcs: map[int]vclock{}, locks: map[int][]lockHeld{}, cells: map[*value]*cellInfo{}, cand: map[string][2]*accessEv{}, mutexVC: map[*value]vclock{}, mutexRVC: map[*value]vclock{}, seen: map[string]bool{}, curTask: -1, taskTid: -1, nextTid: 1}
	e.race.vcs[0] = vclock{0: 1}
	e.race.nvcs[0] = vclock{0: 1}
}

// curTid is the logical thread of the running code.
func (e *Engine) curTid() int {
	r := e.race
	if e.cur == e.mainT || e.cur == nil {
		if r.taskTid >= 0 {
			return r.taskTid
		}
		return 0
	}
	if t, ok := r.tidOf[e.cur]; ok {
		return t
	}
	return 0
}

func (e *Engine) raceSpawn(child *gthread) {
	r := e.race
	if !r.on {
		return
	}
	p := e.curTid()
	t := r.nextTid
	r.nextTid++
	r.tidOf[child] = t
	vc := r.vcs[p].copy()
	vc[t] = 1
	r.vcs[t] = vc
	r.vcs[p][p]++
	nvc := r.nvcs[p].copy()
	nvc[t] = 1
	r.nvcs[t] = nvc
	r.nvcs[p][p]++
	// a thread started inside a critical section works on behalf of the holder (the worker pools are started
	// and drained by a handler that holds the request mutex): its accesses count as made under those mutexes
	r.locks[t] = append([]lockHeld{}, r.locks[p]...)
}

// raceSync transfers happens-before from one logical thread to another (channel communication).
func (e *Engine) raceSync(from, to int) {
	r := e.race
	if !r.on || from == to {
		return
	}
	if r.vcs[from] == nil || r.vcs[to] == nil {
		return
	}
	r.vcs[to].join(r.vcs[from])
	r.vcs[from][from]++
	r.vcs[to][to]++
	r.nvcs[to].join(r.nvcs[from])
	r.nvcs[from][from]++
	r.nvcs[to][to]++
}

func (e *Engine) raceLock(m *value) { e.raceLockMode(m, false) }

func (e *Engine) raceLockMode(m *value, shared bool) {
	r := e.race
	if !r.on {
		return
	}
	t := e.curTid()
	if vc, ok := r.mutexVC[m]; ok {
		r.vcs[t].join(vc)
	}
	if !shared {
		if vc, ok := r.mutexRVC[m]; ok {
			r.vcs[t].join(vc)
		}
	}
	r.locks[t] = append(append([]lockHeld{}, r.locks[t]...), lockHeld{m, shared, r.nextAcq})
	r.nextAcq++
}

func (e *Engine) raceUnlock(m *value) {
	r := e.race
	if !r.on {
		return
	}
	t := e.curTid()
	ls := r.locks[t]
	wasShared := false
	for i := len(ls) - 1; i >= 0; i-- {
		if ls[i].m == m {
			wasShared = ls[i].shared
			r.locks[t] = append(append([]lockHeld{}, ls[:i]...), ls[i+1:]...)
			break
		}
	}
	if wasShared {
		if r.mutexRVC[m] == nil {
			r.mutexRVC[m] = vclock{}
		}
		r.mutexRVC[m].join(r.vcs[t])
	} else {
		r.mutexVC[m] = r.vcs[t].copy()
	}
	r.vcs[t][t]++
	r.nvcs[t][t]++
}

func (e *Engine) raceAccess(m *mapv, write bool) {
	r := e.race
	if r == nil || !r.on || m == nil {
		return
	}
	t := e.curTid()
	site := "?"
	for fr := e.curFrame; fr != nil; fr = fr.caller {
		if inModule(fr.fn) {
			site = fr.fn.String()
			break
		}
	}
	key := fmt.Sprintf("%p|%v|%d|%s|%d", m, write, t, site, len(r.locks[t]))
	if r.seen[key] {
		return
	}
	r.seen[key] = true
	r.events = append(r.events, accessEv{obj: m, write: write, tid: t, clock: r.vcs[t][t], task: r.curTask, vc: r.vcs[t].copy(), nvc: r.nvcs[t].copy(), locks: r.locks[t], site: site})
}

// hb: a happens before b. Between two different message tasks the mutex release->acquire edges of the
// observed (sequential) execution are ignored: another schedule may take the critical sections in the
// other order, and raceFeasible states mutual exclusion explicitly for the mutexes held at the accesses.
func hb(a, b *accessEv) bool {
	if a.task >= 0 && b.task >= 0 && a.task != b.task {
		return a.nvc[a.tid] <= b.nvc[a.tid]
	}
	return a.vc[a.tid] <= b.vc[a.tid]
}

func (e *Engine) moduleSite() string {
	for fr := e.curFrame; fr != nil; fr = fr.caller {
		if inModule(fr.fn) && !(fr.fn.Pkg != nil && interpretPkgs[fr.fn.Pkg.Pkg.Path()]) {
			return fr.fn.String()
		}
	}
	return "?"
}

// raceCell records a read or write of a heap cell (FastTrack-style: the last write and the reads since).
// Conflicting accesses that are not ordered by happens-before become candidates checked at the path's end.
func (e *Engine) raceCell(p *value, write bool) {
	r := e.race
	if r == nil || !r.on || r.nextTid <= 1 || p == nil {
		return
	}
	t := e.curTid()
	vc := r.vcs[t]
	if vc == nil {
		return
	}
	info := r.cells[p]
	if info == nil {
		info = &cellInfo{}
		r.cells[p] = info
	}
	var ev *accessEv
	mkEv := func() *accessEv {
		if ev == nil {
			ev = &accessEv{cell: p, write: write, tid: t, clock: vc[t], task: r.curTask, locks: r.locks[t], site: e.moduleSite()}
		}
		return ev
	}
	check := func(old *accessEv) {
		if old == nil || old.tid == t {
			return
		}
		ordered := old.clock <= vc[old.tid]
		if old.task >= 0 && r.curTask >= 0 && old.task != r.curTask {
			ordered = old.clock <= r.nvcs[t][old.tid] // across message tasks: without the mutex edges (see hb)
		}
		if ordered {
			return // ordered before the current access
		}
		cur := mkEv()
		w, o := old, cur
		if !old.write {
			w, o = cur, old
		}
		key := w.site + "~" + o.site + fmt.Sprint(o.write)
		if _, ok := r.cand[key]; !ok {
			r.cand[key] = [2]*accessEv{w, o}
		}
	}
	if write {
		check(info.w)
		for _, rd := range info.rs {
			check(rd)
		}
		info.w = mkEv()
		info.rs = nil
		return
	}
	check(info.w)
	for _, rd := range info.rs {
		if rd.tid == t {
			return
		}
	}
	if len(info.rs) < 4 {
		info.rs = append(info.rs, mkEv())
	}
}

// raceCheck runs at the end of a path and reports every feasible conflicting pair.
func (e *Engine) raceCheck() {
	r := e.race
	if r == nil || !r.on {
		return
	}
	reported := map[string]bool{}
	tn := func(ev *accessEv) string {
		if ev.task < 0 {
			return "-"
		}
		n := r.tasks[ev.task].name
		if i := strings.Index(n, ":"); i >= 0 {
			n = n[i+1:]
		}
		return n
	}
	if os.Getenv("GOSX_RACE_DEBUG") != "" {
		fmt.Printf("race debug: %d cell candidates, %d map events, tids=%d\n", len(r.cand), len(r.events), r.nextTid)
		for k := range r.cand {
			fmt.Println("   cand", k)
		}
		if os.Getenv("GOSX_RACE_DEBUG") == "2" {
			for i := range r.events {
				ev := &r.events[i]
				fmt.Printf("   ev obj=%p write=%v tid=%d task=%d locks=%d site=%s vc=%v nvc=%v\n", ev.obj, ev.write, ev.tid, ev.task, len(ev.locks), shortFn(ev.site), ev.vc, ev.nvc)
			}
		}
	}
	// heap-cell candidates
	keys := make([]string, 0, len(r.cand))
	for k := range r.cand {
		keys = append(keys, k)
	}
	sort.Strings(keys)
	for _, k := range keys {
		w, o := r.cand[k][0], r.cand[k][1]
		kind := "read"
		if o.write {
			kind = "write"
		}
		msg := fmt.Sprintf("unsynchronised access to shared state: write in %s concurrent with %s in %s", shortFn(w.site), kind, shortFn(o.site))
		if reported[msg] || !e.raceFeasible(w, o) {
			continue
		}
		reported[msg] = true
		e.report("race", "race:"+tn(w)+"/"+tn(o)+":"+shortFn(w.site)+"~"+shortFn(o.site), msg)
	}
	for i := range r.events {
		for j := i + 1; j < len(r.events); j++ {
			a, b := &r.events[i], &r.events[j]
			if a.obj != b.obj || a.tid == b.tid || (!a.write && !b.write) {
				continue
			}
			if hb(a, b) || hb(b, a) {
				continue
			}
			w, o := a, b
			if !w.write {
				w, o = b, a
			}
			kind := "read"
			if o.write {
				kind = "write"
			}
			msg := fmt.Sprintf("unsynchronised access to shared state: write in %s concurrent with %s in %s", shortFn(w.site), kind, shortFn(o.site))
			if reported[msg] {
				continue
			}
			if !e.raceFeasible(a, b) {
				continue
			}
			reported[msg] = true
			// class: which two messages (or "-" for code outside a task) and which two code sites
			class := "race:" + tn(w) + "/" + tn(o) + ":" + shortFn(w.site) + "~" + shortFn(o.site)
			e.report("race", class, msg)
		}
	}
}

func shortFn(s string) string {
	if i := strings.LastIndex(s, "/"); i >= 0 {
		s = s[i+1:]
	}
	return strings.NewReplacer("(", "", ")", "", "*", "").Replace(s)
}

// raceFeasible asks the solver for a schedule in which accesses a and b are adjacent.
// Integer time stamps (BV16): task start/end, per held mutex an acquire/release pair around the access.
func (e *Engine) raceFeasible(a, b *accessEv) bool {
	r := e.race
	n := 0
	mk := func(name string) *Term {
		n++
		full := fmt.Sprintf("|race!%s!%d!%d|", name, e.raceQ, n)
		e.sol.Declare(full, 16)
		return &Term{op: "var", bits: 16, name: full, id: int32(len(e.vars) + 100000 + n)}
	}
	e.raceQ++
	lt := func(x, y *Term) *Term { return app(0, "bvult", x, y) }
	e.sol.Push()
	defer e.sol.Pop()
	ta, tb := mk("ta"), mk("tb")
	type sect struct {
		m        *value
		shared   bool
		id       int
		acq, rel *Term
	}
	var sa, sb []sect
	for _, lh := range a.locks {
		s := sect{lh.m, lh.shared, lh.acq, mk("acqA"), mk("relA")}
		e.sol.Assert(tAnd(lt(s.acq, ta), lt(ta, s.rel)))
		sa = append(sa, s)
	}
	for _, lh := range b.locks {
		s := sect{lh.m, lh.shared, lh.acq, mk("acqB"), mk("relB")}
		e.sol.Assert(tAnd(lt(s.acq, tb), lt(tb, s.rel)))
		sb = append(sb, s)
	}
	// mutual exclusion per mutex (two read-locked sections of an RWMutex may overlap)
	for _, x := range sa {
		for _, y := range sb {
			if x.m == y.m && x.id != y.id && !(x.shared && y.shared) { // the same acquisition: both accesses sit in one critical section
				e.sol.Assert(tOr(lt(x.rel, y.acq), lt(y.rel, x.acq)))
			}
		}
	}
	// tasks: start < everything < end; dispatcher barrier: a notification that arrived earlier has returned
	// before a later message starts (tasks are numbered in arrival order)
	if a.task >= 0 && b.task >= 0 && a.task != b.task {
		sA, eA, sB, eB := mk("startA"), mk("endA"), mk("startB"), mk("endB")
		e.sol.Assert(tAnd(lt(sA, ta), lt(ta, eA)))
		e.sol.Assert(tAnd(lt(sB, tb), lt(tb, eB)))
		for _, s := range sa {
			e.sol.Assert(tAnd(lt(sA, s.acq), lt(s.rel, eA)))
		}
		for _, s := range sb {
			e.sol.Assert(tAnd(lt(sB, s.acq), lt(s.rel, eB)))
		}
		first, second := a.task, b.task
		fEnd, sStart := eA, sB
		if first > second {
			first, second = second, first
			fEnd, sStart = eB, sA
		}
		if r.tasks[first].notif {
			e.sol.Assert(lt(fEnd, sStart))
		}
	}
	// adjacency: |ta - tb| = 1 (no synchronisation event can sit between them)
	one := bvLit(1, 16)
	e.sol.Assert(tOr(tEq(app(16, "bvadd", ta, one), tb), tEq(app(16, "bvadd", tb, one), ta)))
	e.sol.Assert(tAnd(lt(ta, bvLit(60000, 16)), lt(tb, bvLit(60000, 16))))
	e.RaceQueries++
	return e.sol.Check() == "sat"
}

func init() {
	intrinsics["verifTask"] = func(e *Engine, _ *frame, _ *ssa.Function, a []value) value {
		r := e.race
		if r == nil || !r.on {
			return nil
		}
		name := a[0].(string)
		notif := e.truth(a[1])
		if name == "" {
			// all tasks are over: whatever follows happens after them
			for _, t := range r.tasks {
				r.vcs[0].join(r.vcs[t.tid])
				r.nvcs[0].join(r.nvcs[t.tid])
			}
			r.curTask, r.taskTid = -1, -1
			return nil
		}
		t := r.nextTid
		r.nextTid++
		vc := r.vcs[0].copy() // a task starts after the set-up code, and is unordered with the other tasks
		vc[t] = 1
		r.vcs[t] = vc
		nvc := r.nvcs[0].copy()
		nvc[t] = 1
		r.nvcs[t] = nvc
		r.tasks = append(r.tasks, taskInfo{name: name, notif: notif, tid: t})
		r.curTask, r.taskTid = len(r.tasks)-1, t
		return nil
	}
}

// eventsSummary is used in the evidence.
func (e *Engine) raceSummary() (events int, objs int) {
	if e.race == nil {
		return 0, 0
	}
	set := map[*mapv]bool{}
	for _, ev := range e.race.events {
		set[ev.obj] = true
	}
	return len(e.race.events), len(set)
}

var _ = sort.Ints
