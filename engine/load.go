package main

import (
	"fmt"
	"go/ast"
	"go/parser"
	"go/token"
	"os"
	"path/filepath"
	"strings"

	"golang.org/x/tools/go/packages"
	"golang.org/x/tools/go/ssa"
	"golang.org/x/tools/go/ssa/ssautil"
)

// harnessFile is one harness source with its placement directives.
type harnessFile struct {
	path      string // file under /verif/harness
	rel       string // package directory relative to the module root
	pkgName   string
	src       []byte
	overrides [][2]string // target=replacement (ssa function names)
	funcs     []string    // top-level VerifRun_*/VerifSetup_* functions
	virt      string      // overlay path
}

func readHarness(repo, path string, idx int) (*harnessFile, error) {
	src, err := os.ReadFile(path)
	if err != nil {
		return nil, err
	}
	h := &harnessFile{path: path, src: src}
	for _, line := range strings.Split(string(src), "\n") {
		line = strings.TrimSpace(line)
		if !strings.HasPrefix(line, "//") {
			if strings.HasPrefix(line, "package ") {
				break
			}
			continue
		}
		if strings.HasPrefix(line, "//gosx:package") {
			h.rel = strings.TrimSpace(strings.TrimPrefix(line, "//gosx:package"))
		}
		if strings.HasPrefix(line, "//gosx:override") {
			kv := strings.SplitN(strings.TrimSpace(strings.TrimPrefix(line, "//gosx:override")), "=", 2)
			if len(kv) != 2 {
				return nil, fmt.Errorf("%s: bad override directive %q", path, line)
			}
			h.overrides = append(h.overrides, [2]string{strings.TrimSpace(kv[0]), strings.TrimSpace(kv[1])})
		}
	}
	if h.rel == "" {
		return nil, fmt.Errorf("%s: missing //gosx:package directive", path)
	}
	fset := token.NewFileSet()
	f, err := parser.ParseFile(fset, path, src, 0)
	if err != nil {
		return nil, err
	}
	h.pkgName = f.Name.Name
	for _, d := range f.Decls {
		if fd, ok := d.(*ast.FuncDecl); ok && fd.Recv == nil && (strings.HasPrefix(fd.Name.Name, "VerifRun_") || strings.HasPrefix(fd.Name.Name, "VerifSetup_")) {
			h.funcs = append(h.funcs, fd.Name.Name)
		}
	}
	base := strings.TrimSuffix(filepath.Base(path), ".go")
	h.virt = filepath.Join(repo, h.rel, fmt.Sprintf("zz_verif_h%d_%s.go", idx, base))
	return h, nil
}

type Program struct {
	repo    string
	prog    *ssa.Program
	harness []*harnessFile
	byName  map[string]*ssa.Function
	loadS   float64
}

func goEnv() []string {
	return append(os.Environ(), "GOFLAGS=-mod=mod", "GOPROXY=off", "GOSUMDB=off", "GOTOOLCHAIN=local")
}

// loadProgram type-checks /repo's current working tree plus the harness overlay and builds SSA.
func loadProgram(repo string, hs []*harnessFile) (*Program, error) {
	overlay := map[string][]byte{}
	seenPkg := map[string]string{}
	for _, h := range hs {
		overlay[h.virt] = h.src
		if _, ok := seenPkg[h.rel]; !ok {
			seenPkg[h.rel] = h.pkgName
			overlay[filepath.Join(repo, h.rel, "zz_verif_intrinsics.go")] = []byte("package " + h.pkgName + "\n" + intrinsicDecls)
		}
	}
	cfg := &packages.Config{Mode: packages.LoadAllSyntax, Dir: repo, Overlay: overlay, Env: goEnv()}
	pkgs, err := packages.Load(cfg, "./...")
	if err != nil {
		return nil, err
	}
	var errs []string
	for _, p := range pkgs {
		for _, e := range p.Errors {
			errs = append(errs, e.Error())
		}
	}
	if len(errs) > 0 {
		return nil, fmt.Errorf("load errors:\n  %s", strings.Join(errs, "\n  "))
	}
	prog, _ := ssautil.AllPackages(pkgs, ssa.InstantiateGenerics)
	prog.Build()
	p := &Program{repo: repo, prog: prog, harness: hs, byName: map[string]*ssa.Function{}}
	for f := range ssautil.AllFunctions(prog) {
		p.byName[f.String()] = f
	}
	return p, nil
}

// findEntry locates a top-level function by name in the module packages.
func (p *Program) findEntry(name string) (*ssa.Package, *ssa.Function) {
	for _, pk := range p.prog.AllPackages() {
		if strings.HasPrefix(pk.Pkg.Path(), modulePrefix) {
			if f := pk.Func(name); f != nil {
				return pk, f
			}
		}
	}
	return nil, nil
}

func (p *Program) relOfPkg(pk *ssa.Package) string {
	return strings.TrimPrefix(strings.TrimPrefix(pk.Pkg.Path(), modulePrefix), "/")
}
