package main

import (
	"go/types"
	"strconv"
)

// Models of library functions for arguments with symbolic bytes. They fork through e.truth on
// byte-class tests, so with concrete bytes they are plain deterministic functions — which is how
// `gosx selftest` validates them exhaustively against the real library on short strings.

var u8T = types.Typ[types.Uint8]

func (e *Engine) inRange(c value, lo, hi byte) bool {
	switch c := c.(type) {
	case uint64:
		return c >= uint64(lo) && c <= uint64(hi)
	case *symv:
		return e.branch(tAnd(app(0, "bvuge", c.t, bvLit(uint64(lo), 8)), app(0, "bvule", c.t, bvLit(uint64(hi), 8))))
	}
	panic("inRange")
}

func (e *Engine) isByte(c value, b byte) bool { return e.byteEq(c, uint64(b)) }

func (e *Engine) isDigitV(c value) bool { return e.inRange(c, '0', '9') }

// digitTerm returns the numeric value of a digit byte already known to be a digit of the base, as a 64-bit term/value.
func digitVal(c value, base int) value {
	switch c := c.(type) {
	case uint64:
		switch {
		case c >= '0' && c <= '9':
			return c - '0'
		case c >= 'a' && c <= 'f':
			return c - 'a' + 10
		default:
			return c - 'A' + 10
		}
	case *symv:
		x := tExtend(c.t, 64, false)
		dec := app(64, "bvsub", x, bvLit('0', 64))
		if base == 10 {
			return &symv{dec}
		}
		lower := app(64, "bvsub", x, bvLit('a'-10, 64))
		upper := app(64, "bvsub", x, bvLit('A'-10, 64))
		isDec := app(0, "bvule", x, bvLit('9', 64))
		isLow := app(0, "bvuge", x, bvLit('a', 64))
		return &symv{tIte(isDec, dec, tIte(isLow, lower, upper))}
	}
	panic("digitVal")
}

// mParseInt models strconv.ParseInt / ParseUint for base 10 and 16, bitSize 64.
// Returns (value, ok). Overflow cannot occur within the digit-count limits enforced here; longer
// symbolic strings abort the path as unsupported.
func (e *Engine) mParseInt(s []value, base int, signed bool) (value, bool) {
	if len(s) == 0 {
		return uint64(0), false
	}
	i := 0
	neg := false
	if signed {
		if e.isByte(s[0], '+') {
			i = 1
		} else if e.isByte(s[0], '-') {
			i = 1
			neg = true
		}
	}
	if i == len(s) {
		return uint64(0), false
	}
	maxDigits := 18
	if base == 16 {
		maxDigits = 15
	}
	if len(s)-i > maxDigits {
		e.unsupported("strconv.Parse(U)int on a symbolic string with more digits than the overflow-free model covers")
	}
	var acc value = uint64(0)
	for ; i < len(s); i++ {
		c := s[i]
		okd := e.isDigitV(c)
		if !okd && base == 16 {
			okd = e.inRange(c, 'a', 'f') || e.inRange(c, 'A', 'F')
		}
		if !okd {
			return uint64(0), false
		}
		d := digitVal(c, base)
		ac, aok := acc.(uint64)
		dc, dok := d.(uint64)
		if aok && dok {
			acc = ac*uint64(base) + dc
		} else {
			acc = &symv{app(64, "bvadd", app(64, "bvmul", termOf(acc, 64), bvLit(uint64(base), 64)), termOf(d, 64))}
		}
	}
	if neg {
		switch a := acc.(type) {
		case uint64:
			acc = -a
		case *symv:
			acc = &symv{app(64, "bvneg", a.t)}
		}
	}
	return acc, true
}

// symfloat is an opaque float64 whose value depends on symbolic bytes; any use aborts the path as unsupported.
type symfloat struct{}

// mParseFloatSyntax models the syntax accepted by strconv.ParseFloat(s, 64) for strings without
// underscores, "inf"/"nan" or hex prefixes (callers filter those): [+-]? (digits [. digits?] | . digits) ([eE] [+-]? digits)?
// It returns (syntaxOK, expDigits) where expDigits is the number of exponent digits.
func (e *Engine) mParseFloatSyntax(s []value) (bool, int) {
	i := 0
	if i < len(s) && (e.isByte(s[i], '+') || e.isByte(s[i], '-')) {
		i++
	}
	nd := 0
	for i < len(s) && e.isDigitV(s[i]) {
		i++
		nd++
	}
	if i < len(s) && e.isByte(s[i], '.') {
		i++
		for i < len(s) && e.isDigitV(s[i]) {
			i++
			nd++
		}
	}
	if nd == 0 {
		return false, 0
	}
	ne := 0
	if i < len(s) && (e.isByte(s[i], 'e') || e.isByte(s[i], 'E')) {
		i++
		if i < len(s) && (e.isByte(s[i], '+') || e.isByte(s[i], '-')) {
			i++
		}
		for i < len(s) && e.isDigitV(s[i]) {
			i++
			ne++
		}
		if ne == 0 {
			return false, 0
		}
	}
	return i == len(s), ne
}

func (e *Engine) concBytes(s []value) []byte {
	bs := make([]byte, len(s))
	for i, c := range s {
		switch c := c.(type) {
		case uint64:
			bs[i] = byte(c)
		case *symv:
			bs[i] = byte(e.concretize(c.t))
		}
	}
	return bs
}

// mParseFloat: (value, ok). Strings whose range cannot be decided from the syntax alone
// (3 or more exponent digits, or more than 300 mantissa digits) are concretised byte by byte.
func (e *Engine) mParseFloat(sv value) (value, bool) {
	if s, ok := sv.(string); ok {
		f, err := strconv.ParseFloat(s, 64)
		return f, err == nil
	}
	s := strBytes(sv)
	// letters that start inf/nan/hex/underscore forms are outside the syntax model: concretise then
	for _, c := range s {
		if cc, ok := c.(uint64); ok {
			switch cc {
			case 'i', 'I', 'n', 'N', 'x', 'X', '_', 'p', 'P':
				f, err := strconv.ParseFloat(string(e.concBytes(s)), 64)
				return f, err == nil
			}
		}
	}
	for _, c := range s {
		if sc, ok := c.(*symv); ok {
			for _, b := range []byte("iInNxX_pP") {
				if e.byteEq(sc, uint64(b)) {
					f, err := strconv.ParseFloat(string(e.concBytes(s)), 64)
					return f, err == nil
				}
			}
		}
	}
	ok, ne := e.mParseFloatSyntax(s)
	if !ok {
		return float64(0), false
	}
	if ne >= 3 || len(s) > 200 {
		f, err := strconv.ParseFloat(string(e.concBytes(s)), 64)
		return f, err == nil
	}
	return symfloat{}, true
}

// mHexFloatRe models the fixed regex of parser_number.go:
// ^([0-9a-f]+(\.[0-9a-f]*)?|([0-9a-f]*\.[0-9a-f]+))(p[+\-]?[0-9]+)?$
const hexFloatPattern = `^([0-9a-f]+(\.[0-9a-f]*)?|([0-9a-f]*\.[0-9a-f]+))(p[+\-]?[0-9]+)?$`

func (e *Engine) mHexFloatRe(s []value) bool {
	isHex := func(c value) bool { return e.isDigitV(c) || e.inRange(c, 'a', 'f') }
	i := 0
	n1 := 0
	for i < len(s) && isHex(s[i]) {
		i++
		n1++
	}
	n2 := 0
	dot := false
	if i < len(s) && e.isByte(s[i], '.') {
		dot = true
		i++
		for i < len(s) && isHex(s[i]) {
			i++
			n2++
		}
	}
	if n1 == 0 && !(dot && n2 > 0) {
		return false
	}
	if i < len(s) && e.isByte(s[i], 'p') {
		i++
		if i < len(s) && (e.isByte(s[i], '+') || e.isByte(s[i], '-')) {
			i++
		}
		nd := 0
		for i < len(s) && e.isDigitV(s[i]) {
			i++
			nd++
		}
		if nd == 0 {
			return false
		}
	}
	return i == len(s)
}
