package main

import (
	"fmt"
	"go/types"

	"golang.org/x/tools/go/ssa"
)

// Cooperative goroutines. Every interpreted goroutine runs on its own real goroutine, but exactly one
// of them holds the baton at any time (all engine state is therefore still single-threaded). A thread
// runs until it blocks on a channel operation or ends; the scheduler then hands the baton to another
// runnable thread (worker threads before the main thread, lowest id first), and `select` over several
// ready cases is a choice point that — when the job enables schedule exploration — is forked over like
// any symbolic value, so every arrival order of worker results is explored.

type chanv struct {
	buf    []value
	cap    int
	closed bool
	elem   types.Type
}

const (
	opSend = iota + 1
	opRecv
	opSelect
	opWait
)

type selCase struct {
	dir int // opSend / opRecv
	ch  *chanv
	val value
}

type chanOp struct {
	kind   int
	ch     *chanv
	val    value
	cases  []selCase
	done   bool
	chosen int
	recvV  value
	recvOK bool
}

type threadKill struct{}

type gthread struct {
	id       int
	wake     chan struct{}
	done     bool
	blocked  bool
	op       *chanOp
	curFrame *frame
	depth    int
	killed   bool
}

// sync.WaitGroup: a counter per WaitGroup object and the threads parked in Wait
type wgState struct {
	count   int
	waiters []*gthread
}

func (e *Engine) wgOf(p *value) *wgState {
	if e.wgs == nil {
		e.wgs = map[*value]*wgState{}
	}
	st := e.wgs[p]
	if st == nil {
		st = &wgState{}
		e.wgs[p] = st
	}
	return st
}

func (e *Engine) wgAdd(p *value, delta int) {
	st := e.wgOf(p)
	st.count += delta
	if st.count < 0 {
		panic(targetPanic{iface{t: e.runtimeErrT, v: "sync: negative WaitGroup counter"}})
	}
	if st.count == 0 {
		for _, t := range st.waiters {
			if t.op != nil {
				e.unblock(t)
			}
		}
		st.waiters = nil
	}
}

func (e *Engine) wgWait(p *value) {
	st := e.wgOf(p)
	if st.count == 0 {
		return
	}
	st.waiters = append(st.waiters, e.cur)
	e.block(&chanOp{kind: opWait})
}

func (e *Engine) resetThreads() {
	e.wgs = nil
	e.threads = e.threads[:0]
	e.mainT = &gthread{id: 0, wake: make(chan struct{}, 1)}
	e.cur = e.mainT
	e.threads = append(e.threads, e.mainT)
	e.abort = nil
}

// spawn creates a runnable goroutine for fn(args).
func (e *Engine) spawn(fn value, args []value) {
	g := &gthread{id: len(e.threads), wake: make(chan struct{}, 1)}
	e.threads = append(e.threads, g)
	e.Goroutines++
	e.raceSpawn(g)
	go func() {
		<-g.wake
		defer func() {
			r := recover()
			g.done = true
			if r != nil {
				if _, kill := r.(threadKill); kill {
					e.killAck <- struct{}{}
					return
				}
				// pathEnd / targetPanic / engine bug raised on a worker goroutine: abort the path on the main thread
				if e.abort == nil {
					e.abort = r
				}
			}
			if g.killed {
				e.killAck <- struct{}{}
				return
			}
			e.yieldFrom(g, true)
		}()
		if g.killed {
			panic(threadKill{})
		}
		e.curFrame, e.depth = nil, 0
		e.call(nil, fn, args)
	}()
}

// pickNext chooses the next thread to run: runnable workers first (lowest id), the main thread last.
func (e *Engine) pickNext() *gthread {
	if e.abort != nil {
		return e.mainT
	}
	for _, t := range e.threads[1:] {
		if !t.done && !t.blocked {
			return t
		}
	}
	if !e.mainT.done && !e.mainT.blocked {
		return e.mainT
	}
	return nil
}

// yieldFrom hands the baton from thread g to another thread; if g is not finished it waits to be rescheduled.
func (e *Engine) yieldFrom(g *gthread, finished bool) {
	g.curFrame, g.depth = e.curFrame, e.depth
	next := e.pickNext()
	if next == nil {
		// nobody can run: deadlock (the Go runtime would abort the process)
		if e.abort == nil {
			e.abort = targetPanic{iface{t: e.runtimeErrT, v: "all goroutines are asleep - deadlock!"}}
		}
		next = e.mainT
	}
	if next == g {
		if e.abort != nil && g == e.mainT {
			r := e.abort
			e.abort = nil
			panic(r)
		}
		return
	}
	e.cur = next
	next.wake <- struct{}{}
	if finished {
		return
	}
	<-g.wake
	e.cur = g
	e.curFrame, e.depth = g.curFrame, g.depth
	if g.killed {
		panic(threadKill{})
	}
	if e.abort != nil && g == e.mainT {
		r := e.abort
		e.abort = nil
		panic(r)
	}
}

// block suspends the current thread on op until some other thread completes it.
func (e *Engine) block(op *chanOp) {
	g := e.cur
	g.op = op
	g.blocked = true
	for !op.done {
		e.yieldFrom(g, false)
		if !op.done && !g.blocked {
			// spurious scheduling (only possible for main under abort)
			g.blocked = true
		}
	}
	g.op = nil
}

func (e *Engine) unblock(t *gthread) {
	t.blocked = false
	t.op.done = true
}

// findReceiver returns a thread blocked receiving on ch (plain recv or a select recv case).
func (e *Engine) findBlocked(ch *chanv, dir int) (*gthread, int) {
	for _, t := range e.threads {
		if t.done || !t.blocked || t.op == nil || t.op.done {
			continue
		}
		switch t.op.kind {
		case opRecv, opSend:
			if t.op.kind == dir && t.op.ch == ch {
				return t, -1
			}
		case opSelect:
			for i, c := range t.op.cases {
				if c.dir == dir && c.ch == ch {
					return t, i
				}
			}
		}
	}
	return nil, -1
}

func (e *Engine) chanSend(ch *chanv, v value) {
	if ch == nil {
		e.block(&chanOp{kind: opSend}) // blocks forever
		return
	}
	if ch.closed {
		panic(targetPanic{iface{t: e.runtimeErrT, v: "send on closed channel"}})
	}
	if t, ci := e.findBlocked(ch, opRecv); t != nil {
		t.op.recvV, t.op.recvOK, t.op.chosen = v, true, ci
		e.raceSync(e.curTid(), e.tidOfThread(t))
		e.raceSync(e.tidOfThread(t), e.curTid())
		e.unblock(t)
		return
	}
	if len(ch.buf) < ch.cap {
		ch.buf = append(ch.buf, v)
		return
	}
	e.block(&chanOp{kind: opSend, ch: ch, val: v})
}

// tryRecv performs a receive if it can complete now.
func (e *Engine) tryRecv(ch *chanv) (value, bool, bool) {
	if len(ch.buf) > 0 {
		v := ch.buf[0]
		ch.buf = append([]value(nil), ch.buf[1:]...)
		if t, _ := e.findBlocked(ch, opSend); t != nil && t.op.kind == opSend {
			ch.buf = append(ch.buf, t.op.val)
			e.unblock(t)
		}
		return v, true, true
	}
	if t, ci := e.findBlocked(ch, opSend); t != nil {
		var v value
		if ci < 0 {
			v = t.op.val
		} else {
			v = t.op.cases[ci].val
			t.op.chosen = ci
		}
		e.raceSync(e.tidOfThread(t), e.curTid())
		e.raceSync(e.curTid(), e.tidOfThread(t))
		e.unblock(t)
		return v, true, true
	}
	if ch.closed {
		return zero(ch.elem), false, true
	}
	return nil, false, false
}

func (e *Engine) chanRecv(ch *chanv) (value, bool) {
	if ch == nil {
		e.block(&chanOp{kind: opRecv})
		return nil, false
	}
	if v, ok, done := e.tryRecv(ch); done {
		return v, ok
	}
	op := &chanOp{kind: opRecv, ch: ch}
	e.block(op)
	return op.recvV, op.recvOK
}

func (e *Engine) chanClose(ch *chanv) {
	if ch == nil {
		panic(targetPanic{iface{t: e.runtimeErrT, v: "close of nil channel"}})
	}
	if ch.closed {
		panic(targetPanic{iface{t: e.runtimeErrT, v: "close of closed channel"}})
	}
	ch.closed = true
	for {
		t, ci := e.findBlocked(ch, opRecv)
		if t == nil {
			break
		}
		t.op.recvV, t.op.recvOK, t.op.chosen = zero(ch.elem), false, ci
		e.unblock(t)
	}
}

// chooseIndex picks one of n alternatives: a forked choice when the job explores schedules, else the first.
func (e *Engine) chooseIndex(n int) int {
	if n <= 1 || !e.sh.exploreSched || e.schedOff {
		return 0
	}
	if e.sh.schedBudget > 0 && e.schedForks >= e.sh.schedBudget {
		return 0 // beyond the per-path budget of explored scheduling choices: first ready case
	}
	e.schedForks++
	s := e.freshRange("sched", 64, 0, uint64(n-1))
	return int(e.concretize(s.t))
}

// chanSelect implements a blocking select (no default case) over send/recv cases.
func (e *Engine) chanSelect(cases []selCase) (chosen int, recv value, recvOK bool) {
	for {
		// let every runnable worker reach its next blocking point first, so that the set of ready cases is maximal
		if e.cur == e.mainT {
			e.yieldFrom(e.cur, false)
		}
		var ready []int
		for i, c := range cases {
			if c.ch == nil {
				continue
			}
			if c.dir == opRecv {
				if len(c.ch.buf) > 0 || c.ch.closed {
					ready = append(ready, i)
				} else if t, _ := e.findBlocked(c.ch, opSend); t != nil {
					ready = append(ready, i)
				}
			} else {
				if t, _ := e.findBlocked(c.ch, opRecv); t != nil || len(c.ch.buf) < c.ch.cap {
					ready = append(ready, i)
				}
			}
		}
		if len(ready) > 0 {
			i := ready[e.chooseIndex(len(ready))]
			c := cases[i]
			if c.dir == opRecv {
				v, ok, _ := e.tryRecv(c.ch)
				return i, v, ok
			}
			e.chanSend(c.ch, c.val)
			return i, nil, false
		}
		op := &chanOp{kind: opSelect, cases: cases}
		e.block(op)
		c := cases[op.chosen]
		if c.dir == opRecv {
			return op.chosen, op.recvV, op.recvOK
		}
		return op.chosen, nil, false
	}
}

// killThreads ends every unfinished worker goroutine of the current path.
func (e *Engine) killThreads() {
	for _, t := range e.threads[1:] {
		if t.done {
			continue
		}
		t.killed = true
		t.wake <- struct{}{}
		<-e.killAck
		t.done = true
	}
	e.threads = e.threads[:0]
}

// ---- reflect shims (only what the worker pools use)

func reflectValueOf(v value) value {
	return structure{v, nil, uint64(1)}
}

func reflectPayload(v value) value {
	s, ok := v.(structure)
	if !ok || len(s) == 0 {
		panic("reflect shim: not a reflect.Value produced by the shim")
	}
	return s[0]
}

func init() {
	natives["reflect.ValueOf"] = func(e *Engine, _ *frame, _ *ssa.Function, a []value) value {
		return reflectValueOf(a[0])
	}
	natives["(reflect.Value).Interface"] = func(e *Engine, _ *frame, _ *ssa.Function, a []value) value {
		p := reflectPayload(a[0])
		if p == nil {
			return iface{}
		}
		return p
	}
	natives["reflect.Select"] = func(e *Engine, _ *frame, fn *ssa.Function, a []value) value {
		cs := a[0].([]value)
		cases := make([]selCase, len(cs))
		for i, c := range cs {
			st := c.(structure) // SelectCase{Dir, Chan, Send}
			dir := st[0].(uint64)
			var ch *chanv
			if p := reflectPayload(st[1]); p != nil {
				if itf, ok := p.(iface); ok {
					ch, _ = itf.v.(*chanv)
				}
			}
			switch dir {
			case 1: // SelectSend
				var sv value
				if p := reflectPayload(st[2]); p != nil {
					if itf, ok := p.(iface); ok {
						sv = itf.v
					}
				}
				cases[i] = selCase{dir: opSend, ch: ch, val: sv}
			case 2: // SelectRecv
				cases[i] = selCase{dir: opRecv, ch: ch}
			default:
				e.unsupported("reflect.Select with a default case")
			}
		}
		chosen, v, ok := e.chanSelect(cases)
		var rv value = structure{nil, nil, uint64(0)}
		if cases[chosen].dir == opRecv {
			rv = reflectValueOf(iface{t: cases[chosen].ch.elem, v: v})
		}
		return tuple{uint64(chosen), rv, ok}
	}
	natives["runtime.NumCPU"] = func(e *Engine, _ *frame, _ *ssa.Function, a []value) value {
		if v, ok := e.sh.params["NCPU"]; ok {
			return uint64(v)
		}
		return uint64(0)
	}
}

var _ = fmt.Sprint

// tidOfThread maps an interpreted goroutine to its logical thread id (access tracing).
func (e *Engine) tidOfThread(t *gthread) int {
	if e.race == nil {
		return 0
	}
	if t == e.mainT {
		if e.race.taskTid >= 0 {
			return e.race.taskTid
		}
		return 0
	}
	return e.race.tidOf[t]
}
