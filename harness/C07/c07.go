//gosx:package langserver/check
package check

import (
	"luahelper-lsp/langserver/check/common"
	"luahelper-lsp/langserver/check/compiler/lexer"
	"strconv"
)

// C07: undefined-variable (type 2, or 3 when the only definition comes later at top level of the same
// file) and unused-local (type 4) diagnostics agree with the bindings computed by the reference binder.
// The full HandleCheck pipeline runs (all three passes through the real worker pools) on files in the
// virtual file system, all client switches on.

var c07templates = [][]string{
	/* 0 */ {"local \x01 = 1\ng = \x02\n"},
	/* 1 */ {"local \x01 = 1\nlocal f = function() return \x02 end\ng = f\n"},
	/* 2 */ {"local \x01 = 1\nrepeat local \x02 = 2 until \x03\ng = \x01\n"},
	/* 3 */ {"g = \x01\n\x02 = 1\n"},
	/* 4 */ {"g = \x01\n", "\x02 = 1\n"},
	/* 5 */ {"local function f(\x01)\n return \x02\nend\ng = f\n"},
	/* 6 */ {"for \x01 = 1, 2 do g = \x02 end\nfor \x03, \x04 in pairs(t) do g = \x03 end\nt = 1\n"},
	/* 7 */ {"local \x01 = 1\n\x01 = 2\nlocal \x02 = 3\ng = \x02\n"},
	/* 8 */ {"local \x01 = 1\ndo local \x02 = 2 g = \x03 end\ng = \x01\n"},
	/* 9 */ {"local \x01, \x02 = 1, 2\ng = \x01\n"},
	/* 10 */ {"local \x01 = 1\nfor \x02, \x03 in ipairs(\x04) do g = \x02 end\n"},
	/* 11 */ {"for \x01, \x02 in pairs(\x03) do g = \x01 end\n"},
	/* 12 */ {"local \x01 = 1\nlocal \x02 = \x01\nlocal \x03 = function() \x04 = 1 end\ng = \x02\n"},
	/* 13 */ {"local \x01 = 1\ng = \x01\nlocal \x02 = 2\nlocal \x03 = 3\nh = \x03\n"},
	/* 14 */ {"local \x01 = 1\ng = \x01\nlocal \x02 = 2\n\x02 = 3\n"},
	/* 15 */ {"do\n local \x01 = 1\n g = \x01\n local \x02 = 2\nend\nlocal \x03 <close> = 1\nlocal \x04 = 2\n"},
	// two modules started from the same template: the same findings at the same places in both files
	/* 16 */ {"local \x01 = 1\nlocal \x02 = 2\ng = \x03\nh = \x02\n", "local \x01 = 1\nlocal \x02 = 2\ng = \x03\nh = \x02\n"},
	// an elseif condition is outside the block of the branch before it
	/* 17 */ {"if true then\n local \x01 = 1\n g = \x01\nelseif \x02 then\n h = 1\nelseif \x01 then\n k = 2\nend\n"},
	/* 18 */ {"local \x01 = 1\nif true then\n local \x02 = 2\n g = \x02\nelseif \x03 then\n local \x01 = 3\n h = \x01\nelseif \x01 then\n k = 1\nend\n"},
}

type c07diag struct {
	typ  int
	file int
	loc  lexer.Location
}

func c07key(d c07diag) string {
	return strconv.Itoa(d.typ) + "@" + strconv.Itoa(d.file) + ":" + strconv.Itoa(d.loc.StartLine) + ":" + strconv.Itoa(d.loc.StartColumn) + "-" + strconv.Itoa(d.loc.EndColumn)
}

func VerifRun_C07() {
	root := verifVFSRoot()
	c08workspaceRoot(root)
	ti := verifConcretize(verifRange("template", verifParam("TMIN"), verifParam("TMAX")))
	var t []string
	if verifParam("TSET") == 1 {
		t = []string{vpTemplates[ti]}
	} else {
		t = c07templates[ti]
	}
	files := make([]string, len(t))
	srcs := make([][]byte, len(t))
	var names [10]byte
	var have [10]bool
	for i := range t {
		files[i] = root + "/" + string([]byte{'a' + byte(i)}) + ".lua"
		b := []byte(t[i])
		for j, c := range b {
			if c >= 1 && c <= 9 {
				if !have[c] {
					names[c] = verifByteIn("n"+string([]byte{'0' + c}), "abc")
					have[c] = true
				}
				b[j] = names[c]
			}
		}
		srcs[i] = b
		verifVFSPut(files[i], b)
	}
	p := CreateAllProject(files, nil, nil)
	p.HandleCheck()
	errs := p.GetAllFileErrorInfo()
	var got, got17 []c07diag
	for fi, f := range files {
		for _, e := range errs[f] {
			if e.ErrType == common.CheckErrorNoDefine || e.ErrType == common.CheckErrorCycleDefine || e.ErrType == common.CheckErrorLocalNoUse {
				got = append(got, c07diag{int(e.ErrType), fi, e.Loc})
			}
			if e.ErrType == common.CheckErrorNoUseAssign {
				got17 = append(got17, c07diag{17, fi, e.Loc})
			}
		}
	}
	// oracle
	fs := make([]*resultsFileStruct, 0)
	_ = fs
	r := c07bind(p, files)
	// oracle: groups of acceptable locations; LuaHelper reports identical messages once per file, so one
	// report per (type, file, name) group suffices. `must` groups have to be reported, `may` groups are allowed.
	type group struct {
		typ, file int
		name      string
		locs      []lexer.Location
		must      bool
		class     string
	}
	var groups []*group
	add := func(typ, file int, name string, loc lexer.Location, must bool, class string) {
		for _, g := range groups {
			if g.typ == typ && g.file == file && g.name == name && g.must == must {
				g.locs = append(g.locs, loc)
				return
			}
		}
		groups = append(groups, &group{typ, file, name, []lexer.Location{loc}, must, class})
	}
	for i := range r.occs {
		o := &r.occs[i]
		if o.kind != rbOccRead || o.decl >= 0 || o.loc.StartLine == 0 {
			continue
		}
		if (o.name == "pairs" || o.name == "ipairs") && len(r.globalDefs(o.name)) == 0 {
			continue // built-in
		}
		class := ""
		if c07tainted(o) {
			class = "C07-initialiser"
		}
		defs := r.globalDefs(o.name)
		if len(defs) == 0 {
			add(2, o.file, o.name, o.loc, true, class)
			continue
		}
		// type 3: every definition is in the same file and later than the read; required when they are all at top level
		allLater, allTop := true, true
		for _, di := range defs {
			d := &r.occs[di]
			later := d.loc.StartLine > o.loc.StartLine || (d.loc.StartLine == o.loc.StartLine && d.loc.StartColumn > o.loc.StartColumn)
			if d.file != o.file || !later {
				allLater = false
			}
			if d.blk != 1 {
				allTop = false
			}
		}
		if allLater {
			add(3, o.file, o.name, o.loc, allTop, class)
		}
	}
	for i := range r.decls {
		d := &r.decls[i]
		if d.kind != rbLocal || d.reads > 0 || d.name == "_" || d.attr == 1 || d.funcValue { // attr 1 = <close> (documented exemption)
			continue
		}
		class := ""
		if d.dupInStat {
			class = "C07-duplicate-name-in-statement"
		}
		for j := range r.occs {
			if r.occs[j].name == d.name && c07tainted(&r.occs[j]) {
				class = "C07-initialiser"
			}
		}
		add(4, d.file, d.name+"#"+strconv.Itoa(i), d.loc, true, class)
	}
	verifReach("checked")
	digest := ""
	for _, g := range got {
		digest += c07key(g) + " "
	}
	verifObserve("diagnostics", digest)
	for _, w := range groups {
		if !w.must {
			continue
		}
		found := false
		for _, g := range got {
			for _, l := range w.locs {
				if g.typ == w.typ && g.file == w.file && locEq(g.loc, l) {
					found = true
				}
			}
		}
		if !found {
			verifViolation(w.class, "expected diagnostic of type "+strconv.Itoa(w.typ)+" is not reported")
		}
	}
	for _, g := range got {
		found := false
		for _, w := range groups {
			for _, l := range w.locs {
				if g.typ == w.typ && g.file == w.file && locEq(g.loc, l) {
					found = true
				}
			}
		}
		if !found {
			class := ""
			for j := range r.occs {
				o := &r.occs[j]
				if o.file == g.file && locEq(o.loc, g.loc) && c07tainted(o) {
					class = "C07-initialiser"
				}
			}
			for j := range r.decls {
				d := &r.decls[j]
				if d.file == g.file && locEq(d.loc, g.loc) {
					for k := range r.occs {
						if r.occs[k].name == d.name && c07tainted(&r.occs[k]) {
							class = "C07-initialiser"
						}
					}
				}
			}
			verifViolation(class, "diagnostic of type "+strconv.Itoa(g.typ)+" is reported although the bindings do not call for it")
		}
	}
}

type resultsFileStruct struct{}


func c07bind(p *AllProject, files []string) *rbT {
	fsv := make([]*resultsFS, 0)
	_ = fsv
	r := &rbT{}
	for i, n := range files {
		f := p.getVailidCacheFileStruct(n)
		r.file = i
		r.stack = nil
		r.depth = 0
		r.push()
		r.stats(f.FileResult.Block)
		r.pop()
	}
	return r
}

type resultsFS struct{}

// c07tainted: the read sits in the initialiser of a local statement that declares the same name — the only
// C05 defect class that the analysis passes share with the position-based resolver on the unchanged tree.
func c07tainted(o *rbOcc) bool { return o.ctxKind == 1 && o.inCtxOf(o.name) }
