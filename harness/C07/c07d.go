//gosx:package langserver/check
package check

import (
	"luahelper-lsp/langserver/check/common"
)

// C07-d: project mode (an entry file is configured). A script that is not reachable from the entry file is
// checked against the globals of the modules it requires itself; whatever the order of its require lines -
// also when some of those modules were already collected through another module - a global that one of them
// defines is never reported as undefined, and a name nobody defines is.
func VerifRun_C07d() {
	root := verifVFSRoot()
	c08workspace(root)
	mainF, app, logF, models, tool := root+"/main.lua", root+"/app.lua", root+"/log.lua", root+"/models.lua", root+"/tools/report.lua"
	verifVFSPut(mainF, []byte("require(\"app\")\n"))
	verifVFSPut(app, []byte("require(\"log\")\nApp = { name = \"a\" }\n"))
	verifVFSPut(logF, []byte("Log = { level = 1 }\n"))
	verifVFSPut(models, []byte("Models = { user = 1 }\n"))
	reqs := []string{"require(\"app\")\n", "require(\"log\")\n", "require(\"models\")\n"}
	perm := [][3]int{{0, 1, 2}, {0, 2, 1}, {1, 0, 2}, {1, 2, 0}, {2, 0, 1}, {2, 1, 0}}[verifConcretize(verifRange("order", 0, 5))]
	src := ""
	for _, k := range perm {
		src += reqs[k]
	}
	src += "local function show()\n return Models.user, Log.level, App.name\nend\nprint(Models, Log, App, NoSuchGlobal, show)\n"
	verifVFSPut(tool, []byte(src))
	files := []string{mainF, app, logF, models, tool}
	p := CreateAllProject(files, []string{mainF}, nil)
	p.HandleCheck()
	verifReach("checked")
	sawMissing := false
	for _, e := range p.GetAllFileErrorInfo()[tool] {
		if e.ErrType != common.CheckErrorNoDefine {
			continue
		}
		bad := ""
		for _, n := range []string{"Models", "Log", "App"} {
			for i := 0; i+len(n) <= len(e.ErrStr); i++ {
				if e.ErrStr[i:i+len(n)] == n {
					bad = n
				}
			}
		}
		if bad != "" {
			verifObserve("reported", e.ErrStr)
			verifViolation("", "a global defined by a module the script requires is reported as undefined")
		}
		for i := 0; i+12 <= len(e.ErrStr); i++ {
			if e.ErrStr[i:i+12] == "NoSuchGlobal" {
				sawMissing = true
			}
		}
	}
	if !sawMissing {
		verifViolation("", "a name that no file of the workspace defines is not reported as undefined")
	}
}
