//gosx:package langserver/check
package check

import "luahelper-lsp/langserver/check/common"

// C07-c (luahelper.json mode): configured-ignored names are not reported undefined, and only they:
// IgnoreModules (exact names), IgnoreWildcardModules (glob patterns), IgnoreFileVars (per-file names).
// The name read in a.lua is solver-chosen among names that the lists cover and near misses.
var c07jsonNames = []string{"hive", "hivx", "cc_w", "cd_w", "gm1", "gm12", "bb", "zz"}
var c07jsonIgnored = []bool{true, false, true, false, true, false, true, false}

func VerifRun_C07json() {
	root := verifVFSRoot()
	c08workspace(root)
	cfg := "{\n \"BaseDir\": \"./\",\n \"ShowWarnFlag\": 1,\n \"IgnoreModules\": [\"hive\"],\n \"IgnoreWildcardModules\": [\"cc_*\", \"g?1\"],\n \"IgnoreFileVars\": [{\"File\": \"a.lua\", \"Vars\": [\"bb\"]}]\n}\n"
	verifVFSPut(root+"/luahelper.json", []byte(cfg))
	ni := verifConcretize(verifRange("name", 0, len(c07jsonNames)-1))
	a, b := root+"/a.lua", root+"/b.lua"
	verifVFSPut(a, []byte("print("+c07jsonNames[ni]+")\n"))
	verifVFSPut(b, []byte("print(bb)\n"))
	if err := common.GConfig.ReadConfig(root, "luahelper.json", nil, nil, nil); err != nil {
		verifViolation("", "a well-formed luahelper.json is rejected")
		return
	}
	p := CreateAllProject([]string{a, b}, nil, nil)
	p.HandleCheck()
	verifReach("analysed")
	count := func(f string) int {
		n := 0
		for _, e := range p.GetAllFileErrorInfo()[f] {
			if e.ErrType == common.CheckErrorNoDefine || e.ErrType == common.CheckErrorCycleDefine {
				n++
			}
		}
		return n
	}
	if c07jsonIgnored[ni] && count(a) > 0 {
		verifViolation("", "a configured-ignored name (IgnoreModules / IgnoreWildcardModules / IgnoreFileVars) is reported undefined")
	}
	if !c07jsonIgnored[ni] && count(a) == 0 {
		verifViolation("", "a name that no ignore list covers and nothing defines is not reported undefined")
	}
	if count(b) == 0 {
		verifViolation("", "a per-file ignore rule silences the name in another file")
	}
}
