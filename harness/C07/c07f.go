//gosx:package langserver/check
package check

import "luahelper-lsp/langserver/check/common"

// C07-f (luahelper.json mode, IgnoreFileNameVarFlag): a name equal to the base name of a workspace file is
// configured-ignored exactly while such a file exists.  main.lua reads three unbound names; modules/<name>.lua
// exists for two of them at start-up.  A solver-chosen history of EVENTS watched-file events deletes / creates
// those files through HandleFileEventChanges (real pools); after every event line i of main.lua carries an
// undefined-variable diagnostic iff the flag is off or no <name_i>.lua exists NOW.  The oracle is direct (not a
// fresh analysis: the ignore set lives in the process-wide configuration, which a fresh project would share).
var c07fNames = []string{"player", "inventory", "ghost"}

func VerifRun_C07f() {
	root := verifVFSRoot()
	c08workspace(root)
	flagOn := verifBool("IgnoreFileNameVarFlag")
	flag := "0"
	if flagOn {
		flag = "1"
	}
	verifVFSPut(root+"/luahelper.json", []byte("{\n \"BaseDir\": \"./\",\n \"ShowWarnFlag\": 1,\n \"IgnoreFileNameVarFlag\": "+flag+"\n}\n"))
	mainF := root + "/main.lua"
	verifVFSPut(mainF, []byte("print(player)\nprint(inventory)\nprint(ghost)\n"))
	mod := []string{root + "/modules/player.lua", root + "/modules/inventory.lua", root + "/modules/ghost.lua"}
	exists := []bool{true, true, false}
	files := []string{mainF}
	for i, m := range mod {
		if exists[i] {
			verifVFSPut(m, []byte("local M = {}\nreturn M\n"))
			files = append(files, m)
		}
	}
	if err := common.GConfig.ReadConfig(root, "luahelper.json", nil, nil, nil); err != nil {
		verifViolation("", "a well-formed luahelper.json is rejected")
		return
	}
	p := CreateAllProject(files, nil, nil)
	p.HandleCheck()
	check := func() bool {
		var reported [3]bool
		for _, e := range p.GetAllFileErrorInfo()[mainF] {
			if e.ErrType == common.CheckErrorNoDefine && e.Loc.StartLine >= 1 && e.Loc.StartLine <= 3 {
				reported[e.Loc.StartLine-1] = true
			}
		}
		for i := range c07fNames {
			ignored := flagOn && exists[i]
			if ignored && reported[i] {
				verifViolation("", "a name equal to the base name of a workspace file is reported undefined although IgnoreFileNameVarFlag is set")
				return false
			}
			if !ignored && !reported[i] {
				verifViolation("", "a read of a name that nothing defines and no ignore rule covers (no workspace file of that name exists now / the flag is off) is not reported undefined")
				return false
			}
		}
		return true
	}
	verifReach("analysed")
	if !check() {
		return
	}
	for k := 0; k < verifParam("EVENTS"); k++ {
		i := verifConcretize(verifRange("file", 0, 2))
		if exists[i] {
			verifVFSDel(mod[i])
			p.HandleFileEventChanges([]FileEventStruct{{StrFile: mod[i], Type: FileEventDeleted}})
		} else {
			verifVFSPut(mod[i], []byte("local M = {}\nreturn M\n"))
			p.HandleFileEventChanges([]FileEventStruct{{StrFile: mod[i], Type: FileEventCreated}})
		}
		exists[i] = !exists[i]
		verifReach("after-event")
		if !check() {
			return
		}
	}
}
