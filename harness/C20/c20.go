//gosx:package langserver/check
package check

import (
	"luahelper-lsp/langserver/check/common"
	"luahelper-lsp/langserver/check/compiler/ast"
	"luahelper-lsp/langserver/check/compiler/lexer"
	"strconv"
)

// C20: the purely syntactic checks (types 5, 7, 8, 13, 14, 15, 16, 19, 20, 21) fire exactly where an
// independent matcher over the real AST finds the documented pattern. Templates put one statement per
// line; the distinguishing bytes (operand names, operator characters, literal characters) are symbolic.

type c20hit struct{ typ, line int }

type c20m struct {
	hits, optional []c20hit
	src            []byte // the program text: numeric literals are classified from their spelling, not from the parser's node kind
	badLiteral     bool
}

// the spelling of a numeral decides whether it is a float: a decimal numeral with a '.' or an exponent,
// a hexadecimal one with a '.' or a binary exponent (Lua 5.3 manual 3.1)
func c20spelledFloat(t string) bool {
	hex := len(t) > 1 && t[0] == '0' && (t[1] == 'x' || t[1] == 'X')
	for i := 0; i < len(t); i++ {
		c := t[i]
		if c == '.' || (hex && (c == 'p' || c == 'P')) || (!hex && (c == 'e' || c == 'E')) {
			return true
		}
	}
	return false
}

func (m *c20m) textAt(l lexer.Location) string {
	if m.src == nil || l.StartLine != l.EndLine {
		return ""
	}
	line, col, a, b := 1, 0, -1, -1
	for i := 0; i <= len(m.src); i++ {
		if line == l.StartLine && col == l.StartColumn {
			a = i
		}
		if line == l.StartLine && col == l.EndColumn {
			b = i
		}
		if i < len(m.src) && m.src[i] == '\n' {
			line++
			col = 0
		} else {
			col++
		}
	}
	if a < 0 || b <= a {
		return ""
	}
	return string(m.src[a:b])
}

func (m *c20m) unwrittenTrue(e ast.Exp) bool {
	t, ok := e.(*ast.TrueExp)
	return ok && m.textAt(t.Loc) != "true"
}

func (m *c20m) literal(l lexer.Location, isFloat bool) {
	if m.src == nil || l.StartLine != l.EndLine {
		return
	}
	line, col, a, b := 1, 0, -1, -1
	for i := 0; i <= len(m.src); i++ {
		if line == l.StartLine && col == l.StartColumn {
			a = i
		}
		if line == l.StartLine && col == l.EndColumn {
			b = i
		}
		if i < len(m.src) && m.src[i] == '\n' {
			line++
			col = 0
		} else {
			col++
		}
	}
	if a < 0 || b <= a {
		return
	}
	if c20spelledFloat(string(m.src[a:b])) != isFloat {
		m.badLiteral = true
	}
}

// intLiteral: a numeral written with decimal digits only has the value those digits spell in base ten
// (the syntax tree's value is what the checks compare; it must not be trusted blindly)
func (m *c20m) intLiteral(l lexer.Location, val int64) {
	txt := m.textAt(l)
	if txt == "" || len(txt) > 15 {
		return
	}
	var v int64
	for i := 0; i < len(txt); i++ {
		if txt[i] < '0' || txt[i] > '9' {
			return
		}
		v = v*10 + int64(txt[i]-'0')
	}
	if v != val {
		m.badLiteral = true
	}
}

func (m *c20m) hit(typ int, l lexer.Location) { m.hits = append(m.hits, c20hit{typ, l.StartLine}) }

// structural equality of two expressions (independent of LuaHelper's CompExp)
func c20same(a, b ast.Exp) bool {
	switch x := a.(type) {
	case *ast.NameExp:
		y, ok := b.(*ast.NameExp)
		return ok && x.Name == y.Name
	case *ast.IntegerExp:
		y, ok := b.(*ast.IntegerExp)
		return ok && x.Val == y.Val
	case *ast.StringExp:
		y, ok := b.(*ast.StringExp)
		return ok && x.Str == y.Str
	case *ast.TrueExp:
		_, ok := b.(*ast.TrueExp)
		return ok
	case *ast.FalseExp:
		_, ok := b.(*ast.FalseExp)
		return ok
	case *ast.NilExp:
		_, ok := b.(*ast.NilExp)
		return ok
	case *ast.ParensExp:
		y, ok := b.(*ast.ParensExp)
		return ok && c20same(x.Exp, y.Exp)
	case *ast.TableAccessExp:
		y, ok := b.(*ast.TableAccessExp)
		return ok && c20same(x.PrefixExp, y.PrefixExp) && c20same(x.KeyExp, y.KeyExp)
	case *ast.BinopExp:
		y, ok := b.(*ast.BinopExp)
		return ok && x.Op == y.Op && c20same(x.Exp1, y.Exp1) && c20same(x.Exp2, y.Exp2)
	case *ast.UnopExp:
		y, ok := b.(*ast.UnopExp)
		return ok && x.Op == y.Op && c20same(x.Exp, y.Exp)
	case *ast.FuncCallExp:
		y, ok := b.(*ast.FuncCallExp)
		if !ok || !c20same(x.PrefixExp, y.PrefixExp) || len(x.Args) != len(y.Args) {
			return false
		}
		if (x.NameExp == nil) != (y.NameExp == nil) || (x.NameExp != nil && x.NameExp.Str != y.NameExp.Str) {
			return false
		}
		for i := range x.Args {
			if !c20same(x.Args[i], y.Args[i]) {
				return false
			}
		}
		return true
	}
	return false
}

func c20hasCall(e ast.Exp) bool {
	switch x := e.(type) {
	case *ast.FuncCallExp:
		return true
	case *ast.ParensExp:
		return c20hasCall(x.Exp)
	case *ast.TableAccessExp:
		return c20hasCall(x.PrefixExp) || c20hasCall(x.KeyExp)
	case *ast.BinopExp:
		return c20hasCall(x.Exp1) || c20hasCall(x.Exp2)
	case *ast.UnopExp:
		return c20hasCall(x.Exp)
	}
	return false
}

func c20multi(e ast.Exp) bool {
	switch e.(type) {
	case *ast.FuncCallExp, *ast.VarargExp:
		return true
	}
	return false
}

func (m *c20m) block(b *ast.Block) {
	if b == nil {
		return
	}
	for _, s := range b.Stats {
		m.stat(s)
	}
	for _, e := range b.RetExps {
		m.exp(e)
	}
}

func (m *c20m) stat(s ast.Stat) {
	switch st := s.(type) {
	case *ast.LocalVarDeclStat:
		ne, nn := len(st.ExpList), len(st.NameList)
		if ne > nn {
			m.hit(8, st.Loc)
		} else if ne > 0 && ne < nn && !c20multi(st.ExpList[ne-1]) {
			m.hit(8, st.Loc)
		}
		for _, e := range st.ExpList {
			m.exp(e)
		}
	case *ast.LocalFuncDefStat:
		m.exp(st.Exp)
	case *ast.AssignStat:
		ne, nv := len(st.ExpList), len(st.VarList)
		if ne > nv {
			m.hit(7, st.Loc)
		} else if ne < nv && !c20multi(st.ExpList[ne-1]) {
			m.hit(7, st.Loc)
		}
		if ne == nv {
			all := true
			for i := range st.VarList {
				if !c20same(st.VarList[i], st.ExpList[i]) {
					all = false
				}
			}
			if all {
				m.hit(20, st.Loc)
			}
		}
		for _, e := range st.ExpList {
			m.exp(e)
		}
		for _, v := range st.VarList {
			if _, isName := v.(*ast.NameExp); !isName {
				m.exp(v)
			}
		}
	case *ast.FuncCallExp:
		m.exp(st)
	case *ast.DoStat:
		m.block(st.Block)
	case *ast.WhileStat:
		m.exp(st.Exp)
		m.block(st.Block)
	case *ast.RepeatStat:
		m.block(st.Block)
		m.exp(st.Exp)
	case *ast.IfStat:
		for i := range st.Exps {
			for j := 0; j < i; j++ {
				// (the parser turns `else` into `elseif true`: a condition that is not written `true` in the
				// text is no condition of the program)
				if m.unwrittenTrue(st.Exps[i]) || m.unwrittenTrue(st.Exps[j]) {
					continue
				}
				if c20same(st.Exps[i], st.Exps[j]) {
					m.hit(19, st.Loc)
				}
			}
			m.exp(st.Exps[i])
		}
		for _, b := range st.Blocks {
			m.block(b)
		}
	case *ast.ForNumStat:
		m.exp(st.InitExp)
		m.exp(st.LimitExp)
		m.exp(st.StepExp)
		m.block(st.Block)
	case *ast.ForInStat:
		for _, e := range st.ExpList {
			m.exp(e)
		}
		m.block(st.Block)
	}
}

func c20isFloat(e ast.Exp) bool {
	_, ok := e.(*ast.FloatExp)
	return ok
}

func (m *c20m) exp(e ast.Exp) {
	switch x := e.(type) {
	case *ast.IntegerExp:
		m.literal(x.Loc, false)
		m.intLiteral(x.Loc, x.Val)
	case *ast.FloatExp:
		m.literal(x.Loc, true)
	case *ast.ParensExp:
		m.exp(x.Exp)
	case *ast.UnopExp:
		m.exp(x.Exp)
	case *ast.ConcatExp:
		m.exp(x.Exp1)
		m.exp(x.Exp2)
	case *ast.BinopExp:
		switch x.Op {
		case lexer.TkOpOr, lexer.TkOpAnd, lexer.TkOpLt, lexer.TkOpLe, lexer.TkOpGt, lexer.TkOpGe, lexer.TkOpEq, lexer.TkOpNe:
			if c20same(x.Exp1, x.Exp2) {
				if c20hasCall(x.Exp1) {
					// two textually equal calls need not yield equal values: reporting them is not required
					m.optional = append(m.optional, c20hit{14, x.Loc.StartLine})
				} else {
					m.hit(14, x.Loc)
				}
			}
		}
		// documented: the right operand is true / false. A constant left operand makes the result constant
		// too; reporting it is allowed but not required.
		if x.Op == lexer.TkOpOr {
			if _, ok := x.Exp2.(*ast.TrueExp); ok {
				m.hit(15, x.Loc)
			} else if _, ok := x.Exp1.(*ast.TrueExp); ok {
				m.optional = append(m.optional, c20hit{15, x.Loc.StartLine})
			}
		}
		if x.Op == lexer.TkOpAnd {
			if _, ok := x.Exp2.(*ast.FalseExp); ok {
				m.hit(16, x.Loc)
			} else if _, ok := x.Exp1.(*ast.FalseExp); ok {
				m.optional = append(m.optional, c20hit{16, x.Loc.StartLine})
			}
		}
		if (x.Op == lexer.TkOpEq || x.Op == lexer.TkOpNe) && (c20isFloat(x.Exp1) || c20isFloat(x.Exp2)) {
			m.hit(21, x.Loc)
		}
		m.exp(x.Exp1)
		m.exp(x.Exp2)
	case *ast.TableConstructorExp:
		for i := range x.KeyExps {
			for j := 0; j < i; j++ {
				if x.KeyExps[i] != nil && x.KeyExps[j] != nil && c20same(x.KeyExps[i], x.KeyExps[j]) {
					// reported on the later of the two keys (on the constructor for a numeric key)
					l := x.Loc
					switch k := x.KeyExps[i].(type) {
					case *ast.StringExp:
						l = k.Loc
					case *ast.NameExp:
						l = k.Loc
					}
					m.hit(5, l)
					break
				}
			}
		}
		for i := range x.ValExps {
			if i < len(x.KeyExps) && x.KeyExps[i] != nil {
				m.exp(x.KeyExps[i])
			}
			m.exp(x.ValExps[i])
		}
	case *ast.FuncDefExp:
		for i := range x.ParList {
			for j := 0; j < i; j++ {
				if x.ParList[i] == x.ParList[j] && x.ParList[i] != "_" { // `_` is the conventional placeholder and may repeat
					m.hit(13, x.Loc)
				}
			}
		}
		m.block(x.Block)
	case *ast.TableAccessExp:
		m.exp(x.PrefixExp)
		m.exp(x.KeyExp)
	case *ast.FuncCallExp:
		m.exp(x.PrefixExp)
		for _, a := range x.Args {
			m.exp(a)
		}
	}
}

var c20templates = []string{
	/* 0 */ "local x = { \x01 = 1, \x02 = 2 }\n",
	/* 1 */ "local x = { [\x1c] = 1, [\x1d] = 2, \x01 = 3, [\"\x02\"] = 4 }\n",
	/* 2 */ "local p, q\np = \x01, \x02\np, q = \x01\np, q = f()\np, q = \x01, \x02\n",
	/* 3 */ "local p = \x01, \x02\nlocal q, r = \x01\nlocal s, t = f()\nlocal u, v\nlocal w, y = \x01, \x02\n",
	/* 4 */ "function f(\x01, \x02) end\nlocal g = function(\x01, \x02, \x03) end\n",
	/* 5 */ "local r = \x01 \x1a= \x02\n",
	/* 6 */ "local r = \x01 and \x02\nlocal s = \x01 or \x02\nlocal t = f(\x01 or \x03, { \x02 and \x03 })\n",
	/* 7 */ "local r = \x01 or true\nlocal s = \x01 and false\nlocal t = \x01 or false\nlocal u = \x01 and true\nlocal v = true or \x01\nlocal w = false and \x01\n",
	/* 8 */ "if \x01 then g = 1 elseif \x02 then g = 2 elseif \x03 then g = 3 end\n",
	/* 9 */ "\x01 = \x02\n\x01, \x03 = \x02, \x03\nlocal t = {}\nt.x = t.x\nt.\x01 = t.\x02\n",
	/* 10 */ "local r = \x01 == 1\x1b5\nlocal s = \x01 ~= 2\x1b0\nlocal t = \x01 < 1.5\n",
	/* 11 */ "local f = function()\n return { k = (\x01 == \x02), [1] = g(\x01 or true) }\nend\n",
	/* 12 */ "\x01, \x02 = \x02, \x01\n\x01.x, \x02.y = \x01.x, \x03.y\n",
	// keys that are equal across nesting levels are not duplicates; keys equal on either side of a nested
	// constructor (directly, in a call argument, in a closure body) are
	/* 13 */ "local x = { \x01 = 1,\n p = { \x02 = 1,\n \x03 = 2 },\n \x04 = 3 }\n",
	/* 14 */ "local x = { \x01 = 1,\n p = f({ \x02 = 1 }),\n q = function() return { \x03 = 1 } end,\n \x04 = 3 }\n",
	/* 15 */ "g = { { \x01 = 1 },\n { \x02 = 2 },\n \x03 = { [\x1c] = 1, [\x1d] = 2 },\n [\"\x04\"] = 3 }\n",
	// call expressions as compared operands: equal only with the same callee, method and argument list
	/* 16 */ "if f(\x01) then g = 1 elseif f(\x01, \x02) then g = 2 elseif f() then g = 3 elseif f(\x03) then g = 4 end\n",
	/* 17 */ "if o:m(\x01) then g = 1 elseif o:n(\x01) then g = 2 elseif o:m(\x02) then g = 3 elseif o.m(\x01) then g = 4 end\n",
	/* 18 */ "local r = f(\x01) == f(\x01, \x02)\nlocal s = f(\x01, \x02) == f(\x01)\nlocal u = f(\x01) == f(\x02)\nt[f()] = t[f(\x01)]\n",
	// a name compared with a string literal that spells the name is not the same operand twice
	/* 19 */ "local r = \x01 == \"\x02\"\nlocal s = \"\x01\" ~= \x01\nlocal u = t.\x01 == \"t.\x01\"\nlocal w = \x01 or \"\x02\"\nlocal z = \"\x01\" == \"\x02\"\n",
	// the pattern occurring twice in one left-nested chain (same start, different ends) is reported twice
	/* 20 */ "local w = \x01 or true or true\nlocal x = \x01 and false and false\nlocal y = \x01 == 1\x1b5 == 2\x1b5\nlocal z = \x01 == \x01 == \x01\n",
	// placeholders between duplicate parameters
	/* 21 */ "function f(\x01, _, \x02) end\nlocal g = function(\x01, _, _, \x02) end\nlocal h = function(_, \x01, _) end\n",
	// patterns nested in the surplus values of a declaration / assignment are analysed like any other
	/* 22 */ "local p = 1, \x01 == \x02\nlocal q = f(), { \x01 = 1, \x02 = 2 }\nlocal r, s = 1, 2, \x03 or true, function(\x01, \x02) end\ng = 1, \x01 and false\n",
	// numerals in every spelling as compared operands, keys and conditions
	/* 23 */ "local r = \x01 == 0x\x1eF\nlocal t = { [0x0\x1e] = 1, [0x0\x1e] = 2 }\nif \x01 == 0x\x1eF then g = 1 elseif \x01 == 0x\x1eF then g = 2 end\nlocal s = \x01 ~= 0x\x1e.8\nlocal u = \x01 == 0x\x1ep1\nlocal v = \x01 == \x1f\x1f\nlocal w = \x01 == 1e\x1f\n",
	// an else branch after a constant condition, indexed operands, bracketed string keys, a unary minus
	/* 24 */ "if \x01 then g = 1 elseif true then g = 2 else g = 3 end\nif true then g = 4 else g = 5 end\nlocal r = t[1] == t[1]\nlocal s = t[\"\x01.\x02\"] == t.\x01.\x02\nlocal u = { [1] = 1, [\"#int1\"] = 2, [\"\x01\"] = 3, \x02 = 4 }\nlocal v = \x01 == -1\x1b5\nlocal w = nil or true\n",
	// a key given by a variable beside a string key of the same spelling: different keys
	/* 25 */ "local x = { [\x01] = 1, \x02 = 2, [\"\x03\"] = 3, [\x02] = 4 }\n",
	// zero-padded decimal numerals (Lua has no octal literals): 010 is ten
	/* 26 */ "local t = { [010] = 1, [8] = 2, [0\x1f] = 3 }\nif x == 011 then x = 1 elseif x == 9 then x = 2 end\nlocal u = { [010] = 1, [10] = 2 }\nif x == 0010 then x = 1 elseif x == 10 then x = 2 end\n",
}

func VerifRun_C20() {
	ti := verifConcretize(verifRange("template", verifParam("TMIN"), verifParam("TMAX")))
	t := []byte(c20templates[ti])
	var names [10]byte
	var have [10]bool
	var hexd, decd byte
	for i, c := range t {
		switch {
		case c >= 1 && c <= 9:
			if !have[c] {
				names[c] = verifByteIn("n"+string([]byte{'0' + c}), "ab")
				have[c] = true
			}
			t[i] = names[c]
		case c == 0x1a:
			t[i] = verifByteIn("op", "=~<>")
		case c == 0x1b:
			t[i] = verifByteIn("dot", ".0")
		case c == 0x1c:
			t[i] = verifByteIn("d1", "12")
		case c == 0x1d:
			t[i] = verifByteIn("d2", "12")
		case c == 0x1e: // one hexadecimal digit for the whole instance
			if hexd == 0 {
				hexd = verifByteIn("hexdigit", "0aFfE")
			}
			t[i] = hexd
		case c == 0x1f:
			if decd == 0 {
				decd = verifByteIn("decdigit", "19")
			}
			t[i] = decd
		}
	}
	// one of the pattern checks may be switched off by the user: exactly that type's diagnostics disappear,
	// the others stay where they are
	c20types := []int{5, 7, 8, 13, 14, 15, 16, 19, 20, 21}
	off := 0
	if oi := verifConcretize(verifRange("off", 0, len(c20types))); oi > 0 {
		off = c20types[oi-1]
		flags := make([]bool, 26)
		for i := range flags {
			flags[i] = i != off
		}
		common.GConfig.HandleChangeCheckList(flags, nil, nil)
		if verifBool("switchedOnAgain") {
			// ... and ticks the box again later in the session: a second settings change with every check on
			for i := range flags {
				flags[i] = true
			}
			common.GConfig.HandleChangeCheckList(flags, nil, nil)
			off = 0
		}
	}
	file := "/w/a.lua"
	p20, fs := vpProject([]string{file}, [][]byte{t})
	// the published set (after de-duplication) must keep every diagnostic that differs from the others in
	// type, range or text
	pub := p20.GetAllFileErrorInfo()[file]
	for _, e := range fs[0].FileResult.CheckErrVec {
		kept := false
		for _, q := range pub {
			if q.ErrType == e.ErrType && q.ErrStr == e.ErrStr && locEq(q.Loc, e.Loc) && q.Loc.EndLine == e.Loc.EndLine && q.Loc.EndColumn == e.Loc.EndColumn {
				kept = true
			}
		}
		if !kept {
			verifViolation("", "a diagnostic produced by the analysis is missing from the published set (lost in de-duplication)")
		}
	}
	var got []c20hit
	for _, e := range fs[0].FileResult.CheckErrVec {
		switch int(e.ErrType) {
		case 5, 7, 8, 13, 14, 15, 16, 19, 20, 21:
			got = append(got, c20hit{int(e.ErrType), e.Loc.StartLine})
		case 1:
			verifViolation("", "harness: template instance has a syntax error")
		}
	}
	m := &c20m{src: t}
	m.block(fs[0].FileResult.Block)
	verifReach("matched")
	if m.badLiteral {
		verifViolation("", "a numeric literal is taken for a float although it is spelled as an integer (or the reverse), or for another value than its digits spell: the float-equality, duplicate-key and repeated-condition checks then fire or stay silent wrongly")
	}
	digest := ""
	for _, g := range got {
		digest += strconv.Itoa(g.typ) + "@" + strconv.Itoa(g.line) + " "
	}
	verifObserve("diagnostics", digest)
	// multiset comparison per (type, line)
	for _, typ := range []int{5, 7, 8, 13, 14, 15, 16, 19, 20, 21} {
		for line := 1; line <= 8; line++ {
			ng, nw, no := 0, 0, 0
			for _, w := range m.optional {
				if w.typ == typ && w.line == line {
					no++
				}
			}
			for _, g := range got {
				if g.typ == typ && g.line == line {
					ng++
				}
			}
			for _, w := range m.hits {
				if w.typ == typ && w.line == line {
					nw++
				}
			}
			if typ == off {
				if ng > 0 {
					verifViolation("", "type "+strconv.Itoa(typ)+": reported although the check is switched off")
				}
				continue
			}
			class := ""
			if ti == 24 {
				// known defects, one per line of this template (see known_findings.txt)
				switch {
				case line == 3 && typ == 14:
					class = "C20-indexed-operands"
				case line == 4 && typ == 14:
					class = "C20-dotted-string-key"
				case line == 5 && typ == 5:
					class = "C20-int-key-encoding"
				}
			}
			if ng < nw {
				verifViolation(class, "type "+strconv.Itoa(typ)+": an occurrence of the documented pattern is not reported")
			} else if ng > nw+no {
				verifViolation(class, "type "+strconv.Itoa(typ)+": reported where the documented pattern does not occur (or reported more than once)")
			}
		}
	}
}
