//gosx:package langserver/check
package check

import (
	"luahelper-lsp/langserver/check/common"
	"strconv"
)

// C20-b: "reported once at every place where the pattern occurs" under per-file type rules of luahelper.json
// (IgnoreFileErrTypes, the documentation's own example): two files with the same four patterns (duplicate key,
// same operands, always-true `or`, self-assignment); each file has its own list of ignored types, solver-chosen
// from the pattern types; an unlisted third file. Every file reports exactly the pattern types its own rule
// does not list.
const c20bProg = "local t = { k = 1, k = 2 }\nlocal a, b = 1, 2\nif a == a then b = b end\nlocal c = b or true\nprint(t, c)\n"

var c20bTypes = []int{5, 14, 15, 20}

func VerifRun_C20b() {
	root := verifVFSRoot()
	vpInit()
	c08workspace(root)
	files := []string{root + "/port/aaa.lua", root + "/port/bbb.lua", root + "/port/ccc.lua"}
	for _, f := range files {
		verifVFSPut(f, []byte(c20bProg))
	}
	// rule of aaa.lua: one type; rule of bbb.lua: one or two types
	ta := c20bTypes[verifConcretize(verifRange("typeA", 0, len(c20bTypes)-1))]
	tb := c20bTypes[verifConcretize(verifRange("typeB", 0, len(c20bTypes)-1))]
	tb2 := 0
	if verifBool("second") {
		tb2 = c20bTypes[verifConcretize(verifRange("typeB2", 0, len(c20bTypes)-1))]
	}
	listB := strconv.Itoa(tb)
	if tb2 != 0 {
		listB += ", " + strconv.Itoa(tb2)
	}
	js := "{\n \"BaseDir\": \"./\",\n \"ShowWarnFlag\": 1,\n \"IgnoreFileErrTypes\": [{\"File\": \"port/aaa.lua\", \"Types\": [" + strconv.Itoa(ta) + "]}, {\"File\": \"port/bbb.lua\", \"Types\": [" + listB + "]}]\n}\n"
	verifVFSPut(root+"/luahelper.json", []byte(js))
	if err := common.GConfig.ReadConfig(root, "luahelper.json", nil, nil, nil); err != nil {
		verifViolation("", "a well-formed luahelper.json is rejected")
		return
	}
	common.GConfig.InsertIngoreSystemAnnotateType()
	common.GConfig.GetDirManager().InitMainDir()
	p := CreateAllProject(files, nil, nil)
	p.HandleCheck()
	verifReach("checked")
	errs := p.GetAllFileErrorInfo()
	for fi, f := range files {
		for _, t := range c20bTypes {
			n := 0
			for _, e := range errs[f] {
				if int(e.ErrType) == t {
					n++
				}
			}
			ignored := (fi == 0 && t == ta) || (fi == 1 && (t == tb || t == tb2))
			if ignored && n > 0 {
				verifViolation("", "a pattern type listed in the file's IgnoreFileErrTypes rule is still reported there")
			}
			if !ignored && n != 1 {
				verifObserve("file", f[len(f)-7:]+" type "+strconv.Itoa(t)+" count "+strconv.Itoa(n))
				verifViolation("", "a pattern is not reported exactly once in a file whose IgnoreFileErrTypes rule does not list its type")
			}
		}
	}
}
