//gosx:package langserver
package langserver

import (
	"context"
	lsp "luahelper-lsp/langserver/protocol"
)

// C18-f: "the answer changes as soon as such a file is created or deleted", through the real watched-files
// handler and with several events about one file in ONE notification (a module replaced on disk by an atomic
// save or a branch switch arrives as Deleted + Created; a temporary file as Created + Deleted). m.lua requires
// "x"; x.lua exists at start-up or not; EVENTS notifications follow. Afterwards the file-not-found diagnostic
// is shown exactly when x.lua does not exist, and go-to-definition on the module string opens x.lua exactly
// when it exists - as on a freshly started server.
func VerifRun_C18f() {
	root := verifVFSRoot()
	mainF, modF := root+"/m.lua", root+"/lib/x.lua"
	src := "local r = require(\"x\")\nq = r\n"
	verifVFSPut(mainF, []byte(src))
	exists := verifBool("present")
	files := []string{mainF}
	if exists {
		verifVFSPut(modF, []byte("return 1\n"))
		files = append(files, modF)
	}
	c08view = map[string]string{}
	l := c08eServer(root, files)
	ctx := context.Background()
	um, ux := lsp.DocumentURI("file://"+mainF), lsp.DocumentURI("file://"+modF)
	_ = l.TextDocumentDidOpen(ctx, lsp.DidOpenTextDocumentParams{TextDocument: lsp.TextDocumentItem{URI: um, Text: src}})
	for k := 0; k < verifParam("EVENTS"); k++ {
		var evs []lsp.FileEvent
		switch verifConcretize(verifRange("batch", 0, 3)) {
		case 0: // the file appears / disappears
			if exists {
				verifVFSDel(modF)
				evs = []lsp.FileEvent{{URI: ux, Type: lsp.Deleted}}
			} else {
				verifVFSPut(modF, []byte("return 2\n"))
				evs = []lsp.FileEvent{{URI: ux, Type: lsp.Created}}
			}
			exists = !exists
		case 1: // replaced on disk: deleted and created again, one notification
			if !exists {
				verifAssume(false)
			}
			verifVFSPut(modF, []byte("return 3\n"))
			evs = []lsp.FileEvent{{URI: ux, Type: lsp.Deleted}, {URI: ux, Type: lsp.Created}}
		case 2: // a short-lived file: created and deleted again, one notification
			if exists {
				verifAssume(false)
			}
			evs = []lsp.FileEvent{{URI: ux, Type: lsp.Created}, {URI: ux, Type: lsp.Deleted}}
		case 3: // written again: a second Created event for a file that is already known
			if !exists {
				verifAssume(false)
			}
			verifVFSPut(modF, []byte("return 4\n"))
			evs = []lsp.FileEvent{{URI: ux, Type: lsp.Created}}
		}
		_ = l.WorkspaceChangeWatchedFiles(ctx, lsp.DidChangeWatchedFilesParams{Changes: evs})
	}
	verifReach("events")
	has6 := false
	v := c08view[string(um)]
	for i := 0; i+13 <= len(v); i++ {
		if v[i:i+13] == "not find file" {
			has6 = true
		}
	}
	locs, _ := l.TextDocumentDefine(ctx, lsp.TextDocumentPositionParams{TextDocument: lsp.TextDocumentIdentifier{URI: um}, Position: lsp.Position{Line: 0, Character: 19}})
	opens := len(locs) > 0 && locs[0].URI == ux
	if has6 == exists {
		verifObserve("view", v)
		verifViolation("", "after watched-file events the file-not-found diagnostic is not shown exactly when the required module does not exist")
	}
	if opens != exists {
		verifViolation("", "after watched-file events go-to-definition on the module string does not open the module exactly when it exists")
	}
}
