//gosx:package langserver
package langserver

import (
	"context"
	"luahelper-lsp/langserver/check"
	"luahelper-lsp/langserver/check/common"
	"luahelper-lsp/langserver/pathpre"
	lsp "luahelper-lsp/langserver/protocol"
)

// h: two workspace roots, the name of the second beginning with the name of the first (/w/game and
// /w/game_tools) or not (/w/game and /w/tools); lib/conf.lua exists under either, both or neither; a script in
// one of the roots loads it with its suffix: dofile("lib/conf.lua").  The path is relative to the root the
// script belongs to: when that root has the file, the analysis loads that one; whatever the analysis loaded,
// go-to-definition on the string leads to that file and to no other, and the type-6 diagnostic appears
// exactly when nothing was loaded.
func VerifRun_C18h() {
	w := verifVFSRoot()
	first, second := w+"/game", w+"/tools"
	if verifBool("secondRootNameStartsWithTheFirst") {
		second = w + "/game_tools"
	}
	pathpre.InitialRootURIAndPath("file://"+first, first)
	dm := common.GConfig.GetDirManager()
	dm.SetVSRootDir(first)
	dm.InitMainDir()
	dm.PushOneSubDir(second)
	own, other := second, first
	if verifBool("scriptInTheFirstRoot") {
		own, other = first, second
	}
	call := "dofile"
	main := []byte("local r = " + call + "(\"lib/conf.lua\")\nq = r\n")
	files := []string{own + "/run.lua"}
	srcs := [][]byte{main}
	ownHas, otherHas := verifBool("ownRootHasTheFile"), verifBool("otherRootHasTheFile")
	if ownHas {
		files = append(files, own+"/lib/conf.lua")
		srcs = append(srcs, []byte("return { a = 1 }\n"))
	}
	if otherHas {
		files = append(files, other+"/lib/conf.lua")
		srcs = append(srcs, []byte("return { b = 2 }\n"))
	}
	for i := range files {
		verifVFSPut(files[i], srcs[i]) // (the suffixed form is resolved through the file-exists cache: os.Stat)
	}
	l := CreateLspServer()
	l.project = check.VpProject(files, srcs)
	l.fileCache.SetFileContent(files[0], main)
	verifReach("resolved")
	n6 := 0
	for _, e := range l.project.GetAllFileErrorInfo()[files[0]] {
		if e.ErrType == common.CheckErrorNoFile {
			n6++
		}
	}
	loaded := ""
	if fs, ok := l.project.GetFirstFileStuct(files[0]); ok && fs.FileResult != nil {
		for _, r := range fs.FileResult.ReferVec {
			loaded = r.ReferValidStr
		}
	}
	if len(loaded) > len(w) {
		verifObserve("loaded", loaded[len(w):]) // (without the root: it differs between the engine and the native replay)
	}
	if (loaded == "") != (n6 > 0) {
		verifViolation("", "the file-not-found diagnostic (type 6) does not agree with whether the analysis loaded a file")
	}
	if !ownHas && !otherHas && loaded != "" {
		verifViolation("", "the analysis loaded a file although no lib/conf.lua exists")
	}
	ends := func(s, suf string) bool { return len(s) >= len(suf) && s[len(s)-len(suf):] == suf }
	if ownHas && !ends(loaded, own+"/lib/conf.lua") {
		verifViolation("", "a suffixed path that exists under the script's own workspace root is not resolved to that file")
	}
	pos := lsp.TextDocumentPositionParams{
		TextDocument: lsp.TextDocumentIdentifier{URI: lsp.DocumentURI("file://" + files[0])},
		Position:     lsp.Position{Line: 0, Character: uint32(len("local r = "+call+"(\"") + 2)}}
	locs, _ := l.TextDocumentDefine(context.Background(), pos)
	if loaded == "" && len(locs) > 0 {
		verifViolation("", "go-to-definition on the path string opens a file although the analysis found none")
	}
	if loaded != "" {
		ok := false
		for _, lc := range locs {
			if ends(string(lc.URI), loaded) {
				ok = true
			} else {
				verifObserve("definition", string(lc.URI))
				verifViolation("", "go-to-definition on the path string leads to a file the analysis did not load")
			}
		}
		if !ok {
			verifViolation("", "go-to-definition on the path string does not lead to the file the analysis loaded")
		}
	}
}
