//gosx:package langserver
package langserver

import (
	"context"
	"luahelper-lsp/langserver/check"
	"luahelper-lsp/langserver/check/common"
	"luahelper-lsp/langserver/pathpre"
	lsp "luahelper-lsp/langserver/protocol"
)

// C18: require("<p1>.<p2>") resolves as documented (separator to '/', name.lua, then name/init.lua,
// matched at a directory boundary anywhere in the workspace); the type-6 diagnostic appears exactly when
// no such file exists, and go-to-definition on the string leads to a file the documented rule allows.

func c18seg(tag string, alpha string) string {
	n := verifConcretize(verifRange(tag+"len", 1, 2))
	return string(verifBytesIn(tag, n, alpha))
}

func VerifSetup_C18() { check.VerifSetup_Pipe() }

func VerifRun_C18() {
	pathpre.InitialRootURIAndPath("file:///w", "/w")
	dm := common.GConfig.GetDirManager()
	dm.SetVSRootDir("/w")
	dm.InitMainDir()
	d1 := c18seg("d1", "ab")
	n1 := string(verifBytesIn("n1", 1, "xy"))
	p1 := c18seg("p1", "ab")
	p2 := string(verifBytesIn("p2", 1, "xy"))
	f1 := "/w/" + d1 + "/" + n1 + ".lua"
	files := []string{"/w/m.lua", f1}
	srcs := [][]byte{nil, []byte("return 1\n")}
	f2 := ""
	if verifBool("withinit") {
		d2 := string(verifBytesIn("d2", 1, "ab"))
		n2 := string(verifBytesIn("n2", 1, "xy"))
		f2 = "/w/" + d2 + "/" + n2 + "/init.lua"
		files = append(files, f2)
		srcs = append(srcs, []byte("return 2\n"))
	}
	sep := "."
	if verifBool("slash") {
		sep = "/"
	}
	mod := p1 + sep + p2
	main := []byte("local r = require(\"" + mod + "\")\nq = r\n")
	srcs[0] = main
	// documented resolution, anchored at a directory boundary
	want1 := "/" + p1 + "/" + p2 + ".lua"
	want2 := "/" + p1 + "/" + p2 + "/init.lua"
	ends := func(s, suf string) bool { return len(s) >= len(suf) && s[len(s)-len(suf):] == suf }
	m1 := ends(f1, want1)
	m2 := f2 != "" && ends(f2, want2)
	found := m1 || m2
	l := CreateLspServer()
	l.project = check.VpProject(files, srcs)
	l.fileCache.SetFileContent(files[0], main)
	verifReach("resolved")
	n6 := 0
	for _, e := range l.project.GetAllFileErrorInfo()[files[0]] {
		if e.ErrType == common.CheckErrorNoFile {
			n6++
		}
	}
	if found && n6 > 0 {
		verifViolation("", "a module that exists under the documented mapping is reported as file-not-found (type 6)")
	}
	if !found && n6 == 0 {
		verifViolation("", "a module for which no file exists under the documented mapping gets no file-not-found diagnostic (type 6)")
	}
	// go-to-definition on the module string
	pos := lsp.TextDocumentPositionParams{
		TextDocument: lsp.TextDocumentIdentifier{URI: lsp.DocumentURI("file://" + files[0])},
		Position:     lsp.Position{Line: 0, Character: 19}}
	locs, _ := l.TextDocumentDefine(context.Background(), pos)
	if !found && len(locs) > 0 {
		verifViolation("", "go-to-definition on the module string opens a file although the analysis found none")
	}
	if found {
		ok := false
		for _, lc := range locs {
			u := string(lc.URI)
			if (m1 && ends(u, f1)) || (m2 && ends(u, f2)) {
				ok = true
			}
		}
		if !ok {
			verifViolation("", "go-to-definition on the module string does not lead to the file the documented mapping selects")
		}
	}
}

// b: the answer changes as soon as the file is created or deleted (watched-file events, files in the
// virtual file system, real worker pools).
func VerifRun_C18b() {
	root := verifVFSRoot()
	pathpre.InitialRootURIAndPath("file://"+root, root)
	dm := common.GConfig.GetDirManager()
	dm.SetVSRootDir(root)
	dm.InitMainDir()
	d1 := string([]byte{byte(verifConcretize(int(verifByteIn("d1", "ab"))))}) // file names in the virtual file system are concrete
	p1 := string(verifBytesIn("p1", 1, "ab"))
	f1 := root + "/" + d1 + "/x.lua"
	mainF := root + "/m.lua"
	main := []byte("local r = require(\"" + p1 + ".x\")\nq = r\n")
	if verifBool("dofileform") { // the exact relative path with its suffix (resolved through the file-exists cache)
		main = []byte("local r = dofile(\"" + p1 + "/x.lua\")\nq = r\n")
	}
	verifVFSPut(mainF, main)
	startsWith := verifBool("present")
	files := []string{mainF}
	if startsWith {
		verifVFSPut(f1, []byte("return 1\n"))
		files = append(files, f1)
	}
	// optionally a namesake in the other directory that stays (duplicate-named modules)
	twin := verifBool("twin")
	d2 := "a"
	if d1 == "a" {
		d2 = "b"
	}
	if twin {
		f2 := root + "/" + d2 + "/x.lua"
		verifVFSPut(f2, []byte("return 2\n"))
		files = append(files, f2)
	}
	p := check.CreateAllProject(files, nil, nil)
	p.HandleCheck()
	count6 := func() int {
		n := 0
		for _, e := range p.GetAllFileErrorInfo()[mainF] {
			if e.ErrType == common.CheckErrorNoFile {
				n++
			}
		}
		return n
	}
	exists := func(present bool) bool { return (present && d1 == p1) || (twin && d2 == p1) }
	verifReach("initial")
	if (count6() == 0) != exists(startsWith) {
		verifViolation("", "initial analysis: type-6 diagnostic does not agree with the existence of the module file")
	}
	// a short history of create/delete events of f1
	present := startsWith
	for k := 0; k < verifParam("EVENTS"); k++ {
		if verifBool("shortlived") {
			// one notification carrying two events for the file that leave its existence as it was: a
			// short-lived file (created and deleted again before the server looks), resp. a file replaced
			// (deleted and re-created)
			if present {
				verifVFSPut(f1, []byte("return 3\n"))
				p.HandleFileEventChanges([]check.FileEventStruct{{StrFile: f1, Type: check.FileEventDeleted}, {StrFile: f1, Type: check.FileEventCreated}})
			} else {
				p.HandleFileEventChanges([]check.FileEventStruct{{StrFile: f1, Type: check.FileEventCreated}, {StrFile: f1, Type: check.FileEventDeleted}})
			}
		} else {
			if present {
				verifVFSDel(f1)
				p.HandleFileEventChanges([]check.FileEventStruct{{StrFile: f1, Type: check.FileEventDeleted}})
			} else {
				verifVFSPut(f1, []byte("return 1\n"))
				p.HandleFileEventChanges([]check.FileEventStruct{{StrFile: f1, Type: check.FileEventCreated}})
			}
			present = !present
		}
		if verifBool("touchmain") {
			// the requiring file itself is announced as changed afterwards (saved again by the user)
			p.HandleFileEventChanges([]check.FileEventStruct{{StrFile: mainF, Type: check.FileEventChanged}})
		}
		verifReach("after-event")
		if (count6() == 0) != exists(present) {
			verifViolation("", "after a create/delete event the type-6 diagnostic does not agree with the existence of the module file")
			return
		}
	}
}

// c: native .so modules are tolerated under both separators, at the root and in a sub-directory, and a
// dofile argument (which carries its suffix) follows the same mapping; the type-6 diagnostic appears
// exactly when neither exists. Files live in the virtual file system (their names are concrete, the
// module string is symbolic).
func VerifRun_C18c() {
	root := verifVFSRoot()
	pathpre.InitialRootURIAndPath("file://"+root, root)
	dm := common.GConfig.GetDirManager()
	dm.SetVSRootDir(root)
	dm.InitMainDir()
	d1 := string([]byte{byte(verifConcretize(int(verifByteIn("d1", "ab"))))})
	n1 := string([]byte{byte(verifConcretize(int(verifByteIn("n1", "xy"))))})
	p1 := string(verifBytesIn("p1", 1, "ab"))
	p2 := string(verifBytesIn("p2", 1, "xy"))
	kind := verifConcretize(verifRange("kind", 0, 2)) // 0 require -> .so, 1 dofile -> .lua, 2 require -> .lua
	flat := verifBool("flat")                           // module directly under the root
	present := verifBool("present")
	sep := "."
	if verifBool("slash") {
		sep = "/"
	}
	ext := ".so"
	if kind != 0 {
		ext = ".lua"
	}
	f1 := root + "/" + d1 + "/" + n1 + ext
	mod := p1 + sep + p2
	match := d1 == p1 && n1 == p2
	if flat {
		f1 = root + "/" + n1 + ext
		mod = p2
		match = n1 == p2
	}
	call := "require(\"" + mod + "\")"
	if kind == 1 {
		mod = p1 + "/" + p2 + ".lua"
		if flat {
			mod = p2 + ".lua"
		}
		call = "dofile(\"" + mod + "\")"
	}
	mainF := root + "/m.lua"
	main := []byte("local r = " + call + "\nq = r\n")
	verifVFSPut(mainF, main)
	files := []string{mainF}
	if present {
		verifVFSPut(f1, []byte("return 1\n"))
		if kind != 0 {
			files = append(files, f1)
		}
	}
	p := check.CreateAllProject(files, nil, nil)
	p.HandleCheck()
	verifReach("analysed")
	n6 := 0
	for _, e := range p.GetAllFileErrorInfo()[mainF] {
		if e.ErrType == common.CheckErrorNoFile {
			n6++
		}
	}
	found := present && match
	if found && n6 > 0 {
		if kind == 0 {
			verifViolation("", "a require of an existing native .so module is reported as file-not-found (type 6)")
		} else {
			verifViolation("", "a module that exists under the documented mapping is reported as file-not-found (type 6)")
		}
	}
	if !found && n6 == 0 {
		verifViolation("", "a module for which no file exists under the documented mapping gets no file-not-found diagnostic (type 6)")
	}
}

// d: module strings that carry a suffix or more dots than directories: the three features agree.
// require("<n>.lua") names, under the documented mapping, <n>/lua.lua (every dot is a separator);
// dofile("<n>.lua") names <n>.lua. Whatever the analysis loaded (ReferValidStr, empty when nothing was
// found = type 6), go-to-definition and hover on the string lead to that file and to no other.
func VerifRun_C18d() {
	pathpre.InitialRootURIAndPath("file:///w", "/w")
	dm := common.GConfig.GetDirManager()
	dm.SetVSRootDir("/w")
	dm.InitMainDir()
	n := string(verifBytesIn("n", 1, "xe"))
	fn := string([]byte{byte(verifConcretize(int(verifByteIn("fn", "xe"))))})
	files := []string{"/w/m.lua"}
	srcs := [][]byte{nil}
	if verifBool("libfile") { // /w/lib/<fn>.lua
		files = append(files, "/w/lib/"+fn+".lua")
		srcs = append(srcs, []byte("return 4\n"))
	}
	if verifBool("deepfile") { // /w/<fn>/ext/<fn>.lua: the module name occurs earlier in the path as well
		files = append(files, "/w/"+fn+"/ext/"+fn+".lua")
		srcs = append(srcs, []byte("return 5\n"))
	}
	if verifBool("flatfile") { // /w/<fn>.lua
		files = append(files, "/w/"+fn+".lua")
		srcs = append(srcs, []byte("return 1\n"))
	}
	if verifBool("dirfile") { // /w/<fn>/lua.lua
		files = append(files, "/w/"+fn+"/lua.lua")
		srcs = append(srcs, []byte("return 2\n"))
	}
	if verifBool("initfile") { // /w/<fn>/init.lua
		files = append(files, "/w/"+fn+"/init.lua")
		srcs = append(srcs, []byte("return 3\n"))
	}
	others := len(files) - 1
	specfile := verifBool("specfile") // /w/<fn>.spec.lua: a file whose name merely starts with the module name
	if specfile {
		files = append(files, "/w/"+fn+".spec.lua")
		srcs = append(srcs, []byte("return 6\n"))
	}
	call := "require"
	if verifBool("dofile") {
		call = "dofile"
	}
	mod := n
	if verifBool("suffix") || call == "dofile" { // a dofile argument always carries its suffix
		mod += ".lua"
	}
	dotslash := call == "dofile" && verifBool("dotslash") // dofile("./x.lua"): the same file, written relative to the workspace
	cursor := 1
	if dotslash {
		mod = "./" + mod
		cursor = 3
	}
	main := []byte("local r = " + call + "(\"" + mod + "\")\nq = r\n")
	srcs[0] = main
	l := CreateLspServer()
	l.project = check.VpProject(files, srcs)
	l.fileCache.SetFileContent(files[0], main)
	verifReach("resolved")
	n6 := 0
	for _, e := range l.project.GetAllFileErrorInfo()[files[0]] {
		if e.ErrType == common.CheckErrorNoFile {
			n6++
		}
	}
	loaded := ""
	if fs, ok := l.project.GetFirstFileStuct(files[0]); ok && fs.FileResult != nil {
		for _, r := range fs.FileResult.ReferVec {
			loaded = r.ReferValidStr
		}
	}
	// known defect: a file whose name continues after the module name with a dot (x.spec.lua for module x) is
	// indexed under the text before its first dot and taken for the module by the analysis, not by the requests
	dclass := ""
	if specfile && n == fn {
		dclass = "C18-dotted-file-name"
	}
	if dclass == "" && dotslash {
		// known defect: the analysis resolves dofile("./x.lua"), the requests on the string do not
		dclass = "C18-dofile-dot-slash"
	}
	if others == 0 && n6 == 0 {
		// no file of the workspace is called <n>.lua or <n>/init.lua (at most <fn>.spec.lua exists)
		verifViolation(dclass, "no file-not-found diagnostic although no file with the module's name exists")
	}
	if (loaded == "") != (n6 > 0) {
		verifViolation(dclass, "the file-not-found diagnostic (type 6) does not agree with whether the analysis loaded a file")
	}
	pos := lsp.TextDocumentPositionParams{
		TextDocument: lsp.TextDocumentIdentifier{URI: lsp.DocumentURI("file://" + files[0])},
		Position:     lsp.Position{Line: 0, Character: uint32(len("local r = "+call+"(\"") + cursor)}}
	locs, _ := l.TextDocumentDefine(context.Background(), pos)
	ends := func(s, suf string) bool { return len(s) >= len(suf) && s[len(s)-len(suf):] == suf }
	// hover on the string names the file go-to-definition opens, and nothing when there is none
	hov, _ := l.TextDocumentHover(context.Background(), pos)
	shown := ""
	if h, ok := hov.(MarkupHover); ok {
		shown = h.Contents.Value
	}
	namesFile := false
	for i := 0; i+11 <= len(shown); i++ {
		if shown[i:i+11] == "lua file : " {
			namesFile = true
		}
	}
	if len(locs) == 0 && namesFile {
		verifViolation(dclass, "hover on a module string names a file although go-to-definition finds none")
	}
	if len(locs) > 0 {
		// the text ends with the (relative) name of the file
		k := len(shown)
		for k > 0 && shown[k-1] != ' ' && shown[k-1] != '\n' && shown[k-1] != '\r' {
			k--
		}
		named := shown[k:]
		okh := false
		for _, lc := range locs {
			if named != "" && ends(string(lc.URI), named) {
				okh = true
			}
		}
		if !okh {
			verifObserve("hover", shown)
			verifViolation(dclass, "hover on a module string does not name the file go-to-definition opens")
		}
	}
	if loaded == "" && len(locs) > 0 {
		verifViolation(dclass, "go-to-definition on the module string opens a file although the analysis found none")
	}
	if loaded != "" {
		ok := false
		for _, lc := range locs {
			if ends(string(lc.URI), loaded) {
				ok = true
			} else {
				verifViolation(dclass, "go-to-definition on the module string leads to a file the analysis did not load")
			}
		}
		if !ok {
			verifViolation(dclass, "go-to-definition on the module string does not lead to the file the analysis loaded")
		}
	}
}

// e: "the answer changes as soon as such a file is created or deleted" - also when the module string already
// resolves. m.lua requires "x"; the files x.lua, x/init.lua and lib/x.lua exist or not; then one of them is
// created or deleted (watched-file event). Afterwards the file the analysis has loaded for the require is the
// one a fresh start loads on the same disk, and the type-6 diagnostic agrees with it.
func VerifRun_C18e() {
	root := verifVFSRoot()
	pathpre.InitialRootURIAndPath("file://"+root, root)
	dm := common.GConfig.GetDirManager()
	dm.SetVSRootDir(root)
	dm.InitMainDir()
	mainF := root + "/m.lua"
	cands := []string{root + "/x.lua", root + "/x/init.lua", root + "/lib/x.lua"}
	verifVFSPut(mainF, []byte("local r = require(\"x\")\nq = r\n"))
	files := []string{mainF}
	on := make([]bool, len(cands))
	for i, c := range cands {
		on[i] = verifBool("present")
		if on[i] {
			verifVFSPut(c, []byte("return "+string([]byte{'1' + byte(i)})+"\n"))
			files = append(files, c)
		}
	}
	p := check.CreateAllProject(files, nil, nil)
	p.HandleCheck()
	for k := 0; k < verifParam("EVENTS"); k++ {
		i := verifConcretize(verifRange("which", 0, len(cands)-1))
		if on[i] {
			verifVFSDel(cands[i])
			p.HandleFileEventChanges([]check.FileEventStruct{{StrFile: cands[i], Type: check.FileEventDeleted}})
		} else {
			verifVFSPut(cands[i], []byte("return 9\n"))
			p.HandleFileEventChanges([]check.FileEventStruct{{StrFile: cands[i], Type: check.FileEventCreated}})
		}
		on[i] = !on[i]
	}
	now := []string{mainF}
	for i, c := range cands {
		if on[i] {
			now = append(now, c)
		}
	}
	fresh := check.CreateAllProject(now, nil, nil)
	fresh.HandleCheck()
	loadedOf := func(q *check.AllProject) (string, int) {
		loaded, n6 := "", 0
		if fs, ok := q.GetFirstFileStuct(mainF); ok && fs.FileResult != nil {
			for _, r := range fs.FileResult.ReferVec {
				if r.Valid {
					loaded = r.ReferValidStr
				}
			}
		}
		for _, e := range q.GetAllFileErrorInfo()[mainF] {
			if e.ErrType == common.CheckErrorNoFile {
				n6++
			}
		}
		return loaded, n6
	}
	gotL, got6 := loadedOf(p)
	wantL, want6 := loadedOf(fresh)
	verifReach("compared")
	tie := on[1] && on[2] && !on[0] // x/init.lua against lib/x.lua: no documented preference (known tie class of C09)
	if tie {
		return
	}
	if gotL != wantL {
		verifObserve("loaded", gotL+" / fresh: "+wantL)
		verifViolation("", "after a module file was created or deleted the analysis still loads another file than a fresh start does")
	}
	if (got6 > 0) != (want6 > 0) {
		verifViolation("", "after a module file was created or deleted the file-not-found diagnostic differs from a fresh start's")
	}
}
