//gosx:package langserver
package langserver

import (
	"luahelper-lsp/langserver/check"
	"luahelper-lsp/langserver/pathpre"
)

// C15-d: a class declared in more than one file (its fields split over the declarations): a variable typed
// with that class, or with a subclass, in a file that declares neither offers the fields of every
// declaration. The typed variable lives in use.lua or in one of the declaring files (solver-chosen).
func VerifRun_C15d() {
	pathpre.InitialRootURIAndPath("file:///w", "/w")
	files := []string{"/w/p1.lua", "/w/p2.lua", "/w/h.lua", "/w/use.lua"}
	srcs := []string{
		"---@class P\n---@field id number\n\n",
		"---@class P\n---@field gold number\n\n",
		"---@class H : P\n---@field lv number\n\n",
		"",
	}
	typ := "P"
	want := []string{"id", "gold"}
	if verifBool("subclass") {
		typ = "H"
		want = []string{"id", "gold", "lv"}
	}
	where := verifConcretize(verifRange("where", 0, 3))
	lines := 0
	for i := 0; i < len(srcs[where]); i++ {
		if srcs[where][i] == '\n' {
			lines++
		}
	}
	srcs[where] += "---@type " + typ + "\nlocal v = {}\nq = v\n"
	useLine := lines + 2
	bs := make([][]byte, len(srcs))
	for i := range srcs {
		bs[i] = []byte(srcs[i])
	}
	p := check.VpProject(files, bs)
	cv, ok := getComplelteStruct("v.", useLine, 6)
	if !ok {
		verifViolation("", "harness: member completion request not accepted")
		return
	}
	p.ClearCompleteCache()
	p.CodeComplete(files[where], cv)
	items := p.GetCompleteCacheItems()
	verifReach("completed")
	for _, w := range want {
		has := false
		for k := range items {
			if items[k].Label == w {
				has = true
			}
		}
		if !has {
			class := ""
			if where <= 1 {
				class = "C15-split-class-own-file" // the requesting file declares P itself: only its own part is used
			}
			verifViolation(class, "a field of a class declared in several files is not offered on a variable of that class (or of a subclass)")
		}
	}
	if typ == "P" {
		for k := range items {
			if items[k].Label == "lv" {
				verifViolation("", "a field of a subclass is offered on a variable of the parent class")
			}
		}
	}
}
