//gosx:package langserver
package langserver

import (
	"luahelper-lsp/langserver/check"
	"strconv"
)

// C15: a variable annotated with a class type (directly, through aliases, as array element or as map
// value) offers exactly the ---@field members of that class and, transitively, of its parents.
// The class graph (parents of A, B, C), the alias targets and the form of the variable's type are
// solver-chosen values; the oracle is the transitive closure computed here.

var c15names = []string{"A", "B", "C"}

func VerifSetup_C15() { check.VerifSetup_Pipe() }

func VerifRun_C15() {
	nc := verifParam("CLASSES")
	parent := make([]int, nc) // -1 none, else index of the parent class
	for i := 0; i < nc; i++ {
		parent[i] = verifConcretize(verifRange("parent", 0, nc)) - 1
	}
	second := -1 // an optional second parent for class A (multiple inheritance)
	if verifParam("MULTI") == 1 {
		second = verifConcretize(verifRange("parent2", 0, nc)) - 1
	}
	target := verifConcretize(verifRange("target", 0, nc-1)) // the class the variable finally refers to
	form := verifConcretize(verifRange("form", 0, 5+verifParam("ALIASCYCLE")))
	src := ""
	line := 0
	simple := verifParamOr("SIMPLE", 0) == 1 // (job variants that vary something else keep the layout knobs fixed)
	oneBlock := !simple && verifBool("oneBlock")
	scope := ""
	if !simple {
		scope = []string{"", "public ", "protected ", "private "}[verifConcretize(verifRange("scope", 0, 3))] // documented visibility word, no effect on membership
	}
	// what stands directly above an annotation block: nothing, or a code line that ends in a trailing
	// comment (which is that line's comment, not the beginning of the block below it)
	above := 0
	if !simple {
		above = verifConcretize(verifRange("above", 0, 2))
	}
	if above == 2 {
		src += "local w0 = 1 -- note\n"
		line++
	}
	// helper aliases stacked directly on top of the first class (one comment block holding aliases and a
	// class), instead of standing in a block of their own below the classes
	stacked := verifBool("aliasOnClass")
	aliasText, aliasLines := "", 0
	// (form 2 through an alias: ---@alias M X[])
	arrayAlias := form == 2 && verifBool("arrayAlias")
	// the alias may have been retargeted in the editor since the file was saved: the saved text names another class
	aliasSaved := ""
	other := c15names[(target+1)%nc]
	if arrayAlias {
		aliasText, aliasLines = "---@alias M "+c15names[target]+"[]\n", 1
		aliasSaved = "---@alias M " + other + "[]\n"
	}
	switch form {
	case 1:
		aliasSaved = "---@alias M " + other + "\n"
		aliasText, aliasLines = "---@alias M "+c15names[target]+"\n", 1
	case 4:
		aliasText, aliasLines = "---@alias M table<B, "+c15names[target]+">\n", 1
	case 5:
		aliasText, aliasLines = "---@alias M N\n---@alias N "+c15names[target]+"\n", 2
	case 6:
		aliasText, aliasLines = "---@alias M N\n---@alias N M\n", 2
	}
	if stacked {
		src += aliasText
		line += aliasLines
	}
	fieldLine := make([]int, nc)
	for i := 0; i < nc; i++ {
		src += "---@class " + c15names[i]
		if parent[i] >= 0 {
			src += " : " + c15names[parent[i]]
			if i == 0 && second >= 0 {
				src += ", " + c15names[second]
			}
		} else if i == 0 && second >= 0 {
			src += " : " + c15names[second]
		}
		src += "\n"
		line++
		src += "---@field " + scope + "f" + c15names[i] + " number\n"
		fieldLine[i] = line
		line++
		if i == nc-1 || !oneBlock {
			src += "\n" // (all classes in one comment block when oneBlock: no blank line between them)
			line++
		}
	}
	x := c15names[target]
	typ, use := "", "v"
	cycle := false
	aliasCycle := false
	switch form {
	case 0:
		typ = x
	case 1:
		typ = "M"
	case 2:
		typ = x + "[]"
		use = "v[1]"
		if arrayAlias {
			typ = "M"
		}
	case 3:
		typ = "table<string, " + x + ">"
		use = "v.k"
	case 4:
		typ = "M"
		use = "v.k"
	case 5:
		typ = "M"
	case 6: // alias cycle, variable indexed as a map
		typ = "M"
		use = "v.k"
		aliasCycle = true
	}
	if !stacked && aliasLines > 0 {
		src += aliasText + "\n"
		line += aliasLines + 1
	}
	if above == 1 {
		src += "local w1 = 1 -- note\n"
		line++
	}
	// the variable may be the second of a declaration whose ---@type line lists one type per variable
	if form == 0 && nc > 1 && verifBool("secondVariable") {
		other := c15names[(target+1)%nc]
		src += "---@type " + other + ", " + typ + "\n"
		line++
		src += "local u, v = {}, {}\n"
		line++
	} else {
		src += "---@type " + typ + "\n"
		line++
		src += "local v = {}\n"
		line++
	}
	useLine := line
	src += "q = " + use + "\n"
	line++
	// oracle: transitive closure of the parents (cycles tolerated)
	member := make([]bool, nc)
	var visit func(c int)
	visit = func(c int) {
		if c < 0 || member[c] {
			return
		}
		member[c] = true
		visit(parent[c])
		if c == 0 {
			visit(second)
		}
	}
	visit(target)
	for i := 0; i < nc; i++ {
		j, steps := i, 0
		for j >= 0 && steps <= nc {
			j = parent[j]
			steps++
		}
		if steps > nc {
			cycle = true
		}
	}
	if second == 0 {
		cycle = true
	}
	file := "/w/a.lua"
	var p *check.AllProject
	if aliasSaved != "" && nc > 1 && verifBool("aliasRetargeted") {
		// the saved file still has the old alias target; the buffer (one didChange later) has the new one
		saved := ""
		for i := 0; i+len(aliasText) <= len(src); i++ {
			if src[i:i+len(aliasText)] == aliasText {
				saved = src[:i] + aliasSaved + src[i+len(aliasText):]
				break
			}
		}
		p = check.VpProjectEdited([]string{file}, [][]byte{[]byte(saved)}, [][]byte{[]byte(src)})
	} else {
		p = check.VpProject([]string{file}, [][]byte{[]byte(src)})
	}
	verifObserve("program", "form="+strconv.Itoa(form)+" target="+x)
	class := ""
	_ = cycle
	if aliasCycle {
		class = "C15-alias-cycle"
		for i := range member {
			member[i] = false // a cyclic alias denotes no class: no members, but also no crash
		}
	}
	verifClass(class)
	cv, ok := getComplelteStruct(use+".", useLine, 4+len(use)+1)
	if !ok {
		verifViolation("", "harness: member completion request not accepted")
		return
	}
	p.ClearCompleteCache()
	p.CodeComplete(file, cv)
	items := p.GetCompleteCacheItems()
	verifReach("completed")
	for i := 0; i < nc; i++ {
		has := false
		for k := range items {
			if items[k].Label == "f"+c15names[i] {
				has = true
			}
		}
		if member[i] && !has {
			verifViolation(class, "a declared or inherited ---@field member is not offered on the annotated variable")
		}
		if !member[i] && has {
			verifViolation(class, "a ---@field member of an unrelated class is offered on the annotated variable")
		}
	}
}
