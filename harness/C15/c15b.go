//gosx:package langserver
package langserver

import (
	"context"
	"luahelper-lsp/langserver/check"
	"luahelper-lsp/langserver/pathpre"
	lsp "luahelper-lsp/langserver/protocol"
	"strconv"
)

// C15 (classes split across files): three classes A, B, C with one field each, every class in a.lua or
// in b.lua (solver-chosen), every parent assignment including cycles, class A with an optional second
// parent listed before or after the first. The variable lives in a.lua. Member completion offers
// exactly the fields of the transitive closure; go-to-definition on an inherited member leads to its
// ---@field line in the file that declares the class.
func VerifRun_C15b() {
	const nc = 3
	pathpre.InitialRootURIAndPath("file:///w", "/w")
	parent := make([]int, nc)
	for i := 0; i < nc; i++ {
		parent[i] = verifConcretize(verifRange("parent", 0, nc)) - 1
	}
	second := verifConcretize(verifRange("parent2", 0, nc)) - 1
	secondFirst := verifBool("secondFirst")
	target := verifConcretize(verifRange("target", 0, nc-1))
	form := verifConcretize(verifRange("form", 0, verifParam("FORMS")-1))
	inB := make([]bool, nc)
	for i := 0; i < nc; i++ {
		inB[i] = verifBool("inB" + strconv.Itoa(i))
	}
	srcA, srcB := "", ""
	lineA, lineB := 0, 0
	fieldLine := make([]int, nc)
	for i := 0; i < nc; i++ {
		var ps []string
		if parent[i] >= 0 {
			ps = append(ps, c15names[parent[i]])
		}
		if i == 0 && second >= 0 && second != parent[0] {
			if secondFirst {
				ps = append([]string{c15names[second]}, ps...)
			} else {
				ps = append(ps, c15names[second])
			}
		}
		s := "---@class " + c15names[i]
		for k, pn := range ps {
			if k == 0 {
				s += " : " + pn
			} else {
				s += ", " + pn
			}
		}
		s += "\n---@field f" + c15names[i] + " number\n\n"
		if inB[i] {
			fieldLine[i] = lineB + 1
			srcB += s
			lineB += 3
		} else {
			fieldLine[i] = lineA + 1
			srcA += s
			lineA += 3
		}
	}
	x := c15names[target]
	typ, use := x, "v"
	switch form {
	case 1:
		srcB += "---@alias M " + x + "\n\n"
		typ = "M"
	case 2:
		typ = x + "[]"
		use = "v[1]"
	}
	srcA += "---@type " + typ + "\nlocal v = {}\n"
	lineA += 2
	useLine := lineA
	srcA += "q = " + use + "\n"
	lineA++
	// a second version of a.lua with a use line per member for go-to-definition (kept out of the first:
	// member names used on the variable are themselves offered by completion)
	srcA2 := srcA
	defLine := make([]int, nc)
	for i := 0; i < nc; i++ {
		srcA2 += "r = " + use + ".f" + c15names[i] + "\n"
		defLine[i] = lineA
		lineA++
	}
	srcB += "other = 1\n"
	member := make([]bool, nc)
	var visit func(c int)
	visit = func(c int) {
		if c < 0 || member[c] {
			return
		}
		member[c] = true
		visit(parent[c])
		if c == 0 {
			visit(second)
		}
	}
	visit(target)
	files := []string{"/w/a.lua", "/w/b.lua"}
	l := CreateLspServer()
	l.project = check.VpProject(files, [][]byte{[]byte(srcA), []byte(srcB)})
	l.fileCache.SetFileContent(files[0], []byte(srcA))
	l.fileCache.SetFileContent(files[1], []byte(srcB))
	p := l.project
	verifObserve("program", srcA+"=====\n"+srcB)
	cv, ok := getComplelteStruct(use+".", useLine, 4+len(use)+1)
	if !ok {
		verifViolation("", "harness: member completion request not accepted")
		return
	}
	p.ClearCompleteCache()
	p.CodeComplete(files[0], cv)
	items := p.GetCompleteCacheItems()
	verifReach("completed")
	lab := ""
	for k := range items {
		lab += items[k].Label + " "
	}
	verifObserve("items", lab)
	for i := 0; i < nc; i++ {
		has := false
		for k := range items {
			if items[k].Label == "f"+c15names[i] {
				has = true
			}
		}
		if member[i] && !has {
			verifViolation("", "a declared or inherited ---@field member is not offered on the annotated variable (classes split across files)")
		}
		if !member[i] && has {
			verifViolation("", "a ---@field member of an unrelated class is offered on the annotated variable (classes split across files)")
		}
	}
	// member go-to-definition
	l.project = check.VpProject(files, [][]byte{[]byte(srcA2), []byte(srcB)})
	l.fileCache.SetFileContent(files[0], []byte(srcA2))
	for i := 0; i < nc; i++ {
		if !member[i] {
			continue
		}
		pos := lsp.TextDocumentPositionParams{
			TextDocument: lsp.TextDocumentIdentifier{URI: lsp.DocumentURI("file://" + files[0])},
			Position:     lsp.Position{Line: uint32(defLine[i]), Character: uint32(4 + len(use) + 2)}}
		locs, _ := l.TextDocumentDefine(context.Background(), pos)
		wantFile := files[0]
		if inB[i] {
			wantFile = files[1]
		}
		okDef := false
		for _, lc := range locs {
			u := string(lc.URI)
			verifObserve("def", u+"@"+strconv.Itoa(int(lc.Range.Start.Line)))
			if len(u) >= len(wantFile) && u[len(u)-len(wantFile):] == wantFile && int(lc.Range.Start.Line) == fieldLine[i] {
				okDef = true
			}
		}
		verifReach("defined")
		if !okDef {
			verifViolation("", "go-to-definition on an inherited member does not lead to its ---@field declaration")
		}
	}
}
