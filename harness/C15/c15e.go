//gosx:package langserver
package langserver

import (
	"context"
	lsp "luahelper-lsp/langserver/protocol"
)

// C15-e: members are offered while their name is being typed. A class with fields and methods whose names
// contain digits and underscores; the variable is followed by `.` or `:` and a typed prefix of a member name
// (every prefix length, also the empty one); through the real completion handler every member whose name
// starts with what is typed is offered (after a colon: every method).
var c15eMembers = []string{"fetch_x", "fb9", "_priv", "Run", "info", "order", "bark_loud", "run2", "_hid", "done"} // the last four are methods (function Dog:name()); some names start with a reserved word

func VerifRun_C15e() {
	root := verifVFSRoot()
	src := "---@class Dog\n---@field fetch_x fun()\n---@field fb9 number\n---@field _priv number\n---@field Run fun()\n---@field info string\n---@field order number\nlocal Dog = {}\nfunction Dog:bark_loud() end\nfunction Dog:run2() end\nfunction Dog:_hid() end\nfunction Dog:done() end\n---@type Dog\nlocal d = {}\n"
	// the class variable may be declared with a filled-in constructor on its line
	if verifParamOr("CTOR", 1) == 1 && verifBool("filledConstructor") {
		for i := 0; i+len("local Dog = {}") <= len(src); i++ {
			if src[i:i+len("local Dog = {}")] == "local Dog = {}" {
				src = src[:i] + "local Dog = { legs = 4 }" + src[i+len("local Dog = {}"):]
				break
			}
		}
	}
	// a line the annotation parser rejects in the middle of the class block: the fields below it still belong
	// to the class
	if verifBool("rejectedLineInTheBlock") {
		key := "---@field fb9 number\n"
		for i := 0; i+len(key) <= len(src); i++ {
			if src[i:i+len(key)] == key {
				src = src[:i+len(key)] + "---@field style {width:number}\n" + src[i+len(key):]
				break
			}
		}
	}
	mi := verifConcretize(verifRange("member", 0, len(c15eMembers)-1))
	plen := verifConcretize(verifRange("typed", 0, 9))
	name := c15eMembers[mi]
	if plen > len(name) {
		return
	}
	sep := "."
	if verifBool("colon") {
		sep = ":"
	}
	if sep == ":" && mi < 6 {
		return // (after a colon the methods are asked for; whether function-typed fields belong there is left open)
	}
	typed := "d" + sep + name[:plen]
	line := "q = " + typed
	file := root + "/a.lua"
	verifVFSPut(file, []byte(src))
	c08view = map[string]string{}
	l := c08eServer(root, []string{file})
	ctx := context.Background()
	uri := lsp.DocumentURI("file://" + file)
	_ = l.TextDocumentDidOpen(ctx, lsp.DidOpenTextDocumentParams{TextDocument: lsp.TextDocumentItem{URI: uri, Text: src}})
	_ = l.TextDocumentDidChange(ctx, lsp.DidChangeTextDocumentParams{
		TextDocument:   lsp.VersionedTextDocumentIdentifier{TextDocumentIdentifier: lsp.TextDocumentIdentifier{URI: uri}},
		ContentChanges: []lsp.TextDocumentContentChangeEvent{{Text: src + line + "\n"}}})
	ret, err := l.TextDocumentComplete(ctx, lsp.CompletionParams{TextDocumentPositionParams: lsp.TextDocumentPositionParams{
		TextDocument: lsp.TextDocumentIdentifier{URI: uri}, Position: lsp.Position{Line: uint32(c15eLines(src)), Character: uint32(len(line))}}})
	verifReach("asked")
	if err != nil {
		verifViolation("", "a member completion request with a typed prefix fails")
		return
	}
	var res CompletionListTmp
	if x, ok := ret.(CompletionListTmp); ok {
		res = x
	}
	all := ""
	for k := range res.Items {
		all += res.Items[k].Label + ","
	}
	for _, m := range c15eMembers {
		if len(m) < plen || m[:plen] != name[:plen] {
			continue
		}
		if sep == ":" && (m == "fetch_x" || m == "fb9" || m == "_priv" || m == "Run" || m == "info" || m == "order") {
			continue
		}
		has := false
		for k := range res.Items {
			if res.Items[k].Label == m {
				has = true
			}
		}
		if !has {
			verifObserve("typed", typed+" misses "+m+" offered: "+all)
			verifViolation("", "a ---@field member whose name starts with the typed text is not offered")
			return
		}
	}
}

func c15eLines(s string) int {
	n := 0
	for i := 0; i < len(s); i++ {
		if s[i] == '\n' {
			n++
		}
	}
	return n
}
