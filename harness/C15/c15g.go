//gosx:package langserver
package langserver

import (
	"context"
	lsp "luahelper-lsp/langserver/protocol"
)

// C15-g: members of what a call returns. The variable is typed by a function type - written in place
// (`---@type fun():Foo`), through an alias (`---@alias Maker fun():Foo`), or it is a function annotated with
// `---@return Foo` - and the class, the alias and the function are declared in the same file or in another
// file of the workspace. Completion after `mk().` through the real handlers offers the fields of Foo (and the
// server survives the request).
func VerifRun_C15g() {
	root := verifVFSRoot()
	form := verifConcretize(verifRange("form", 0, 2))
	elsewhere := verifBool("declaredInAnotherFile")
	types := "---@class Foo\n---@field alpha number\n---@field beta string\nlocal Foo = {}\n"
	decl := ""
	switch form {
	case 0:
		decl = "---@type fun():Foo\nlocal mk = nil\n"
	case 1:
		types += "---@alias Maker fun():Foo\n"
		decl = "---@type Maker\nlocal mk = nil\n"
	case 2:
		decl = "---@return Foo\nfunction mk() end\n"
	}
	var src string
	files := []string{root + "/main.lua"}
	if elsewhere {
		verifVFSPut(root+"/types.lua", []byte(types))
		files = append(files, root+"/types.lua")
		src = decl
	} else {
		src = types + decl
	}
	nl := 0
	for i := 0; i < len(src); i++ {
		if src[i] == '\n' {
			nl++
		}
	}
	line := "local x = mk()."
	verifVFSPut(files[0], []byte(src))
	c08view = map[string]string{}
	l := c08eServer(root, files)
	ctx := context.Background()
	uri := lsp.DocumentURI("file://" + files[0])
	_ = l.TextDocumentDidOpen(ctx, lsp.DidOpenTextDocumentParams{TextDocument: lsp.TextDocumentItem{URI: uri, Text: src}})
	_ = l.TextDocumentDidChange(ctx, lsp.DidChangeTextDocumentParams{
		TextDocument:   lsp.VersionedTextDocumentIdentifier{TextDocumentIdentifier: lsp.TextDocumentIdentifier{URI: uri}},
		ContentChanges: []lsp.TextDocumentContentChangeEvent{{Text: src + line + "\n"}}})
	ret, err := l.TextDocumentComplete(ctx, lsp.CompletionParams{TextDocumentPositionParams: lsp.TextDocumentPositionParams{
		TextDocument: lsp.TextDocumentIdentifier{URI: uri}, Position: lsp.Position{Line: uint32(nl), Character: uint32(len(line))}},
		Context: lsp.CompletionContext{TriggerKind: lsp.TriggerCharacter, TriggerCharacter: "."}})
	verifReach("asked")
	if err != nil {
		verifViolation("", "member completion on a call result fails")
		return
	}
	res, _ := ret.(CompletionListTmp)
	hasA, hasB := false, false
	all := ""
	for k := range res.Items {
		all += res.Items[k].Label + ","
		if res.Items[k].Label == "alpha" {
			hasA = true
		}
		if res.Items[k].Label == "beta" {
			hasB = true
		}
	}
	if !hasA || !hasB {
		verifObserve("offered", all)
		verifViolation("", "the fields of the class a function-typed variable returns are not offered after a call of it")
	}
}
