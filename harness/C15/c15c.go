//gosx:package langserver
package langserver

import (
	"luahelper-lsp/langserver/check"
)

// C15-c: members assigned through the variable that follows a ---@class (documented as members of that
// class) together with inherited ---@field members: a derived class whose variable defines a member whose
// name may equal a field of the parent (an override by assignment). Completion on a variable of the
// derived type offers every declared, inherited and assigned member exactly once, and does not crash.
func VerifRun_C15c() {
	n1 := string([]byte{'u', verifByteIn("n1", "ab")})
	n2 := string([]byte{'u', verifByteIn("n2", "ab")})
	n3 := string([]byte{'u', verifByteIn("n3", "abc")})
	src := "---@class Base\n---@field " + n1 + " number\n---@field ux number\n\n"
	src += "---@class Derived : Base\n---@field own number\nlocal D = {}\n"
	switch verifConcretize(verifRange("assignform", 0, 2)) {
	case 0:
		src += "function D." + n2 + "() end\n"
	case 1:
		src += "D." + n2 + " = 1\n"
	case 2:
		src += "function D:" + n2 + "() end\n"
	}
	if verifBool("second") {
		src += "D." + n3 + " = 2\n"
	} else {
		n3 = n2
	}
	src += "\n---@type Derived\nlocal v = {}\n"
	useLine := 0
	for i := 0; i < len(src); i++ {
		if src[i] == '\n' {
			useLine++
		}
	}
	src += "q = v\n"
	file := "/w/a.lua"
	p := check.VpProject([]string{file}, [][]byte{[]byte(src)})
	verifObserve("program", src)
	cv, ok := getComplelteStruct("v.", useLine, 6)
	if !ok {
		verifViolation("", "harness: member completion request not accepted")
		return
	}
	p.ClearCompleteCache()
	p.CodeComplete(file, cv)
	items := p.GetCompleteCacheItems()
	verifReach("completed")
	count := func(l string) int {
		n := 0
		for k := range items {
			if items[k].Label == l {
				n++
			}
		}
		return n
	}
	for _, w := range []string{"own", "ux", n1, n2, n3} {
		switch c := count(w); {
		case c == 0:
			verifViolation("", "a declared, inherited or assigned member of the class is not offered on the annotated variable")
		case c > 1:
			verifViolation("", "a member is offered more than once")
		}
	}
	for k := range items {
		l := items[k].Label
		if l != "own" && l != "ux" && l != n1 && l != n2 && l != n3 {
			verifViolation("", "something that is not a member of the class or of its parents is offered")
		}
	}
}
