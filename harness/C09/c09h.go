//gosx:package langserver/check
package check

import (
	"strconv"
)

// C09-h: the diagnostics of a single file do not depend on the iteration order of Go maps. Each program
// has a scope with several unused locals of different kinds (aliases of standard functions and modules,
// literals, tables, calls, other locals, no initialiser) next to used ones, plus undefined globals and
// duplicate keys; the whole analysis runs twice in one path - with the iteration order of every small map
// explored by the engine, and with the default order. Natively the analysis is simply repeated.

var c09hTemplates = []string{
	"local tinsert = table.insert\nlocal sep = \",\"\nlocal n = 0\n",
	"local function f()\n local unpack = table.unpack\n local cache = {}\n local x\nend\nf()\n",
	"local pairs = pairs\nlocal m = math\nlocal a = g()\nlocal b = a\n",
	"local p = _G.print\nlocal q = 1\nlocal r = q\nlocal s = string.format\n",
	"local fmt = string.format\nlocal used = 1\nlocal t = { k = 1, k = 2 }\nprint(used, undefinedA, undefinedB)\n",
	"do\n local a = os.time\n local b = \"s\"\nend\ndo\n local c = 2\n local d = io.open\nend\n",
}

func c09hDigest(p *AllProject, file string) string {
	var items []string
	for _, e := range p.GetAllFileErrorInfo()[file] {
		items = append(items, strconv.Itoa(int(e.ErrType))+"@"+strconv.Itoa(e.Loc.StartLine)+":"+strconv.Itoa(e.Loc.StartColumn)+" "+e.ErrStr)
	}
	for i := range items {
		for j := i + 1; j < len(items); j++ {
			if items[j] < items[i] {
				items[i], items[j] = items[j], items[i]
			}
		}
	}
	out := ""
	for _, it := range items {
		out += it + "; "
	}
	return out
}

func VerifRun_C09h() {
	ti := verifConcretize(verifRange("template", 0, len(c09hTemplates)-1))
	file := "/w/a.lua"
	src := []byte(c09hTemplates[ti])
	if verifNative() {
		p, _ := vpProject([]string{file}, [][]byte{src})
		first := c09hDigest(p, file)
		verifReach("compared")
		verifObserve("diagnostics", first)
		for k := 0; k < 100; k++ {
			q, _ := vpProject([]string{file}, [][]byte{src})
			if c09hDigest(q, file) != first {
				verifViolation("", "the diagnostics of a file depend on map iteration order")
				return
			}
		}
		return
	}
	p1, _ := vpProject([]string{file}, [][]byte{src})
	d1 := c09hDigest(p1, file)
	verifMapOrder(false)
	p2, _ := vpProject([]string{file}, [][]byte{src})
	d2 := c09hDigest(p2, file)
	verifReach("compared")
	verifObserve("diagnostics", d2)
	if d1 != d2 {
		verifViolation("", "the diagnostics of a file depend on map iteration order")
	}
}
