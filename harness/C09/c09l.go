//gosx:package langserver/check
package check

import (
	"luahelper-lsp/langserver/check/common"
	"strconv"
)

// C09-l: project mode with two entry files that load the same module: the diagnostics of the shared module -
// including the entry file named in the published message - do not depend on map iteration order.
func c09lDigest(p *AllProject, files []string) string {
	out := ""
	m := p.GetAllFileErrorInfo()
	for _, f := range files {
		var items []string
		for _, e := range m[f] {
			ent := e.EntryFile
			if len(ent) > 9 {
				ent = ent[len(ent)-9:]
			}
			items = append(items, strconv.Itoa(int(e.ErrType))+"@"+strconv.Itoa(e.Loc.StartLine)+":"+strconv.Itoa(e.Loc.StartColumn)+"<"+ent+">")
		}
		for i := range items {
			for j := i + 1; j < len(items); j++ {
				if items[j] < items[i] {
					items[i], items[j] = items[j], items[i]
				}
			}
		}
		out += "[" + f[len(f)-9:] + ":"
		for _, it := range items {
			out += " " + it
		}
		out += "]"
	}
	return out
}

func VerifRun_C09l() {
	root := verifVFSRoot()
	dm := common.GConfig.GetDirManager()
	dm.SetVSRootDir(root)
	dm.InitMainDir()
	files := []string{root + "/main1.lua", root + "/main2.lua", root + "/commn.lua"}
	srcs := []string{"local c = require(\"commn\")\nprint(c, one)\n", "local c = require(\"commn\")\nprint(c, two)\n", "function helper() return missing_thing(1) end\nreturn helper\n"}
	for i := range files {
		verifVFSPut(files[i], []byte(srcs[i]))
	}
	entries := []string{files[0], files[1]}
	class := "C09-entry-file-tag"
	if verifNative() {
		p := CreateAllProject(files, entries, nil)
		p.HandleCheck()
		first := c09lDigest(p, files)
		verifReach("compared")
		for k := 0; k < 60; k++ {
			q := CreateAllProject(files, entries, nil)
			q.HandleCheck()
			if c09lDigest(q, files) != first {
				verifViolation(class, "in project mode the diagnostics of a module shared by two entry files (the entry file they name) depend on map iteration order")
				return
			}
		}
		return
	}
	p1 := CreateAllProject(files, entries, nil)
	p1.HandleCheck()
	d1 := c09lDigest(p1, files)
	verifMapOrder(false)
	p2 := CreateAllProject(files, entries, nil)
	p2.HandleCheck()
	d2 := c09lDigest(p2, files)
	verifReach("compared")
	if d1 != d2 {
		verifObserve("digests", d1+" / "+d2)
		verifViolation(class, "in project mode the diagnostics of a module shared by two entry files (the entry file they name) depend on map iteration order")
	}
}
