//gosx:package langserver/check
package check

import (
	"luahelper-lsp/langserver/check/common"
	"strconv"
)

// C09-c: the outcome of the whole analysis (all three passes through the real worker pools) does not
// depend on the order in which worker results arrive. The same workspace is analysed twice in one path:
// once with every arrival order explored by the solver-driven scheduler, once with the fixed default
// order; diagnostics and the answer to a cross-file go-to-definition must be identical.

func c09digest(p *AllProject, files []string, src []byte) string {
	out := c08diag(p, files)
	// definition of the global read in the last file
	last := files[len(files)-1]
	vs := GetVarStruct(src, 4, 0, 4)
	for _, d := range p.FindVarDefineInfo(last, &vs) {
		out += " def=" + d.StrFile[len(d.StrFile)-5:] + ":" + strconv.Itoa(d.Loc.StartLine)
	}
	return out
}

func VerifRun_C09c() {
	root := verifVFSRoot()
	dm := common.GConfig.GetDirManager()
	dm.SetVSRootDir(root)
	dm.InitMainDir()
	nf := verifParam("FILES")
	files := make([]string, nf)
	var use []byte
	g := verifByteIn("g", "xy")
	class := ""
	type drec struct{ s, l int }
	var recs []drec
	for i := 0; i < nf; i++ {
		files[i] = root + "/" + string([]byte{'a' + byte(i)}) + ".lua"
		var src []byte
		if i < nf-1 {
			// a definition of a global; the nesting of the definition is symbolic (top level or inside a do block)
			n := g // SAMENAME=1: every defining file defines the global that is read (duplicate definitions only)
			if verifParam("SAMENAME") != 1 {
				n = verifByteIn("n"+string([]byte{'0' + byte(i)}), "xy")
			}
			r := drec{0, 1}
			if verifBool("nested") {
				src = []byte("do\n ? = 1\nend\nlocal u = 1\n")
				src[4] = n
				r = drec{1, 2}
			} else {
				src = []byte("? = 1\nlocal u = 1\n")
				src[0] = n
			}
			if verifBool("lower") { // the definition one line further down
				src = append([]byte("\n"), src...)
				r.l++
			}
			if n == g {
				recs = append(recs, r)
			}
		} else {
			src = []byte("q = ?\n")
			src[4] = g
			use = src
		}
		verifVFSPut(files[i], src)
	}
	// several files define the global: the merge rule keeps a later record only if it beats (at most as deep,
	// strictly earlier line) all earlier ones, so the winner is order-dependent exactly when two of the
	// records are incomparable (neither beats the other) - the known defect. Comparable records must give
	// the same winner in every order.
	for i := range recs {
		for j := i + 1; j < len(recs); j++ {
			ij := recs[i].s <= recs[j].s && recs[i].l < recs[j].l
			ji := recs[j].s <= recs[i].s && recs[j].l < recs[i].l
			if !ij && !ji {
				class = "C09-global-multi-def"
			}
		}
	}
	p1 := CreateAllProject(files, nil, nil)
	p1.HandleCheck()
	d1 := c09digest(p1, files, use)
	verifSched(false)
	verifMapOrder(false)
	p2 := CreateAllProject(files, nil, nil)
	p2.HandleCheck()
	d2 := c09digest(p2, files, use)
	if class == "" {
		verifObserve("digest", d2) // natively the orders are whatever the runtime picks: only order-independent outcomes can be compared
	}
	verifReach("compared")
	if d1 != d2 {
		verifViolation(class, "diagnostics or a definition answer depend on the arrival order of worker results or on map iteration order")
	}
}
