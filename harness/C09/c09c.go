//gosx:package langserver/check
package check

import (
	"luahelper-lsp/langserver/check/common"
	"strconv"
)

// C09-c: the outcome of the whole analysis (all three passes through the real worker pools) does not
// depend on the order in which worker results arrive. The same workspace is analysed twice in one path:
// once with every arrival order explored by the solver-driven scheduler, once with the fixed default
// order; diagnostics and the answer to a cross-file go-to-definition must be identical.

func c09digest(p *AllProject, files []string, src []byte) string {
	out := c08diag(p, files)
	// definition of the global read in the last file
	last := files[len(files)-1]
	vs := GetVarStruct(src, 4, 0, 4)
	for _, d := range p.FindVarDefineInfo(last, &vs) {
		out += " def=" + d.StrFile[len(d.StrFile)-5:] + ":" + strconv.Itoa(d.Loc.StartLine)
	}
	return out
}

func VerifRun_C09c() {
	root := verifVFSRoot()
	dm := common.GConfig.GetDirManager()
	dm.SetVSRootDir(root)
	dm.InitMainDir()
	nf := verifParam("FILES")
	files := make([]string, nf)
	var use []byte
	g := verifByteIn("g", "xy")
	class := ""
	defs := 0
	for i := 0; i < nf; i++ {
		files[i] = root + "/" + string([]byte{'a' + byte(i)}) + ".lua"
		var src []byte
		if i < nf-1 {
			// a definition of a global; the nesting of the definition is symbolic (top level or inside a do block)
			n := verifByteIn("n"+string([]byte{'0' + byte(i)}), "xy")
			if verifBool("nested") {
				src = []byte("do\n ? = 1\nend\nlocal u = 1\n")
				src[4] = n
			} else {
				src = []byte("? = 1\nlocal u = 1\n")
				src[0] = n
			}
			if n == g {
				defs++
			}
		} else {
			src = []byte("q = ?\n")
			src[4] = g
			use = src
		}
		verifVFSPut(files[i], src)
	}
	if defs > 1 {
		class = "C09-global-multi-def" // several files define the global: which one wins is a known order-dependent choice
	}
	p1 := CreateAllProject(files, nil, nil)
	p1.HandleCheck()
	d1 := c09digest(p1, files, use)
	verifSched(false)
	p2 := CreateAllProject(files, nil, nil)
	p2.HandleCheck()
	d2 := c09digest(p2, files, use)
	verifObserve("digest", d2)
	verifReach("compared")
	if d1 != d2 {
		verifViolation(class, "diagnostics or a definition answer depend on the arrival order of worker results")
	}
}
