//gosx:package langserver/check
package check

import (
	"luahelper-lsp/langserver/check/common"
	"strconv"
)

// C09-n: workspace-symbol answers on a workspace with more symbols than the answer limit (200). Three files
// with 70 globals each, a handful of which match the query: the answer - as a set and in its order - is the
// same on every run, whatever the order in which the files are visited and the workers finish.
func c09nAnswer(p *AllProject, q string) string {
	out := ""
	for _, s := range p.FindWorkspaceAllSymbol(q) {
		f := s.FileName
		if len(f) > 6 {
			f = f[len(f)-6:]
		}
		out += s.Name + "@" + f + ":" + strconv.Itoa(s.Loc.StartLine) + " "
	}
	return out
}

func VerifRun_C09n() {
	root := verifVFSRoot()
	dm := common.GConfig.GetDirManager()
	dm.SetVSRootDir(root)
	dm.InitMainDir()
	files := []string{root + "/a.lua", root + "/b.lua", root + "/c.lua"}
	// optionally one generated file that alone has more symbols than the limit (error codes); the other files
	// are small then
	big := verifBool("bigFile")
	per := 70
	if big {
		per = 6
	}
	for fi, f := range files {
		src := ""
		for i := 0; i < per; i++ {
			name := "item" + string(rune('A'+fi)) + strconv.Itoa(i)
			if i%27 == 5 {
				name = "alphaBeta" + string(rune('A'+fi)) + strconv.Itoa(i)
			}
			src += name + " = " + strconv.Itoa(i) + "\n"
		}
		verifVFSPut(f, []byte(src))
	}
	if big {
		src := ""
		for i := 0; i < 215; i++ {
			src += "ERR_CODE_" + strconv.Itoa(1000+i) + " = " + strconv.Itoa(i) + "\n"
		}
		verifVFSPut(root+"/errcode.lua", []byte(src))
		files = append(files, root+"/errcode.lua")
	}
	queries := []string{"alpha", "zzz", "itemB7"}
	if big {
		queries = []string{"ERR_CODE", "alpha"}
	}
	q := queries[verifConcretize(verifRange("query", 0, len(queries)-1))]
	msg := "a workspace-symbol query on a workspace with more symbols than the answer limit is answered differently from run to run"
	if verifNative() {
		p := CreateAllProject(files, nil, nil)
		p.HandleCheck()
		first := c09nAnswer(p, q)
		verifReach("compared")
		for k := 0; k < 40; k++ {
			r := CreateAllProject(files, nil, nil)
			r.HandleCheck()
			if c09nAnswer(r, q) != first {
				verifViolation("", msg)
				return
			}
		}
		return
	}
	p1 := CreateAllProject(files, nil, nil)
	p1.HandleCheck()
	a1 := c09nAnswer(p1, q)
	verifMapOrder(false)
	verifMapReverse(true) // every map, whatever its size, is now walked in the opposite order
	p2 := CreateAllProject(files, nil, nil)
	p2.HandleCheck()
	a2 := c09nAnswer(p2, q)
	verifMapReverse(false)
	verifReach("compared")
	if a1 != a2 {
		verifViolation("", msg)
	}
}
