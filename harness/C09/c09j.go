//gosx:package langserver/check
package check

import (
	"luahelper-lsp/langserver/check/common"
	"strconv"
)

// C09-j: nested members added to a global table by different files: a.lua declares the table, b.lua adds a
// sub-table, c.lua adds a member to that sub-table and uses it. The answers about the nested member must not
// depend on the order in which the files' results are merged.
func c09jDigest(p *AllProject, file string, src []byte) string {
	out := ""
	off := 0
	for src[off] != '\n' {
		off++
	}
	off++
	for _, col := range []int{4, 8, 12} { // Foo, sub, x in "q = Foo.sub.x"
		vs := GetVarStruct(src, off+col, 1, uint32(col))
		out += "|"
		for _, d := range p.FindVarDefineInfo(file, &vs) {
			out += " " + d.StrFile[len(d.StrFile)-5:] + ":" + strconv.Itoa(d.Loc.StartLine) + ":" + strconv.Itoa(d.Loc.StartColumn)
		}
	}
	return out
}

func VerifRun_C09j() {
	root := verifVFSRoot()
	dm := common.GConfig.GetDirManager()
	dm.SetVSRootDir(root)
	dm.InitMainDir()
	files := []string{root + "/a.lua", root + "/b.lua", root + "/c.lua"}
	use := []byte("Foo.sub.x = 1\nq = Foo.sub.x\n")
	srcs := []string{"Foo = {}\n", "Foo.sub = {}\n", string(use)}
	for i := range files {
		verifVFSPut(files[i], []byte(srcs[i]))
	}
	class := "C09-nested-member-from-two-files"
	if verifNative() {
		p := CreateAllProject(files, nil, nil)
		p.HandleCheck()
		first := c09jDigest(p, files[2], use)
		verifReach("compared")
		for k := 0; k < 80; k++ {
			q := CreateAllProject(files, nil, nil)
			q.HandleCheck()
			if c09jDigest(q, files[2], use) != first {
				verifViolation(class, "the definition of a nested member added by another file depends on map iteration order")
				return
			}
		}
		return
	}
	p1 := CreateAllProject(files, nil, nil)
	p1.HandleCheck()
	d1 := c09jDigest(p1, files[2], use)
	verifMapOrder(false)
	p2 := CreateAllProject(files, nil, nil)
	p2.HandleCheck()
	d2 := c09jDigest(p2, files[2], use)
	verifReach("compared")
	if d1 != d2 {
		verifObserve("answers", d1+" / "+d2)
		verifViolation(class, "the definition of a nested member added by another file depends on map iteration order")
	}
}
