//gosx:package langserver/check
package check

// C09-g: hover and completion texts that list the members of a table do not depend on map iteration
// order - also when member names differ only in letter case (capitalised aliases kept for compatibility).
// The hover is computed once with every iteration order of the small maps explored and once with the
// default order.
func VerifRun_C09g() {
	names := [][2]string{{"new", "New"}, {"len", "Len"}, {"add", "sub"}}
	pick := names[verifConcretize(verifRange("pair", 0, len(names)-1))]
	src := []byte("local V = {}\nV." + pick[0] + " = 1\nV." + pick[1] + " = 2\nV.zz = 3\nlocal q = V\n")
	file := "/w/a.lua"
	verifMapOrder(false)
	p, _ := vpProject([]string{file}, [][]byte{src})
	hov := func() string {
		vs, _ := c12query(src, 5, 10)
		label, doc, _ := p.GetLspHoverVarStr(file, &vs)
		return label + "|" + doc
	}
	verifMapOrder(true)
	h1 := hov()
	verifMapOrder(false)
	h2 := hov()
	verifObserve("hover", h2)
	verifReach("compared")
	if h1 != h2 {
		verifViolation("", "the hover text of a table depends on map iteration order")
	}
}
