//gosx:package langserver/check/results
package results

import (
	"luahelper-lsp/langserver/check/common"
	"luahelper-lsp/langserver/check/compiler/lexer"
)


type rec struct{ f, s, l int }

func small(tag string) int {
	v := verifRange(tag, 0, 3)
	return v
}

func mk(file string, r rec) *common.VarInfo {
	return common.CreateOneGlobal(file, r.f, r.s, lexer.Location{StartLine: r.l + 1, EndLine: r.l + 1, StartColumn: 0, EndColumn: 1}, false, nil, nil, file)
}

func winner(order []*common.VarInfo) string {
	third := CreateAnalysisThirdAllStruct()
	for _, v := range order {
		if third.JudgeShouldInsertGlobalInfo("g", v) {
			third.InsertThirdGlobalGMaps("g", v)
		}
	}
	ok, w := third.FindThirdGlobalGInfo(false, "g", "")
	if !ok {
		return ""
	}
	return w.FileName
}

func VerifRun_C09a() {
	ra := rec{small("af"), small("as"), small("al")}
	rb := rec{small("bf"), small("bs"), small("bl")}
	a, b := mk("a.lua", ra), mk("b.lua", rb)
	w1 := winner([]*common.VarInfo{a, b})
	w2 := winner([]*common.VarInfo{b, a})
	verifReach("compared")
	// x beats y: x is at most as deep as y in both levels and on a strictly earlier line. The merge rule
	// keeps the later-merged record only if it beats every record merged before, so the outcome is
	// order-independent exactly when one of the two records beats the other.
	beats := func(x, y rec) bool { return x.f <= y.f && x.s <= y.s && x.l < y.l }
	if w1 != w2 {
		switch {
		case ra == rb:
			verifViolation("C09-global-tie", "equal (funcLv,scopeLv,line) in two files: winner depends on merge order")
		case !beats(ra, rb) && !beats(rb, ra):
			verifViolation("C09-global-nonlex", "comparison is not a total order: winner depends on merge order")
		default:
			verifViolation("", "one definition beats the other under the merge rule, yet the winner depends on merge order")
		}
	} else if beats(ra, rb) && w1 != "a.lua" || beats(rb, ra) && w1 != "b.lua" {
		verifViolation("", "the definition that beats the other under the merge rule (shallower, earlier line) is not the one chosen")
	}
}
