//gosx:package langserver/check
package check

import (
	"luahelper-lsp/langserver/check/common"
	"strconv"
)

// C09-d: the document outline and the workspace-symbol answer do not depend on the iteration order of
// Go maps. The outline is computed twice in one path: with the iteration order of every small map
// explored by the engine, and with the default order; natively the request is simply repeated (Go
// randomises map iteration).

func c09symDigest(v []common.FileSymbolStruct) string {
	var items []string
	var walk func(v []common.FileSymbolStruct, prefix string)
	walk = func(v []common.FileSymbolStruct, prefix string) {
		for i := range v {
			s := &v[i]
			items = append(items, prefix+s.Name+"@"+strconv.Itoa(s.Loc.StartLine)+":"+strconv.Itoa(s.Loc.StartColumn)+"-"+strconv.Itoa(s.Loc.EndLine)+":"+strconv.Itoa(s.Loc.EndColumn))
			walk(s.Children, prefix+s.Name+">")
		}
	}
	walk(v, "")
	for i := range items {
		for j := i + 1; j < len(items); j++ {
			if items[j] < items[i] {
				items[i], items[j] = items[j], items[i]
			}
		}
	}
	out := ""
	for _, it := range items {
		out += it + " "
	}
	return out
}

var c09dTemplates = []string{
	"Config = { a = 1, name = 2, timeout_seconds = 3 }\n",
	"local T = {}\nfunction T.f() end\nfunction T.longer_name(x, y) end\nT.k = 1\n",
	"G = { k = function() end, n = 1 }\nH = { p = 1, qq = 2 }\n",
}

func VerifRun_C09d() {
	ti := verifConcretize(verifRange("template", 0, len(c09dTemplates)-1))
	file := "/w/a.lua"
	p, _ := vpProject([]string{file}, [][]byte{[]byte(c09dTemplates[ti])})
	verifReach("outlined")
	if verifNative() {
		first := c09symDigest(p.FindFileAllSymbol(file))
		verifObserve("outline", first)
		for k := 0; k < 200; k++ {
			if c09symDigest(p.FindFileAllSymbol(file)) != first {
				verifViolation("", "the document outline depends on map iteration order")
				return
			}
		}
		return
	}
	d1 := c09symDigest(p.FindFileAllSymbol(file))
	verifMapOrder(false)
	d2 := c09symDigest(p.FindFileAllSymbol(file))
	verifObserve("outline", d2)
	if d1 != d2 {
		verifViolation("", "the document outline depends on map iteration order")
	}
}
