//gosx:package langserver/check
package check

import (
	"luahelper-lsp/langserver/check/common"
	"strconv"
)

// C09-i: a global table defined in two files (on different lines, so that the winning definition is well
// defined) and extended by a third file that only adds members (and uses them). Definition of such a member and of the
// table must not depend on the order in which the files' results are merged: the whole
// analysis runs with every iteration order of the small maps (the set of analysed files among them) and with
// the default order. Natively the analysis is repeated on fresh projects.

func c09iDigest(p *AllProject, file string, src []byte) string {
	out := ""
	off := 0
	for k := 0; k < 2; k++ { // the query line is the third line of the file
		for src[off] != '\n' {
			off++
		}
		off++
	}
	for _, col := range []int{4, 8} { // `Cfg` and `getServer` in "q = Cfg.getServer"
		vs := GetVarStruct(src, off+col, 2, uint32(col))
		out += "|"
		for _, d := range p.FindVarDefineInfo(file, &vs) {
			out += " " + d.StrFile[len(d.StrFile)-5:] + ":" + strconv.Itoa(d.Loc.StartLine)
		}
	}
	vh := GetVarStruct(src, off+8, 2, 8)
	label, _, _ := p.GetLspHoverVarStr(file, &vh)
	return out + "|" + label
}

func VerifRun_C09i() {
	root := verifVFSRoot()
	dm := common.GConfig.GetDirManager()
	dm.SetVSRootDir(root)
	dm.InitMainDir()
	files := []string{root + "/a.lua", root + "/b.lua", root + "/c.lua"}
	// which of the two defining files has the definition further down
	defA, defB := "Cfg = Cfg or {}\nCfg.name = 1\n", "\n\n\nCfg = Cfg or {}\nCfg.version = 2\n"
	if verifBool("swap") {
		defA, defB = defB, defA
	}
	use := []byte("function Cfg.getServer() end\nCfg.timeout = 3\nq = Cfg.getServer\nr = Cfg\n")
	srcs := []string{defA, defB, string(use)}
	for i := range files {
		verifVFSPut(files[i], []byte(srcs[i]))
	}
	if verifNative() {
		p := CreateAllProject(files, nil, nil)
		p.HandleCheck()
		first := c09iDigest(p, files[2], use)
		verifReach("compared")
		verifObserve("answers", first)
		for k := 0; k < 60; k++ {
			q := CreateAllProject(files, nil, nil)
			q.HandleCheck()
			if c09iDigest(q, files[2], use) != first {
				verifViolation("", "the definition of a member added to a global table from another file depends on map iteration order")
				return
			}
		}
		return
	}
	p1 := CreateAllProject(files, nil, nil)
	p1.HandleCheck()
	d1 := c09iDigest(p1, files[2], use)
	verifMapOrder(false)
	p2 := CreateAllProject(files, nil, nil)
	p2.HandleCheck()
	d2 := c09iDigest(p2, files[2], use)
	verifReach("compared")
	verifObserve("answers", d2)
	if d1 != d2 {
		verifViolation("", "the definition of a member added to a global table from another file depends on map iteration order")
	}
}
