//gosx:package langserver/check
package check

import "luahelper-lsp/langserver/check/common"

// C09-f: the outcome of watched-file batches does not depend on the order in which the first-pass workers
// deliver their results: two batches of "changed" events (in each, one file really changed and the other
// is byte-identical to what was analysed last) are applied once with every arrival order explored and once
// with the default order; diagnostics must agree (and equal those of a fresh start).
func VerifRun_C09f() {
	root := verifVFSRoot()
	dm := common.GConfig.GetDirManager()
	dm.SetVSRootDir(root)
	dm.InitMainDir()
	a, b, c := root+"/a.lua", root+"/b.lua", root+"/c.lua"
	files := []string{a, b, c}
	v0 := []string{"ga = 1\n", "gb = 1\n", "q = ga + gb\n"}
	which := verifConcretize(verifRange("which", 0, 1)) // the file that really changes in the second batch
	run := func() string {
		for i, f := range files {
			verifVFSPut(f, []byte(v0[i]))
		}
		p := CreateAllProject(files, nil, nil)
		p.HandleCheck()
		// batch 1: both touched, a gets an unused local
		verifVFSPut(a, []byte("ga = 1\nlocal ua = 2\n"))
		p.HandleFileEventChanges([]FileEventStruct{{StrFile: a, Type: FileEventChanged}, {StrFile: b, Type: FileEventChanged}})
		// batch 2: one of them changes again (its global is renamed, so c.lua gets an undefined read), the other is identical
		if which == 0 {
			verifVFSPut(a, []byte("gx = 1\nlocal ua = 2\n"))
		} else {
			verifVFSPut(b, []byte("gy = 1\nlocal ub = 3\n"))
		}
		p.HandleFileEventChanges([]FileEventStruct{{StrFile: a, Type: FileEventChanged}, {StrFile: b, Type: FileEventChanged}})
		return c08diag(p, files)
	}
	d1 := run()
	verifSched(false)
	d2 := run()
	fresh := CreateAllProject(files, nil, nil)
	fresh.HandleCheck()
	d3 := c08diag(fresh, files)
	verifObserve("digest", d2)
	verifReach("compared")
	if d1 != d2 {
		verifViolation("", "the diagnostics after watched-file batches depend on the arrival order of worker results")
	}
	if d2 != d3 {
		verifViolation("", "the diagnostics after watched-file batches differ from those of a fresh start")
	}
}
