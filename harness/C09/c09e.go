//gosx:package langserver/check
package check

import (
	"luahelper-lsp/langserver/check/common"
	"strconv"
)

// C09-e: the answer to find-references on a global used in more files than the reference pool has workers
// does not depend on which worker gets which file nor on the order in which their results arrive: the
// request is made once with every arrival order explored by the solver-driven scheduler and once with the
// default order; both answers must be the same set - and the expected one (one use per file).
func c09refDigest(v []DefineStruct) string {
	var items []string
	for _, d := range v {
		items = append(items, d.StrFile[len(d.StrFile)-5:]+":"+strconv.Itoa(d.Loc.StartLine)+":"+strconv.Itoa(d.Loc.StartColumn))
	}
	for i := range items {
		for j := i + 1; j < len(items); j++ {
			if items[j] < items[i] {
				items[i], items[j] = items[j], items[i]
			}
		}
	}
	s := ""
	for _, it := range items {
		s += it + " "
	}
	return s
}

func VerifRun_C09e() {
	root := verifVFSRoot()
	dm := common.GConfig.GetDirManager()
	dm.SetVSRootDir(root)
	dm.InitMainDir()
	nf := verifParam("FILES")
	files := make([]string, nf)
	want := ""
	var first []byte
	for i := 0; i < nf; i++ {
		files[i] = root + "/" + string([]byte{'a' + byte(i)}) + ".lua"
		var src []byte
		if i == 0 {
			src = []byte("gg = 1\n")
			first = src
		} else {
			// the use sits on a line of its own in every file
			for k := 0; k < i; k++ {
				src = append(src, []byte("-- filler\n")...)
			}
			src = append(src, []byte("q"+strconv.Itoa(i)+" = gg\n")...)
		}
		verifVFSPut(files[i], src)
	}
	verifSched(false)
	p := CreateAllProject(files, nil, nil)
	p.HandleCheck()
	vs := GetVarStruct(first, 0, 0, 0)
	verifSched(true)
	v1 := vs
	d1 := c09refDigest(p.FindReferences(files[0], &v1, common.CRSReference))
	verifSched(false)
	v2 := vs
	d2 := c09refDigest(p.FindReferences(files[0], &v2, common.CRSReference))
	verifObserve("references", d2)
	verifReach("compared")
	if d1 != d2 {
		verifViolation("", "the answer to find-references depends on the arrival order of worker results")
	}
	_ = want
	n := 0
	for i := 0; i < len(d2); i++ {
		if d2[i] == ' ' {
			n++
		}
	}
	if n != nf {
		verifViolation("", "find-references on a global used once per file does not return one location per file")
	}
}
