//gosx:package langserver/check/common
package common

// C09-b: which file a require() resolves to must not depend on map iteration order / tie order.
// The index is an insertion-ordered map in the engine, so the two insertion orders below are two
// iteration orders; natively (replay) iteration order is random, so the native branch repeats the call.

func c09seg(tag string) string { return string([]byte{verifByteIn(tag, "ab")}) }

// reference score as documented in the source comments: fewer directories in front of the match is
// better, then more leading directories shared with the requiring file.
func c09ref(cur, cand []string) (depth, common int) {
	depth = len(cand)
	for i := range cand {
		if i >= len(cur) || cand[i] != cur[i] {
			break
		}
		common++
	}
	return
}

func VerifRun_C09b() {
	n := verifParam("CANDS")
	cur := []string{c09seg("c"), c09seg("c")}
	curFile := "/r/" + cur[0] + "/" + cur[1] + "/m.lua"
	dirs := make([][]string, n)
	files := make([]string, n)
	for i := 0; i < n; i++ {
		dirs[i] = []string{c09seg("d"), c09seg("d")}
		files[i] = "/r/" + dirs[i][0] + "/" + dirs[i][1] + "/x.lua"
		for j := 0; j < i; j++ {
			verifAssume(files[i] != files[j])
		}
	}
	// reference: unique best?
	best, tie := 0, false
	for i := 1; i < n; i++ {
		_, cb := c09ref(cur, dirs[best])
		_, ci := c09ref(cur, dirs[i])
		if ci > cb {
			best, tie = i, false
		} else if ci == cb {
			tie = true
		}
	}
	class := ""
	if tie {
		class = "C09-path-tie"
	}
	verifReach("compared")
	if verifNative() {
		seen := ""
		for k := 0; k < 300; k++ {
			idx := CreateFileIndexInfo()
			for _, f := range files {
				idx.InsertOneFile(f)
			}
			got := GetBestMatchReferFile(curFile, "x", nil, idx)
			if k > 0 && got != seen {
				verifViolation(class, "require resolution depends on iteration order")
				return
			}
			seen = got
		}
		if !tie && seen != files[best] {
			verifViolation(class, "require does not resolve to the documented best match")
		}
		return
	}
	fwd := CreateFileIndexInfo()
	for i := 0; i < n; i++ {
		fwd.InsertOneFile(files[i])
	}
	bwd := CreateFileIndexInfo()
	for i := n - 1; i >= 0; i-- {
		bwd.InsertOneFile(files[i])
	}
	g1 := GetBestMatchReferFile(curFile, "x", nil, fwd)
	g2 := GetBestMatchReferFile(curFile, "x", nil, bwd)
	if g1 != g2 {
		verifViolation(class, "require resolution depends on iteration order")
	} else if !tie && g1 != files[best] {
		verifViolation(class, "require does not resolve to the documented best match")
	}
}
