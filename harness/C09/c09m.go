//gosx:package langserver/check
package check

import (
	"luahelper-lsp/langserver/check/common"
	"strconv"
)

// C09-m: project mode with two entry files of different sizes that both load one module: requests made from
// the shared module are answered in the context of ONE of the projects (the one with the most files). Which
// one must not depend on map iteration order: go-to-definition and hover on a global that only the bigger
// project defines give the same answer in every run.
func c09mAnswer(p *AllProject, file string, src string) string {
	out := ""
	for _, needle := range []string{"spawn(1)", "limit + 1"} {
		off := -1
		for i := 0; i+len(needle) <= len(src); i++ {
			if src[i:i+len(needle)] == needle {
				off = i
				break
			}
		}
		line, col := 0, 0
		for i := 0; i < off; i++ {
			if src[i] == '\n' {
				line++
				col = 0
			} else {
				col++
			}
		}
		vs := GetVarStruct([]byte(src), off+1, uint32(line), uint32(col+1))
		vs2 := vpCopyVS(vs)
		d := p.FindVarDefineInfo(file, &vs)
		out += needle + " ->"
		for _, x := range d {
			f := x.StrFile
			if len(f) > 10 {
				f = f[len(f)-10:]
			}
			out += " " + f + ":" + strconv.Itoa(x.Loc.StartLine)
		}
		label, _, _ := p.GetLspHoverVarStr(file, &vs2)
		out += " {" + label + "}; "
	}
	return out
}

func VerifRun_C09m() {
	root := verifVFSRoot()
	dm := common.GConfig.GetDirManager()
	dm.SetVSRootDir(root)
	dm.InitMainDir()
	files := []string{root + "/game.lua", root + "/tools.lua", root + "/commn.lua", root + "/player.lua", root + "/world.lua"}
	srcs := []string{
		"local c = require(\"commn\")\nlocal p = require(\"player\")\nlocal w = require(\"world\")\nprint(c, p, w)\n",
		"local c = require(\"commn\")\nprint(c)\n",
		"function helper() return spawn(1) end\nfunction bound() return limit + 1 end\nreturn helper\n",
		"function spawn(n) return n end\nreturn spawn\n",
		"limit = 10\nreturn limit\n",
	}
	for i := range files {
		verifVFSPut(files[i], []byte(srcs[i]))
	}
	entries := []string{files[0], files[1]}
	msg := "in project mode the answer to a request made from a module shared by two entry files depends on map iteration order (or is not given in the context of the project with the most files)"
	if verifNative() {
		p := CreateAllProject(files, entries, nil)
		p.HandleCheck()
		first := c09mAnswer(p, files[2], srcs[2])
		verifReach("compared")
		for k := 0; k < 60; k++ {
			q := CreateAllProject(files, entries, nil)
			q.HandleCheck()
			ans := c09mAnswer(q, files[2], srcs[2])
			if ans != first {
				verifViolation("", msg)
				return
			}
			if !c09mHas(ans, "player.lua:1") {
				verifViolation("", msg)
				return
			}
		}
		return
	}
	p1 := CreateAllProject(files, entries, nil)
	p1.HandleCheck()
	a1 := c09mAnswer(p1, files[2], srcs[2])
	verifMapOrder(false)
	p2 := CreateAllProject(files, entries, nil)
	p2.HandleCheck()
	a2 := c09mAnswer(p2, files[2], srcs[2])
	verifReach("compared")
	if a1 != a2 {
		verifObserve("answers", a1+" / "+a2)
		verifViolation("", msg)
	}
	// the bigger project (game.lua) is the context: its globals are found
	if !c09mHas(a1, "player.lua:1") {
		verifObserve("answers", a1)
		verifViolation("", msg)
	}
}

func c09mHas(s, sub string) bool {
	for i := 0; i+len(sub) <= len(s); i++ {
		if s[i:i+len(sub)] == sub {
			return true
		}
	}
	return false
}
