//gosx:package langserver/check/common
package common

import "strconv"

// C09-k: whether a diagnostic is shown does not depend on the iteration order of the configuration's maps.
// luahelper.json gives per-file type rules that overlap (a folder rule and a more specific file rule with
// different type lists, in either order in the file); for every (file, type) pair the answer of
// IsIgnoreErrorFile under every iteration order of the rule maps equals the answer under the default order,
// and equals the documented meaning (some matching rule lists the type).
func VerifSetup_C09k() {
	GlobalConfigDefautInit()
	GConfig.IntialGlobalVar()
}

func VerifRun_C09k() {
	root := verifVFSRoot()
	t1 := verifConcretize(verifRange("folderType", 0, 2))
	t2 := verifConcretize(verifRange("fileType", 0, 2))
	types := []int{2, 4, 10}
	e1 := "{\"File\": \"thirdparty/\", \"Types\": [" + strconv.Itoa(types[t1]) + "]}"
	e2 := "{\"File\": \"thirdparty/json.lua\", \"Types\": [" + strconv.Itoa(types[t2]) + "]}"
	e3 := "{\"File\": \"json\", \"Types\": [5]}"
	if verifBool("swapped") {
		e1, e2 = e2, e1
	}
	js := "{\n \"BaseDir\": \"./\",\n \"ShowWarnFlag\": 1,\n \"IgnoreFileErrTypes\": [\n  " + e1 + ",\n  " + e2 + ",\n  " + e3 + "\n ]\n}\n"
	verifVFSPut(root+"/luahelper.json", []byte(js))
	GConfig.dirManager.SetVSRootDir(root)
	GConfig.dirManager.InitMainDir()
	if err := GConfig.ReadConfig(root, "luahelper.json", nil, nil, nil); err != nil {
		verifViolation("", "a well-formed luahelper.json is rejected")
		return
	}
	files := []string{"thirdparty/json.lua", "thirdparty/base.lua", "main.lua"}
	ask := func() string {
		out := ""
		for _, f := range files {
			for _, t := range []int{2, 4, 5, 10} {
				if GConfig.IsIgnoreErrorFile(root+"/"+f, CheckErrorType(t)) {
					out += "1"
				} else {
					out += "0"
				}
			}
		}
		return out
	}
	d1 := ask()
	verifMapOrder(false)
	d2 := ask()
	verifReach("asked")
	verifObserve("answers", d2)
	if d1 != d2 {
		verifViolation("", "whether a diagnostic is ignored depends on the iteration order of the per-file rules")
	}
	// documented meaning
	want := ""
	for _, f := range files {
		for _, t := range []int{2, 4, 5, 10} {
			ign := false
			if f != "main.lua" && t == types[t1] {
				ign = true
			}
			if f == "thirdparty/json.lua" && (t == types[t2] || t == 5) {
				ign = true
			}
			if ign {
				want += "1"
			} else {
				want += "0"
			}
		}
	}
	if d2 != want {
		verifViolation("", "overlapping per-file type rules do not combine as documented (a type is ignored in a file iff some matching rule lists it)")
	}
}
