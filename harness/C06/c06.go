//gosx:package langserver/check
package check

import (
	"luahelper-lsp/langserver/check/common"
	"strconv"
)

// C06: find-references from every identifier occurrence returns exactly the occurrences with the same
// binding (reference binder), declaration included (ReferenceDefineFlag is on by default).

func c06sameBinding(r *rbT, a, b *rbOcc) bool {
	if a.file != b.file && (a.decl >= 0 || b.decl >= 0) {
		return false
	}
	if a.decl >= 0 || b.decl >= 0 {
		return a.decl == b.decl
	}
	return a.name == b.name
}

// c06tainted: some occurrence of this name in the file sits in one of the C05 defect classes (the
// position-based resolver mis-binds it), so reference sets of that name inherit the defect.
func c06tainted(r *rbT, name string) bool {
	for i := range r.occs {
		o := &r.occs[i]
		if o.name == name && c05class(r, o) != "" {
			return true
		}
	}
	return false
}

func c06taintedBy(r *rbT, name, class string) bool {
	for i := range r.occs {
		o := &r.occs[i]
		if o.name == name && c05class(r, o) == class {
			return true
		}
	}
	return false
}

func c06check(p *AllProject, r *rbT, files []string, srcs [][]byte, oi int, src common.CheckReferenceSrc, tag string, prefix string) {
	for end := 0; end < 2; end++ {
		c06check1(p, r, files, srcs, oi, src, tag, prefix, end)
	}
}

func c06check1(p *AllProject, r *rbT, files []string, srcs [][]byte, oi int, src common.CheckReferenceSrc, tag string, prefix string, end int) {
	o := &r.occs[oi]
	if vpSkipName(o.name) || o.loc.StartLine == 0 {
		return
	}
	if o.decl < 0 && len(r.globalDefs(o.name)) == 0 {
		return // undefined name: there is no variable whose occurrences could be listed
	}
	text := srcs[o.file]
	ls := vpLineStarts(text)
	col := o.loc.StartColumn
	if end == 1 {
		col = o.loc.EndColumn
	}
	off := ls[o.loc.StartLine-1] + col
	vs := GetVarStruct(text, off, uint32(o.loc.StartLine-1), uint32(col))
	var got []DefineStruct
	if vs.ValidFlag && len(vs.StrVec) > 0 {
		got = p.FindReferences(files[o.file], &vs, src)
	}
	class := ""
	if c05class(r, o) != "" || c06taintedBy(r, o.name, "C05-initialiser") {
		// the position-based resolver mis-binds the query position itself, or the name occurs in the initialiser
		// of a local statement that declares it (the traversal attributes that occurrence to the new local)
		class = prefix + "-inherits-C05"
	} else if o.decl < 0 && verifParamOr("EDITED", 0) == 2 {
		// known defect: the occurrences of a global are looked up in the saved analysis of the defining file
		// while the definition comes from the analysis of the edited buffer
		class = prefix + "-global-in-edited-file"
	} else if o.decl < 0 && r.globalMixedDepth(o.name) {
		class = prefix + "-global-mixed-depth"
	} else if r.isColonReceiver(o.name) {
		class = prefix + "-self-receiver"
	} else if o.decl < 0 && r.globalMultiFile(o.name) {
		class = prefix + "-global-multi-file-def"
	}
	verifReach(tag)
	verifObserve(tag, o.name+" at "+strconv.Itoa(o.loc.StartLine)+":"+strconv.Itoa(col)+" -> "+strconv.Itoa(len(got)))
	// Inside the multi-file-definition class the server's notion of "the same variable" is one symbol per
	// defining file. The result must still be consistent with that notion: every returned location
	// resolves, via go-to-definition, to the declaration the query position resolves to.
	if class == prefix+"-global-multi-file-def" && vs.ValidFlag && len(vs.StrVec) > 0 {
		vq := vs
		defQ := p.FindVarDefineInfo(files[o.file], &vq)
		for _, g := range got {
			for fi := range files {
				if files[fi] != g.StrFile {
					continue
				}
				l := vpLineStarts(srcs[fi])
				if g.Loc.StartLine < 1 || g.Loc.StartLine > len(l) {
					continue
				}
				goff := l[g.Loc.StartLine-1] + g.Loc.StartColumn
				vg := GetVarStruct(srcs[fi], goff, uint32(g.Loc.StartLine-1), uint32(g.Loc.StartColumn))
				if !vg.ValidFlag || len(vg.StrVec) == 0 {
					continue
				}
				defG := p.FindVarDefineInfo(files[fi], &vg)
				same := len(defG) == len(defQ)
				for k := 0; same && k < len(defG); k++ {
					same = defG[k].StrFile == defQ[k].StrFile && locEq(defG[k].Loc, defQ[k].Loc)
				}
				if !same {
					verifViolation("", tag+": a returned location is bound (go-to-definition) to a different declaration than the query position")
				}
			}
		}
	}
	// completeness
	for j := range r.occs {
		w := &r.occs[j]
		if w.loc.StartLine == 0 || !c06sameBinding(r, o, w) {
			continue
		}
		found := false
		for _, g := range got {
			if g.StrFile == files[w.file] && locEq(g.Loc, w.loc) {
				found = true
			}
		}
		if !found {
			verifViolation(class, tag+": an occurrence of the same variable is missing from the result")
			break
		}
	}
	// soundness
	for _, g := range got {
		ok := false
		for j := range r.occs {
			w := &r.occs[j]
			if g.StrFile == files[w.file] && locEq(g.Loc, w.loc) && c06sameBinding(r, o, w) {
				ok = true
			}
		}
		if !ok {
			verifViolation(class, tag+": the result contains a location that is not an occurrence of the same variable")
			break
		}
	}
	if src == common.CRSRename {
		for _, g := range got {
			for fi := range files {
				if files[fi] != g.StrFile {
					continue
				}
				t := srcs[fi]
				l := vpLineStarts(t)
				if g.Loc.StartLine < 1 || g.Loc.StartLine > len(l) || g.Loc.StartLine != g.Loc.EndLine {
					verifViolation(class, tag+": an edit range is not inside one line of the document")
					return
				}
				a, b := l[g.Loc.StartLine-1]+g.Loc.StartColumn, l[g.Loc.StartLine-1]+g.Loc.EndColumn
				if a < 0 || b > len(t) || a >= b || string(t[a:b]) != o.name {
					verifViolation(class, tag+": the text under an edit range is not the renamed identifier")
					return
				}
			}
		}
		for i := range got {
			for j := i + 1; j < len(got); j++ {
				x, y := got[i].Loc, got[j].Loc
				if got[i].StrFile == got[j].StrFile && x.StartLine == y.StartLine && x.StartColumn < y.EndColumn && y.StartColumn < x.EndColumn {
					verifViolation(class, tag+": two edits overlap")
					return
				}
			}
		}
	}
	// no duplicates
	for i := range got {
		for j := i + 1; j < len(got); j++ {
			if got[i].StrFile == got[j].StrFile && locEq(got[i].Loc, got[j].Loc) {
				verifViolation(class, tag+": the result lists a location twice")
				return
			}
		}
	}
}

func VerifRun_C06() {
	lo, hi := verifParam("TMIN"), verifParam("TMAX")
	extra := verifParamOr("TEXTRA", 0) // one more template from beyond the shared range
	if extra > 0 {
		hi++
	}
	ti := verifConcretize(verifRange("template", lo, hi))
	if extra > 0 && ti == hi {
		ti = extra
	}
	t := vpTemplates[ti]
	if verifParam("LAYOUTS") > 1 && verifConcretize(verifRange("layout", 0, 1)) == 1 {
		t = vpOneLine(t)
	}
	files := []string{"/w/a.lua"}
	srcs := [][]byte{vpInstantiate(t, "n")}
	p, fs := vpProject(files, srcs)
	r := rbBind(fs)
	for oi := range r.occs {
		c06check(p, r, files, srcs, oi, common.CRSReference, "references", "C06")
	}
	verifReach("done")
}

func VerifRun_C11() {
	lo, hi := verifParam("TMIN"), verifParam("TMAX")
	extra := verifParamOr("TEXTRA", 0) // one more template from beyond the shared range
	if extra > 0 {
		hi++
	}
	ti := verifConcretize(verifRange("template", lo, hi))
	if extra > 0 && ti == hi {
		ti = extra
	}
	t := vpTemplates[ti]
	if verifParam("LAYOUTS") > 1 && verifConcretize(verifRange("layout", 0, 1)) == 1 {
		t = vpOneLine(t)
	}
	files := []string{"/w/a.lua"}
	srcs := [][]byte{vpInstantiate(t, "n")}
	p, fs := vpProject(files, srcs)
	r := rbBind(fs)
	for oi := range r.occs {
		c06check(p, r, files, srcs, oi, common.CRSRename, "rename", "C11")
	}
	verifReach("done")
}

// ---- multi-file: globals across files through the real reference worker pool

var c06multi = [][]string{
	{"\x01 = 1\ng = \x01\n", "h = \x02\n", "k = \x03\n\x03 = 2\n", "m = \x04\n"},
	{"local M = {}\nM.f = \x01\nreturn M\n", "local M = {}\n\x02 = M\nreturn M\n", "q = \x03\n", "r = \x04\n"},
	// the same global declared at the same line and column of two files, used in the others
	{"\x01 = 1\n", "h = \x02\ni = \x02\n", "\x03 = 2\n", "m = \x04\n"},
	// a use at the line and column at which another file declares the global
	{"\x01 = {}\n", "\x02.y = 2\n", "print(\x03)\n", "\x04 = nil\n"},
	// a global named like its module file, loaded by a bare require statement / a require assigned to a global
	{"a = {}\na.v = 1\n", "require(\"a\")\nq = a.v\nh = a\n", "r = require(\"a\")\ns = a\nt = r\n", "m = \x04\n"},
	// project globals named like names the server knows by itself (file, import)
	{"file = {}\nfile.v = 1\n", "q = file.v\nh = file\n", "import = 1\n", "m = import\nn = \x04\n"},
}

func c06multiRun(src common.CheckReferenceSrc, tag, prefix string) {
	root := verifVFSRoot()
	c08workspaceRoot(root)
	ti := verifConcretize(verifRange("template", 0, len(c06multi)-1))
	t := c06multi[ti]
	files := make([]string, len(t))
	srcs := make([][]byte, len(t))
	var names [10]byte
	var have [10]bool
	for i := range t {
		files[i] = root + "/" + string([]byte{'a' + byte(i)}) + ".lua"
		b := []byte(t[i])
		for j, c := range b {
			if c >= 1 && c <= 9 {
				if !have[c] {
					names[c] = verifByteIn("n"+string([]byte{'0' + c}), "xy")
					have[c] = true
				}
				b[j] = names[c]
			}
		}
		srcs[i] = b
	}
	p, fs := vpProject(files, srcs)
	r := rbBind(fs)
	for oi := range r.occs {
		c06check(p, r, files, srcs, oi, src, tag, prefix)
	}
	verifReach("done")
}

func c08workspaceRoot(root string) {
	dm := common.GConfig.GetDirManager()
	dm.SetVSRootDir(root)
	dm.InitMainDir()
}

func VerifRun_C06multi() { c06multiRun(common.CRSReference, "references", "C06") }
func VerifRun_C11multi() { c06multiRun(common.CRSRename, "rename", "C11") }

// go-to-definition across files (C05): same workspaces, every occurrence, both cursor ends
func VerifRun_C05multi() {
	root := verifVFSRoot()
	c08workspaceRoot(root)
	ti := verifConcretize(verifRange("template", 0, len(c06multi)-1))
	t := c06multi[ti]
	files := make([]string, len(t))
	srcs := make([][]byte, len(t))
	var names [10]byte
	var have [10]bool
	for i := range t {
		files[i] = root + "/" + string([]byte{'a' + byte(i)}) + ".lua"
		b := []byte(t[i])
		for j, c := range b {
			if c >= 1 && c <= 9 {
				if !have[c] {
					names[c] = verifByteIn("n"+string([]byte{'0' + c}), "xy")
					have[c] = true
				}
				b[j] = names[c]
			}
		}
		srcs[i] = b
	}
	p, fs := vpProject(files, srcs)
	r := rbBind(fs)
	for oi := range r.occs {
		c05check(p, r, files, srcs, oi)
	}
	verifReach("done")
}
