//gosx:package langserver/check
package check

import (
	"luahelper-lsp/langserver/check/common"
	"strconv"
)

// C04-d: the ranges returned for table members - definition, references and the document outline - cover
// exactly the member's name. Members are created by constructors, by plain assignments and implicitly as
// the intermediate keys of a chained assignment (t.a.b = v creates a). Key names are two letters, the
// second symbolic over {a,b}.
var c04dTemplates = []string{
	/* 0 */ "local t = {}\nt.n\x01.p\x02 = 1\nt.n\x01.h\x02 = 2\nq = t.n\x01\nr = t.n\x01.p\x02\n",
	/* 1 */ "g = {}\ng.n\x01.p\x02.d\x03 = 1\nq = g.n\x01.p\x02\nr = g.n\x01\n",
	/* 2 */ "local t = { k\x01 = { m\x02 = 1 } }\nt.k\x01.z\x03 = 2\nq = t.k\x01.m\x02 + t.k\x01.z\x03\n",
	/* 3 */ "local t = {}\nfunction t.f\x01(x) end\nfunction t:m\x02(y) end\nt.v\x03 = t.f\x01\nt:m\x02()\n",
	// members reached through an anonymous table literal that a function returns
	/* 4 */ "local function mk() return { p\x01 = 800, h\x02 = { d\x03 = \"s\" }, f\x01 = function(v) return v end } end\nlocal v = mk()\nq = v.p\x01\nr = v.h\x02.d\x03\nv.f\x01(1)\n",
	/* 5 */ "function Mk() return { p\x01 = { 1, 2 }, h\x02 = nil } end\nlocal v = Mk()\nq = v.p\x01\nr = v.h\x02\n",
	// members three and four levels deep, used and re-assigned
	/* 6 */ "local t = { w\x01 = { x\x02 = { y\x03 = 1 } } }\nq = t.w\x01.x\x02.y\x03\nt.w\x01.x\x02.y\x03 = 2\nr = t.w\x01.x\x02\n",
	/* 7 */ "Se = {}\nSe.w\x01 = { x\x02 = 1, h\x03 = 2 }\nSe.w\x01.x\x02 = Se.w\x01.h\x03\nprint(Se.w\x01.x\x02)\n",
	// a member written with a bracketed string key beside the dotted form
	/* 8 */ "local t = {}\nt[\"k\x01\"] = 1\nq = t.k\x01\nt.k\x01 = t[\"k\x01\"] + 1\n",
}

func VerifRun_C04d() {
	ti := verifConcretize(verifRange("template", 0, len(c04dTemplates)-1))
	t := c04dTemplates[ti]
	if verifConcretize(verifRange("layout", 0, 1)) == 1 {
		t = vpOneLine(t)
	}
	src := []byte(t)
	var names [10]byte
	var have [10]bool
	for i, c := range src {
		if c >= 1 && c <= 9 {
			if !have[c] {
				names[c] = verifByteIn("n"+string([]byte{'0' + c}), "ab")
				have[c] = true
			}
			src[i] = names[c]
		}
	}
	file := "/w/a.lua"
	p, _ := vpProject([]string{file}, [][]byte{src})
	line, col := 1, 0
	for i := 0; i+1 < len(src); i++ {
		if i >= 1 && (t[i-1] == '.' || t[i-1] == ':') && t[i] >= 'a' && t[i] <= 'z' && t[i+1] >= 1 && t[i+1] <= 9 {
			name := string(src[i : i+2])
			vs := GetVarStruct(src, vpLineStarts(src)[line-1]+col, uint32(line-1), uint32(col))
			if vs.ValidFlag && len(vs.StrVec) > 0 {
				verifReach("member")
				vs2 := vpCopyVS(vs)
				// (when a member cannot be resolved the answer falls back to the variable it is reached
				// through: that range names the variable, and must cover exactly the variable's name)
				chain := map[string]bool{name: true}
				if ti < 6 { // (templates 6 and 7 only contain members that are declared: no fallback there)
					for _, s := range vs.StrVec {
						chain[s] = true
					}
				}
				for _, d := range p.FindVarDefineInfo(file, &vs) {
					if d.StrFile != file {
						continue
					}
					if x, ok := c04text(src, d.Loc.StartLine, d.Loc.StartColumn, d.Loc.EndColumn); !ok || !chain[x] {
						verifObserve("bad-definition", name+" -> "+strconv.Itoa(d.Loc.StartLine)+":"+strconv.Itoa(d.Loc.StartColumn)+"-"+strconv.Itoa(d.Loc.EndColumn)+" "+x)
						verifViolation(c04quotedClass(x, name), "the definition range of a table member does not cover exactly the member's name")
					}
				}
				for _, d := range p.FindReferences(file, &vs2, common.CRSReference) {
					if d.StrFile != file {
						continue
					}
					if x, ok := c04text(src, d.Loc.StartLine, d.Loc.StartColumn, d.Loc.EndColumn); !ok || !chain[x] {
						verifObserve("bad-reference", name+" -> "+strconv.Itoa(d.Loc.StartLine)+":"+strconv.Itoa(d.Loc.StartColumn)+"-"+strconv.Itoa(d.Loc.EndColumn)+" "+x)
						verifViolation(c04quotedClass(x, name), "a reference range of a table member does not cover exactly the member's name")
					}
				}
			}
		}
		if src[i] == '\n' {
			line++
			col = 0
		} else {
			col++
		}
	}
	verifReach("done")
}

// C04-e: document-highlight answers carry no file name - every range belongs to the requested document.
// Two-file workspaces: a global function / table / module defined in one file and used in the other; the
// highlight of every use (and of the definitions) must consist of ranges whose text, in the requested
// file, is the identifier.
var c04eFiles = [][2]string{
	{"function Fo\x01(n) return n end\nSe\x02 = { re\x03 = 3 }\nlocal pad = 1\n", "print(Fo\x01(1))\nlocal s = Se\x02.re\x03\nlocal t = Se\x02\nprint(s, t, Fo\x01)\n"},
	{"local M = {}\nM.fo\x01 = 1\nfunction M.ba\x02(x) return x end\nreturn M\n", "local m = require(\"a\")\nprint(m.fo\x01, m.ba\x02(2))\nm.ba\x02(3)\n"},
	// members added to a global table from another file
	{"Co\x01 = {}\nlocal pad = 1\n", "\n\nCo\x01.ex\x02 = 2\nfunction Co\x01.re\x03(x) return x end\nprint(Co\x01.ex\x02, Co\x01.re\x03(1))\n"},
	// a module that returns a table literal directly
	{"return { wi\x01 = 800, na\x02 = \"demo\", co\x03 = { gr\x01 = 1 }, on\x02 = function(v) return v end }\n", "local c = require(\"a\")\nprint(c.wi\x01, c.na\x02, c.co\x03.gr\x01)\nc.on\x02(1)\n"},
}

func VerifRun_C04e() {
	ti := verifConcretize(verifRange("template", 0, len(c04eFiles)-1))
	var names [10]byte
	var have [10]bool
	files := []string{"/w/a.lua", "/w/b.lua"}
	srcs := make([][]byte, 2)
	tmpl := make([]string, 2)
	for k := 0; k < 2; k++ {
		tmpl[k] = c04eFiles[ti][k]
		b := []byte(tmpl[k])
		for i, c := range b {
			if c >= 1 && c <= 9 {
				if !have[c] {
					names[c] = verifByteIn("n"+string([]byte{'0' + c}), "ab")
					have[c] = true
				}
				b[i] = names[c]
			}
		}
		srcs[k] = b
	}
	pathpreInit04()
	p, _ := vpProject(files, srcs)
	for fi := 0; fi < 2; fi++ {
		src, t := srcs[fi], tmpl[fi]
		line, col := 1, 0
		for i := 0; i+2 < len(src); i++ {
			// a three-character identifier whose last character is a hole
			if t[i+2] >= 1 && t[i+2] <= 9 && (i == 0 || !(t[i-1] >= 'a' && t[i-1] <= 'z' || t[i-1] >= 'A' && t[i-1] <= 'Z')) {
				name := string(src[i : i+3])
				vs := GetVarStruct(src, vpLineStarts(src)[line-1]+col, uint32(line-1), uint32(col))
				if vs.ValidFlag && len(vs.StrVec) > 0 {
					verifReach("highlight")
					vsd := vpCopyVS(vs)
					for _, d := range p.FindVarDefineInfo(files[fi], &vsd) {
						// (a definition may lie in the other file)
						dsrc := srcs[0]
						if d.StrFile == files[1] {
							dsrc = srcs[1]
						} else if d.StrFile != files[0] {
							continue
						}
						if x, ok := c04text(dsrc, d.Loc.StartLine, d.Loc.StartColumn, d.Loc.EndColumn); !ok || x != name {
							verifViolation("", "a definition range (possibly in another file) does not cover exactly the identifier it names")
						}
					}
					vsr := vpCopyVS(vs)
					for _, d := range p.FindReferences(files[fi], &vsr, common.CRSReference) {
						dsrc := srcs[0]
						if d.StrFile == files[1] {
							dsrc = srcs[1]
						} else if d.StrFile != files[0] {
							continue
						}
						if x, ok := c04text(dsrc, d.Loc.StartLine, d.Loc.StartColumn, d.Loc.EndColumn); !ok || x != name {
							verifObserve("bad-reference", name+" -> "+d.StrFile+" "+strconv.Itoa(d.Loc.StartLine)+":"+strconv.Itoa(d.Loc.StartColumn)+"-"+strconv.Itoa(d.Loc.EndColumn)+" "+x)
							class := ""
							if ok && len(x) > 0 && x[0] == '{' && d.Loc.StartLine == d.Loc.EndLine {
								// known defect: a member of a table literal that a module returns directly is listed
								// with the range of the whole constructor
								class = "C04-member-reference-is-constructor"
							}
							verifViolation(class, "a reference range (possibly in another file) does not cover the identifier in the document it is reported for")
						}
					}
					for _, d := range p.FindReferences(files[fi], &vs, common.CRSHighlight) {
						if x, ok := c04text(src, d.Loc.StartLine, d.Loc.StartColumn, d.Loc.EndColumn); !ok || x != name {
							verifViolation("", "a document-highlight range does not cover the identifier in the requested document")
						}
					}
				}
			}
			if src[i] == '\n' {
				line++
				col = 0
			} else {
				col++
			}
		}
	}
	verifReach("done")
}

func pathpreInit04() {
	dm := common.GConfig.GetDirManager()
	dm.SetVSRootDir("/w")
	dm.InitMainDir()
}

// C04-f: reference and rename ranges of a workspace-wide symbol belong to the document they are reported for,
// also when the workspace has more files than the reference search has workers (a worker then handles
// several files). The global function is defined in a.lua and called once in each of FILES-1 other files, in
// every file on another line and at another column; every returned (document, range) pair must show the
// identifier in that document's text.
func VerifRun_C04f() {
	nf := verifParam("FILES")
	n1 := verifByteIn("n1", "ab")
	name := "Fo" + string([]byte{n1})
	files := make([]string, nf)
	srcs := make([][]byte, nf)
	files[0] = "/w/a.lua"
	srcs[0] = []byte("function " + name + "(n) return n end\n")
	for k := 1; k < nf; k++ {
		files[k] = "/w/m" + string([]byte{'0' + byte(k)}) + ".lua"
		s := ""
		for j := 0; j < k; j++ {
			s += "-- line " + string([]byte{'0' + byte(j)}) + "\n"
		}
		pad := ""
		for j := 0; j < k; j++ {
			pad += " "
		}
		s += "do\n" + pad + "print(" + name + "(" + string([]byte{'0' + byte(k)}) + "))\nend\n"
		srcs[k] = []byte(s)
	}
	pathpreInit04()
	p, _ := vpProject(files, srcs)
	for _, mode := range []common.CheckReferenceSrc{common.CRSReference, common.CRSRename} {
		vs := GetVarStruct(srcs[0], 10, 0, 10)
		refs := p.FindReferences(files[0], &vs, mode)
		verifReach("references")
		if len(refs) < nf-1 {
			verifViolation("", "a workspace-wide reference search misses files")
		}
		for _, d := range refs {
			var dsrc []byte
			for k := range files {
				if files[k] == d.StrFile {
					dsrc = srcs[k]
				}
			}
			if dsrc == nil {
				verifViolation("", "a reference is reported for a document that is not in the workspace")
				continue
			}
			if x, ok := c04text(dsrc, d.Loc.StartLine, d.Loc.StartColumn, d.Loc.EndColumn); !ok || x != name {
				verifViolation("", "a reference range does not cover the identifier in the document it is reported for")
			}
		}
	}
}


// known defect: a member written as a bracketed string key (t["k"]) is located with its quotes
func c04quotedClass(text, name string) string {
	if text == "\""+name+"\"" || text == "'"+name+"'" {
		return "C04-bracket-string-key"
	}
	return ""
}
