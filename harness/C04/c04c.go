//gosx:package langserver/lspcommon
package lspcommon

import (
	"luahelper-lsp/langserver/check/compiler/parser"
)

// C04-c: the range of every syntax diagnostic lies inside the document (start <= end, line below the
// number of lines, character within the line). The document is an unterminated construct followed by N
// symbolic bytes of line ends, blanks and a few letters, so that the error is reported at or near the end
// of the file under every line-ending convention (LF, CRLF, CR, none, mixed).
var c04cPrefixes = []string{
	"function f()",
	"local a = 1\r\nfunction f()",
	"x = (1",
	"if x then",
	"local s = \"ab",
	"local t = { 1,",
	"x = 1 +",
	"for i = 1, 2 do",
}

func VerifRun_C04c() {
	n := verifParam("N")
	pi := verifConcretize(verifRange("prefix", 0, len(c04cPrefixes)-1))
	tail := verifBytesIn("tail", n, "\r\n e1")
	doc := append([]byte(c04cPrefixes[pi]), tail...)
	// class predicates (same defects as for identifier tokens): LF CR pairs are one line end for the lexer
	class := ""
	for i := 0; i+1 < len(doc); i++ {
		if doc[i] == '\n' && doc[i+1] == '\r' {
			class = "C04-lfcr"
		}
	}
	p := parser.CreateParser(doc, "x.lua")
	_, _, errs := p.BeginAnalyze()
	verifReach("parsed")
	for k := range errs {
		loc := errs[k].Loc
		r := LocToRange(&loc)
		verifReach("diagnostic")
		if r.Start.Line > r.End.Line || (r.Start.Line == r.End.Line && r.Start.Character > r.End.Character) {
			verifViolation(class, "a syntax diagnostic has a range whose start is after its end")
			continue
		}
		_, sok, _, _, sclamp := refOffset(doc, r.Start.Line, r.Start.Character)
		_, eok, _, _, eclamp := refOffset(doc, r.End.Line, r.End.Character)
		if !sok || !eok {
			verifViolation(class, "a syntax diagnostic points to a line the document does not have")
			continue
		}
		if sclamp || eclamp {
			verifViolation(class, "a syntax diagnostic points beyond the end of its line")
		}
	}
}
