//gosx:package langserver
package langserver

import (
	"context"
	lsp "luahelper-lsp/langserver/protocol"
)

// C04-h: ranges refer to the text the client has now. A variable is renamed in the editor with one cursor
// per occurrence: ONE didChange notification carrying one incremental change per occurrence (sent from the
// end of the document to its start, or from the start with the positions already shifted, as editors do),
// the new name shorter, as long or longer than the old one. Afterwards every range answered by
// definition, references and documentSymbol, cut out of the client's own copy of the text, spells the
// identifier it is supposed to name.
const c04hOld = "cfg"

var c04hLines = []string{
	"local cfg = {}",
	"function cfg.load(path) return path end",
	"cfg.debug = true",
	"print(cfg.debug, cfg.load(\"x\"))",
}

// occurrences of the variable: line, column
var c04hOcc = [][2]int{{0, 6}, {1, 9}, {2, 0}, {3, 6}, {3, 17}}

func c04hCut(lines []string, r lsp.Range) (string, bool) {
	if r.Start.Line != r.End.Line || int(r.Start.Line) >= len(lines) {
		return "", false
	}
	l := lines[r.Start.Line]
	if r.Start.Character > r.End.Character || int(r.End.Character) > len(l) {
		return "", false
	}
	return l[r.Start.Character:r.End.Character], true
}

func VerifRun_C04h() {
	root := verifVFSRoot()
	file := root + "/a.lua"
	src := ""
	for _, l := range c04hLines {
		src += l + "\n"
	}
	verifVFSPut(file, []byte(src))
	c08view = map[string]string{}
	l := c08eServer(root, []string{file})
	ctx := context.Background()
	uri := lsp.DocumentURI("file://" + file)
	_ = l.TextDocumentDidOpen(ctx, lsp.DidOpenTextDocumentParams{TextDocument: lsp.TextDocumentItem{URI: uri, Text: src}})
	newName := []string{"c", "cf", "cfx", "conf", "config", "configuration"}[verifConcretize(verifRange("newName", 0, 5))]
	ascending := verifBool("ascending")
	// the client's copy and the changes
	lines := append([]string(nil), c04hLines...)
	var changes []lsp.TextDocumentContentChangeEvent
	shift := map[int]int{} // per line: how far later columns have moved (ascending order only)
	order := []int{}
	for i := 0; i < len(c04hOcc); i++ {
		order = append(order, i)
	}
	if !ascending {
		for i, j := 0, len(order)-1; i < j; i, j = i+1, j-1 {
			order[i], order[j] = order[j], order[i]
		}
	}
	for _, oi := range order {
		ln, col := c04hOcc[oi][0], c04hOcc[oi][1]
		if ascending {
			col += shift[ln]
			shift[ln] += len(newName) - len(c04hOld)
		}
		rg := lsp.Range{Start: lsp.Position{Line: uint32(ln), Character: uint32(col)}, End: lsp.Position{Line: uint32(ln), Character: uint32(col + len(c04hOld))}}
		changes = append(changes, lsp.TextDocumentContentChangeEvent{Range: &rg, RangeLength: uint32(len(c04hOld)), Text: newName})
		lines[ln] = lines[ln][:col] + newName + lines[ln][col+len(c04hOld):]
	}
	_ = l.TextDocumentDidChange(ctx, lsp.DidChangeTextDocumentParams{
		TextDocument:   lsp.VersionedTextDocumentIdentifier{TextDocumentIdentifier: lsp.TextDocumentIdentifier{URI: uri}},
		ContentChanges: changes})
	verifReach("edited")
	at := func(line, col int) lsp.TextDocumentPositionParams {
		return lsp.TextDocumentPositionParams{TextDocument: lsp.TextDocumentIdentifier{URI: uri}, Position: lsp.Position{Line: uint32(line), Character: uint32(col)}}
	}
	// references of the renamed variable, asked on its declaration
	refs, _ := l.TextDocumentReferences(ctx, lsp.ReferenceParams{TextDocumentPositionParams: at(0, 6)})
	if len(refs) != len(c04hOcc) {
		verifViolation("", "after a multi-cursor edit the references of the renamed variable are not its occurrences in the current text")
	}
	for _, r := range refs {
		if s, ok := c04hCut(lines, r.Range); !ok || s != newName {
			verifViolation("", "after a multi-cursor edit a reference range does not cover the identifier in the client's text")
			break
		}
	}
	// definition of the member `load`, asked on its use in the last line
	useCol := -1
	last := lines[3]
	for i := 0; i+5 <= len(last); i++ {
		if last[i:i+5] == ".load" {
			useCol = i + 1
		}
	}
	defs, _ := l.TextDocumentDefine(ctx, at(3, useCol))
	if len(defs) != 1 {
		verifViolation("", "after a multi-cursor edit the definition of a member is not found")
	} else if s, ok := c04hCut(lines, defs[0].Range); !ok || s != "load" {
		verifViolation("", "after a multi-cursor edit a definition range does not cover the identifier in the client's text")
	}
	// the outline names what the text declares
	syms, _ := l.TextDocumentSymbol(ctx, lsp.DocumentSymbolParams{TextDocument: lsp.TextDocumentIdentifier{URI: uri}})
	verifReach("asked")
	okTable, okFn := false, false
	var walk func(v []lsp.DocumentSymbol)
	walk = func(v []lsp.DocumentSymbol) {
		for i := range v {
			n := v[i].Name
			if n == "local "+newName || n == newName {
				okTable = true
			}
			if len(n) >= 4 && (n == "load(path)" || n == newName+".load(path)" || n == "load") {
				okFn = true
			}
			walk(v[i].Children)
		}
	}
	walk(syms)
	if !okTable || !okFn {
		verifViolation("", "after a multi-cursor edit the outline does not name the declarations of the current text")
	}
}
