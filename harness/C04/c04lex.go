//gosx:package langserver/check/compiler/lexer
package lexer

// VerifTokenInfo exposes kind and text of the current token to harnesses in other packages.
func VerifTokenInfo(l *Lexer) (TkKind, string) {
	return l.nowToken.tokenKind, l.nowToken.tokenStr
}
