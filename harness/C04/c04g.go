//gosx:package langserver
package langserver

import (
	"context"
	lsp "luahelper-lsp/langserver/protocol"
)

// C04-g: go-to-definition on a TYPE NAME written in an annotation comment (---@type / ---@param / ---@return /
// ---@field / a parent after ---@class) through the real handler: every returned location names a document of
// the workspace and its range covers exactly that type name in THAT document - for classes and aliases
// declared in the same file and in another file.
func c04gText(src string, r lsp.Range) (string, bool) {
	line, col, a, b := 0, 0, -1, -1
	for i := 0; i <= len(src); i++ {
		if line == int(r.Start.Line) && col == int(r.Start.Character) {
			a = i
		}
		if line == int(r.End.Line) && col == int(r.End.Character) {
			b = i
		}
		if i < len(src) && src[i] == '\n' {
			line++
			col = 0
		} else {
			col++
		}
	}
	if a < 0 || b < a {
		return "", false
	}
	return src[a:b], true
}

func VerifRun_C04g() {
	root := verifVFSRoot()
	n1 := string([]byte{byte(verifConcretize(int(verifByteIn("n1", "ab"))))})
	n2 := string([]byte{byte(verifConcretize(int(verifByteIn("n2", "ab"))))})
	cu, ac, lo := "Cu"+n1, "Ac"+n2, "Lo"+n1
	// the declaring lines may carry a description after the name, in ASCII or not
	desc := []string{"", " @account data", " @\xe7\x8e\xa9\xe5\xae\xb6\xe6\x95\xb0\xe6\x8d\xae"}[verifConcretize(verifRange("description", 0, 2))]
	types := "---@alias " + cu + " number\n\n---@class " + ac + desc + "\n---@field bal " + cu + desc + "\nlocal " + ac + " = {}\nreturn " + ac + "\n"
	use := "-- header\n-- header\n-- header\n-- header\n-- header\n-- header\n-- header\n---@alias " + lo + " string\n\n---@class Sv" + n2 + " : " + ac + "\n---@field cur " + lo + "\nlocal Sv = {}\n\n---@type " + cu + "\nlocal v = 1\n---@param p " + ac + "\n---@return " + lo + "\nfunction f(p) return v end\n"
	fa, fb := root+"/types.lua", root+"/use.lua"
	// the file on disk may start with a UTF-8 byte order mark, which is not part of the document's text
	if verifBool("byteOrderMark") {
		verifVFSPut(fa, []byte("\xef\xbb\xbf"+types))
	} else {
		verifVFSPut(fa, []byte(types))
	}
	verifVFSPut(fb, []byte(use))
	c08view = map[string]string{}
	l := c08eServer(root, []string{fa, fb})
	ctx := context.Background()
	ub := lsp.DocumentURI("file://" + fb)
	_ = l.TextDocumentDidOpen(ctx, lsp.DidOpenTextDocumentParams{TextDocument: lsp.TextDocumentItem{URI: ub, Text: use}})
	texts := map[string]string{"file://" + fa: types, "file://" + fb: use}
	asked := 0
	line, col := 0, 0
	for i := 0; i+3 <= len(use); i++ {
		for _, name := range []string{cu, ac, lo} {
			// an occurrence of the name inside an annotation line, not its own declaration
			if use[i:i+3] == name && i > 0 && (use[i-1] == ' ' || use[i-1] == ':') && (i+3 == len(use) || use[i+3] == '\n') {
				ls := i
				for ls > 0 && use[ls-1] != '\n' {
					ls--
				}
				if len(use) >= ls+10 && use[ls:ls+10] == "---@alias " {
					continue
				}
				locs, _ := l.TextDocumentDefine(ctx, lsp.TextDocumentPositionParams{TextDocument: lsp.TextDocumentIdentifier{URI: ub}, Position: lsp.Position{Line: uint32(line), Character: uint32(col + 1)}})
				asked++
				if len(locs) == 0 {
					verifViolation("", "go-to-definition on a declared annotation type finds nothing")
				}
				for _, lc := range locs {
					src, ok := texts[string(lc.URI)]
					if !ok {
						verifViolation("", "a definition of an annotation type names a document that is not in the workspace")
						continue
					}
					if x, ok2 := c04gText(src, lc.Range); !ok2 || x != name {
						verifObserve("bad", name+" -> "+string(lc.URI)+" "+x)
						verifViolation("", "the definition range of an annotation type does not cover the type's name in the document it is reported for")
					}
				}
			}
		}
		if use[i] == '\n' {
			line++
			col = 0
		} else {
			col++
		}
	}
	verifReach("asked")
	if asked < 5 {
		verifViolation("", "harness: fewer annotation type positions than expected")
	}
}
