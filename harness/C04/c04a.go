//gosx:package langserver/lspcommon
package lspcommon

import "luahelper-lsp/langserver/check/compiler/lexer"

// C04-a: the range reported for every identifier token lies inside the document, has start <= end and
// covers exactly the identifier, whatever precedes it on the line. The document is PRE symbolic bytes
// (well-formed UTF-8, alphabet of lexically interesting bytes) followed by the identifier `zq`.
// Positions are mapped back to byte offsets with the LSP reference position model of C02 (refOffset).

func c04class(doc []byte, at int) string {
	// class predicates over the text that precedes the identifier
	ls := 0
	for i := 0; i < at; i++ {
		if doc[i] == '\n' || doc[i] == '\r' {
			ls = i + 1
		}
	}
	esc, astral, nonASCII, lfcr := false, false, false, false
	for i := ls; i < at; i++ {
		if doc[i] >= 0xF0 {
			astral = true
		}
	}
	for i := 0; i < at; i++ {
		if doc[i] >= 0x80 {
			nonASCII = true // also on earlier lines: an illegal token swallows the line end that terminates it
		}
	}
	for i := 0; i < at; i++ {
		if doc[i] == '\\' {
			esc = true // a backslash-newline continues a string onto the identifier's line
		}
		if doc[i] == '\n' && i+1 < at && doc[i+1] == '\r' {
			lfcr = true
		}
	}
	// long brackets: (a) a well-formed long bracket that closes on the identifier's line (or never closes),
	// (b) a malformed opener: '[' followed by one or more '=' and then something else than '['
	closesOnLine, malformed := false, false
	for i := 0; i < at; i++ {
		if doc[i] != '[' {
			continue
		}
		j := i + 1
		for j < at && doc[j] == '=' {
			j++
		}
		if j >= at || doc[j] != '[' {
			if j > i+1 {
				malformed = true
			}
			continue
		}
		level := j - i - 1
		// find the closer
		k := j + 1
		found := -1
		for k < at {
			if doc[k] == ']' {
				m := k + 1
				for m < at && doc[m] == '=' {
					m++
				}
				if m-k-1 == level && m < at && doc[m] == ']' {
					found = m
					break
				}
			}
			k++
		}
		if found < 0 {
			closesOnLine = true // unterminated before the identifier
			break
		}
		nl := false
		for m := found; m < at; m++ {
			if doc[m] == '\n' || doc[m] == '\r' {
				nl = true
			}
		}
		if !nl {
			closesOnLine = true
		}
		i = found
	}
	switch {
	case closesOnLine:
		return "C04-longbracket"
	case malformed:
		return "C04-malformed-longbracket"
	case esc:
		return "C04-escape"
	case astral:
		return "C04-astral"
	case nonASCII:
		return "C04-nonascii"
	case lfcr:
		return "C04-lfcr"
	}
	return ""
}

// c04nonasciiLine: the narrower class for wrong *lines* after a non-ASCII character (empty: no known defect)
func c04nonasciiLine(doc []byte, at int) string {
	// an illegal token (a non-ASCII character outside strings and comments, up to the next blank or line
	// end) terminated by a CR that is not part of CR LF: that CR is consumed without counting a line
	for i := 0; i < at; i++ {
		if doc[i] < 0x80 {
			continue
		}
		for j := i + 1; j < at; j++ {
			if doc[j] == ' ' || doc[j] == '\n' {
				break
			}
			if doc[j] == '\r' {
				if !(j+1 < at && doc[j+1] == '\n') {
					return "C04-nonascii-cr"
				}
				break
			}
		}
	}
	return ""
}

func VerifRun_C04a() {
	n := verifParam("N")
	var pre []byte
	if verifParam("SIGMA") == 1 {
		pre = verifBytesIn("pre", n, "[]=-\n\r x") // long brackets and line ends only
	} else if verifParam("SIGMA") == 2 {
		pre = verifBytesIn("pre", n, "[]=-\n\r")
	} else {
		pre = verifBytesIn("pre", n, "'\"\\n[]=- \t\n\rx\xc3\xa9\xe4\xb8\xad\xf0\x9f\x98\x80")
	}
	verifAssume(refValidUTF8(pre))
	doc := append(append([]byte{}, pre...), []byte("zq\n")...)
	l := lexer.NewLexer(doc, "x.lua")
	l.SetErrHandler(func(e lexer.ParseError) {})
	for k := 0; k < n+3; k++ {
		l.NextTokenStruct()
		_, kind, str := tokenOf(l)
		if kind == lexer.TkEOF {
			break
		}
		if kind != lexer.TkIdentifier || str != "zq" {
			continue // the class predicates are defined relative to the harness' identifier
		}
		verifReach("identifier")
		loc := l.GetNowTokenLoc()
		r := LocToRange(&loc)
		// locate the identifier in the text: the harness' `zq` is the only place these letters occur
		class := c04class(doc, n)
		if class == "C04-nonascii" {
			// the class is about columns (GBK re-decoding, uncounted blank): the line must still be right
			wantLine := 0
			for i := 0; i < n; i++ {
				if doc[i] == '\n' || (doc[i] == '\r' && !(i+1 < n && doc[i+1] == '\n')) {
					wantLine++
				}
			}
			if int(r.Start.Line) != wantLine || int(r.End.Line) != wantLine {
				lc := c04nonasciiLine(doc, n)
				for i := 0; i+1 < n; i++ {
					if doc[i] == '\n' && doc[i+1] == '\r' {
						lc = "C04-lfcr" // the line count is already off because of an LF CR pair (its own class)
					}
				}
				verifViolation(lc, "an identifier token after a non-ASCII character is reported on the wrong line")
				continue
			}
		}
		if r.Start.Line > r.End.Line || (r.Start.Line == r.End.Line && r.Start.Character > r.End.Character) {
			verifViolation(class, "an identifier token has a range whose start is after its end")
			continue
		}
		so, sok, _, _, sclamp := refOffset(doc, r.Start.Line, r.Start.Character)
		eo, eok, _, _, eclamp := refOffset(doc, r.End.Line, r.End.Character)
		if !sok || !eok || sclamp && so != len(doc) && doc[so] != '\n' && doc[so] != '\r' {
			verifViolation(class, "an identifier token has a range outside the document")
			continue
		}
		_ = eclamp
		if so > eo || eo > len(doc) || string(doc[so:eo]) != str {
			verifViolation(class, "the text under the range of an identifier token is not that identifier")
		}
	}
	verifReach("done")
}

func tokenOf(l *lexer.Lexer) (int, lexer.TkKind, string) {
	k, s := lexer.VerifTokenInfo(l)
	return 0, k, s
}
