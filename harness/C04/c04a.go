//gosx:package langserver/lspcommon
package lspcommon

import "luahelper-lsp/langserver/check/compiler/lexer"

// C04-a: the range reported for every identifier token lies inside the document, has start <= end and
// covers exactly the identifier, whatever precedes it on the line. The document is PRE symbolic bytes
// (well-formed UTF-8, alphabet of lexically interesting bytes) followed by the identifier `zq`.
// Positions are mapped back to byte offsets with the LSP reference position model of C02 (refOffset).

func c04class(doc []byte, at int) string {
	// class predicates over the text that precedes the identifier on its line
	ls := 0
	for i := 0; i < at; i++ {
		if doc[i] == '\n' || doc[i] == '\r' {
			ls = i + 1
		}
	}
	esc, long, astral, twoByte, cr := false, false, false, false, false
	for i := ls; i < at; i++ {
		c := doc[i]
		if c == '\\' {
			esc = true
		}
		if c == '[' && i+1 < at && (doc[i+1] == '[' || doc[i+1] == '=') {
			long = true
		}
		if c >= 0xF0 {
			astral = true
		}
		if c >= 0x80 {
			twoByte = true // any non-ASCII character
		}
	}
	for i := 0; i < at; i++ {
		if doc[i] == '\\' {
			esc = true // a backslash-newline continues a string onto the identifier's line
		}
		if doc[i] == '\r' {
			cr = true
		}
		if doc[i] == '[' && i+1 < at && (doc[i+1] == '[' || doc[i+1] == '=') {
			long = true // a long bracket opened on an earlier line may span lines
		}
	}
	switch {
	case long:
		return "C04-longbracket"
	case esc:
		return "C04-escape"
	case astral:
		return "C04-astral"
	case twoByte:
		return "C04-nonascii"
	case cr:
		return "C04-cr"
	}
	return ""
}

func VerifRun_C04a() {
	n := verifParam("N")
	pre := verifBytesIn("pre", n, "'\"\\n[]=- \t\n\rx\xc3\xa9\xe4\xb8\xad\xf0\x9f\x98\x80")
	verifAssume(refValidUTF8(pre))
	doc := append(append([]byte{}, pre...), []byte("zq\n")...)
	l := lexer.NewLexer(doc, "x.lua")
	l.SetErrHandler(func(e lexer.ParseError) {})
	for k := 0; k < n+3; k++ {
		l.NextTokenStruct()
		_, kind, str := tokenOf(l)
		if kind == lexer.TkEOF {
			break
		}
		if kind != lexer.TkIdentifier {
			continue
		}
		verifReach("identifier")
		loc := l.GetNowTokenLoc()
		r := LocToRange(&loc)
		// locate the identifier in the text: the harness' `zq` is the only place these letters occur
		class := c04class(doc, n)
		if r.Start.Line > r.End.Line || (r.Start.Line == r.End.Line && r.Start.Character > r.End.Character) {
			verifViolation(class, "an identifier token has a range whose start is after its end")
			continue
		}
		so, sok, _, _, sclamp := refOffset(doc, r.Start.Line, r.Start.Character)
		eo, eok, _, _, eclamp := refOffset(doc, r.End.Line, r.End.Character)
		if !sok || !eok || sclamp && so != len(doc) && doc[so] != '\n' && doc[so] != '\r' {
			verifViolation(class, "an identifier token has a range outside the document")
			continue
		}
		_ = eclamp
		if so > eo || eo > len(doc) || string(doc[so:eo]) != str {
			verifViolation(class, "the text under the range of an identifier token is not that identifier")
		}
	}
	verifReach("done")
}

func tokenOf(l *lexer.Lexer) (int, lexer.TkKind, string) {
	k, s := lexer.VerifTokenInfo(l)
	return 0, k, s
}
