//gosx:package langserver/check
package check

import "luahelper-lsp/langserver/check/common"

// C04-b: every location the parser attaches to an identifier (declarations, parameters, loop variables,
// uses) and every range returned by definition / references for it covers exactly that identifier in the
// text. Pipeline templates (ASCII), names symbolic.

func c04text(src []byte, line, sc, ec int) (string, bool) {
	ls := vpLineStarts(src)
	if line < 1 || line > len(ls) || sc < 0 || ec < sc {
		return "", false
	}
	a, b := ls[line-1]+sc, ls[line-1]+ec
	if b > len(src) {
		return "", false
	}
	for i := a; i < b; i++ {
		if src[i] == '\n' {
			return "", false
		}
	}
	return string(src[a:b]), true
}

func VerifRun_C04b() {
	ti := verifConcretize(verifRange("template", verifParam("TMIN"), verifParam("TMAX")))
	t := vpTemplates[ti]
	if verifConcretize(verifRange("layout", 0, 1)) == 1 {
		t = vpOneLine(t)
	}
	file := "/w/a.lua"
	src := vpInstantiate(t, "n")
	p, fs := vpProject([]string{file}, [][]byte{src})
	r := rbBind(fs)
	for i := range r.occs {
		o := &r.occs[i]
		if o.loc.StartLine == 0 || (o.kind == rbOccDecl && r.decls[o.decl].kind == rbSelf) {
			continue // the implicit self parameter has no text of its own
		}
		verifReach("occurrence")
		txt, ok := c04text(src, o.loc.StartLine, o.loc.StartColumn, o.loc.EndColumn)
		if !ok || o.loc.EndLine != o.loc.StartLine {
			verifViolation("", "the location the parser attaches to an identifier is not a range inside one line of the document")
			continue
		}
		if txt != o.name {
			verifViolation("", "the text under the location the parser attaches to an identifier is not that identifier")
			continue
		}
		if vpSkipName(o.name) {
			continue
		}
		// ranges returned by the queries
		ls := vpLineStarts(src)
		off := ls[o.loc.StartLine-1] + o.loc.StartColumn
		vs := GetVarStruct(src, off, uint32(o.loc.StartLine-1), uint32(o.loc.StartColumn))
		if !vs.ValidFlag || len(vs.StrVec) == 0 {
			continue
		}
		vs2 := vpCopyVS(vs)
		for _, d := range p.FindVarDefineInfo(file, &vs) {
			if x, okx := c04text(src, d.Loc.StartLine, d.Loc.StartColumn, d.Loc.EndColumn); !okx || (x != o.name && !(o.name == "self" || x == "self")) {
				if c06tainted(r, o.name) || r.isColonReceiver(o.name) {
					continue // resolves to another variable (C05 classes); the range itself is judged on that variable's occurrences
				}
				verifViolation("", "a definition range does not cover exactly an identifier spelled like the queried one")
			}
		}
		for _, d := range p.FindReferences(file, &vs2, common.CRSReference) {
			if x, okx := c04text(src, d.Loc.StartLine, d.Loc.StartColumn, d.Loc.EndColumn); !okx || x != o.name {
				if r.isColonReceiver(o.name) {
					continue
				}
				verifViolation("", "a reference range does not cover exactly an identifier spelled like the queried one")
			}
		}
	}
	verifReach("done")
}
