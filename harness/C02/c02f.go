//gosx:package langserver
package langserver

import (
	"context"
	lsp "luahelper-lsp/langserver/protocol"
	"strconv"
)

// C02-f: requests answer from the text the client holds, also late in a session. ROUNDS rounds of editing
// (each adds a function to the buffer) followed by a save, a close + re-open, or nothing; then one more edit
// and a documentSymbol request: every function of the current buffer - in particular the one typed last -
// must be listed, and none that the buffer no longer holds. The per-round choice is solver-chosen for the
// first FREE rounds and repeats after that (long sessions: more rounds than the analysis cache holds).
func VerifRun_C02f() {
	root := verifVFSRoot()
	a, b := root+"/a.lua", root+"/b.lua"
	base := "local M = {}\n"
	verifVFSPut(a, []byte(base))
	verifVFSPut(b, []byte("print(1)\n"))
	c08view = map[string]string{}
	l := c08eServer(root, []string{a, b})
	ctx := context.Background()
	uri := lsp.DocumentURI("file://" + a)
	id := lsp.TextDocumentIdentifier{URI: uri}
	cur := base
	if verifBool("openedDirty") {
		// the editor restores a buffer with unsaved changes: the text sent with didOpen differs from the file
		opened := base + "function M.restored() end\n"
		_ = l.TextDocumentDidOpen(ctx, lsp.DidOpenTextDocumentParams{TextDocument: lsp.TextDocumentItem{URI: uri, Text: opened}})
		syms0, _ := l.TextDocumentSymbol(ctx, lsp.DocumentSymbolParams{TextDocument: id})
		verifReach("outlined")
		found := false
		var walk0 func(v []lsp.DocumentSymbol)
		walk0 = func(v []lsp.DocumentSymbol) {
			for i := range v {
				if v[i].Name == "restored" || v[i].Name == "M.restored" {
					found = true
				}
				walk0(v[i].Children)
			}
		}
		walk0(syms0)
		if !found {
			verifViolation("C02-opened-text-differs-from-disk", "right after didOpen with a text that differs from the file on disk, requests are answered from the file on disk")
		}
		return
	}
	_ = l.TextDocumentDidOpen(ctx, lsp.DidOpenTextDocumentParams{TextDocument: lsp.TextDocumentItem{URI: uri, Text: cur}})
	rounds, free := verifParam("ROUNDS"), verifParam("FREE")
	choice := make([]int, free)
	for i := range choice {
		choice[i] = verifConcretize(verifRange("after"+strconv.Itoa(i), 0, 2))
	}
	edit := func(k int) {
		cur = base
		// (the buffer always holds the two functions typed last)
		if k > 0 {
			cur += "function M.f" + strconv.Itoa(k-1) + "() end\n"
		}
		cur += "function M.f" + strconv.Itoa(k) + "() end\n"
		_ = l.TextDocumentDidChange(ctx, lsp.DidChangeTextDocumentParams{
			TextDocument:   lsp.VersionedTextDocumentIdentifier{TextDocumentIdentifier: id},
			ContentChanges: []lsp.TextDocumentContentChangeEvent{{Text: cur}}})
	}
	for k := 0; k < rounds; k++ {
		edit(k)
		switch choice[k%free] {
		case 1: // save
			verifVFSPut(a, []byte(cur))
			txt := cur
			_ = l.TextDocumentDidSave(ctx, lsp.DidSaveTextDocumentParams{TextDocument: id, Text: &txt})
		case 2: // close and re-open with the same (unsaved) text
			_ = l.TextDocumentDidClose(ctx, lsp.DidCloseTextDocumentParams{TextDocument: id})
			_ = l.TextDocumentDidOpen(ctx, lsp.DidOpenTextDocumentParams{TextDocument: lsp.TextDocumentItem{URI: uri, Text: cur}})
			edit(k)
		}
	}
	edit(rounds)
	lateClass := ""
	// optionally the document is saved, then blank lines are inserted at the top and it is saved again (a save
	// whose text differs from the previous save only in leading white space)
	final := verifConcretize(verifRange("final", 0, 2))
	if final == 2 {
		// the document was saved earlier; the file watcher reports that save late, after the user has typed
		// on: the file on disk is older than the buffer, and the buffer is what requests are about
		_ = l.WorkspaceChangeWatchedFiles(ctx, lsp.DidChangeWatchedFilesParams{Changes: []lsp.FileEvent{{URI: uri, Type: lsp.Changed}}})
		lateClass = "" // (a defect fixed in /repo: see known_findings.txt)
	}
	if final == 1 {
		txt := cur
		verifVFSPut(a, []byte(txt))
		_ = l.TextDocumentDidSave(ctx, lsp.DidSaveTextDocumentParams{TextDocument: id, Text: &txt})
		cur = "\n\n" + cur
		_ = l.TextDocumentDidChange(ctx, lsp.DidChangeTextDocumentParams{
			TextDocument:   lsp.VersionedTextDocumentIdentifier{TextDocumentIdentifier: id},
			ContentChanges: []lsp.TextDocumentContentChangeEvent{{Text: cur}}})
		txt2 := cur
		verifVFSPut(a, []byte(txt2))
		_ = l.TextDocumentDidSave(ctx, lsp.DidSaveTextDocumentParams{TextDocument: id, Text: &txt2})
	}
	// optionally the user then deletes everything: select all + delete arrives as one incremental change
	// over the whole document (or, from clients without incremental sync, as an empty full text)
	emptied := verifConcretize(verifRange("emptied", 0, 2))
	if emptied == 1 {
		_ = l.TextDocumentDidChange(ctx, lsp.DidChangeTextDocumentParams{
			TextDocument:   lsp.VersionedTextDocumentIdentifier{TextDocumentIdentifier: id},
			ContentChanges: []lsp.TextDocumentContentChangeEvent{{Text: ""}}})
	} else if emptied == 2 {
		nl := uint32(0)
		for i := 0; i < len(cur); i++ {
			if cur[i] == '\n' {
				nl++
			}
		}
		rg := lsp.Range{Start: lsp.Position{Line: 0, Character: 0}, End: lsp.Position{Line: nl, Character: 0}}
		_ = l.TextDocumentDidChange(ctx, lsp.DidChangeTextDocumentParams{
			TextDocument:   lsp.VersionedTextDocumentIdentifier{TextDocumentIdentifier: id},
			ContentChanges: []lsp.TextDocumentContentChangeEvent{{Range: &rg, Text: ""}}})
	}
	syms, _ := l.TextDocumentSymbol(ctx, lsp.DocumentSymbolParams{TextDocument: id})
	verifReach("outlined")
	if emptied != 0 {
		if len(syms) != 0 {
			verifViolation("", "after the whole document is deleted the outline still lists symbols: the request was answered from the file on disk, not from the (empty) buffer")
		}
		return
	}
	var names []string
	var walk func(v []lsp.DocumentSymbol)
	walk = func(v []lsp.DocumentSymbol) {
		for i := range v {
			names = append(names, v[i].Name)
			walk(v[i].Children)
		}
	}
	walk(syms)
	has := func(n string) bool {
		for _, x := range names {
			if x == n || x == "M."+n {
				return true
			}
		}
		return false
	}
	// the function typed last stands on the line where the buffer has it
	wantLine := 0
	for i := 0; i+len("function M.f"+strconv.Itoa(rounds)) <= len(cur); i++ {
		if cur[i:i+len("function M.f"+strconv.Itoa(rounds))] == "function M.f"+strconv.Itoa(rounds) {
			break
		}
		if cur[i] == '\n' {
			wantLine++
		}
	}
	placed := false
	var walk2 func(v []lsp.DocumentSymbol)
	walk2 = func(v []lsp.DocumentSymbol) {
		for i := range v {
			if (v[i].Name == "f"+strconv.Itoa(rounds) || v[i].Name == "M.f"+strconv.Itoa(rounds)) && int(v[i].Range.Start.Line) <= wantLine && wantLine <= int(v[i].Range.End.Line) {
				placed = true
			}
			walk2(v[i].Children)
		}
	}
	walk2(syms)
	if has("f"+strconv.Itoa(rounds)) && !placed {
		verifViolation(lateClass, "the outline places a function on another line than the current buffer does: the request was answered from older text")
	}
	if !has("f"+strconv.Itoa(rounds)) || !has("f"+strconv.Itoa(rounds-1)) {
		verifViolation(lateClass, "a function of the current buffer is missing from the outline: the request was answered from older text")
	}
	for k := 0; k+1 < rounds; k++ {
		if has("f" + strconv.Itoa(k)) {
			verifViolation("", "the outline lists a function that the current buffer no longer holds")
			break
		}
	}
}
