//gosx:package langserver
package langserver

import (
	"context"
	"luahelper-lsp/langserver/check"
	"luahelper-lsp/langserver/lspcommon"
	"luahelper-lsp/langserver/pathpre"
	lsp "luahelper-lsp/langserver/protocol"

	"github.com/yinfei8/jrpc2"
	"github.com/yinfei8/jrpc2/handler"
)

// C02-c: after didOpen, a full-text didChange and an incremental didChange on a real LspServer, the
// text in the server's open-document cache is byte-for-byte the client's text (LSP position model of
// lspcommon's harness, reused through VerifRefApply).

func VerifSetup_C02c() { check.VerifSetup_Pipe() }

func VerifRun_C02c() {
	pathpre.InitialRootURIAndPath("file:///w", "/w")
	l := CreateLspServer()
	l.server = jrpc2.NewServer(handler.Map{}, &jrpc2.ServerOptions{AllowPush: false, Concurrency: 1})
	file := "/w/a.lua"
	l.project = check.VpProject([]string{file}, [][]byte{[]byte("local x = 1\n")})
	uri := lsp.DocumentURI("file://" + file)
	ctx := context.Background()
	n := verifConcretize(verifRange("openlen", 0, verifParam("N"))) // the document may be empty
	opened := verifBytesIn("open", n, "a=1 \n\r\xc3\xa9")
	verifAssume(lspcommon.VerifValidUTF8(opened))
	_ = l.TextDocumentDidOpen(ctx, lsp.DidOpenTextDocumentParams{TextDocument: lsp.TextDocumentItem{URI: uri, Text: string(opened)}})
	client := opened
	got, found := l.fileCache.GetFileContent(file)
	if !found || string(got) != string(client) {
		verifViolation("", "after didOpen the cached text differs from the client's text")
	}
	// full-text replacement
	if verifBool("full") {
		full := verifBytesIn("full", verifConcretize(verifRange("fulllen", 0, verifParam("N"))), "b=2 \n")
		n = len(full)
		_ = l.TextDocumentDidChange(ctx, lsp.DidChangeTextDocumentParams{
			TextDocument:   lsp.VersionedTextDocumentIdentifier{TextDocumentIdentifier: lsp.TextDocumentIdentifier{URI: uri}},
			ContentChanges: []lsp.TextDocumentContentChangeEvent{{Text: string(full)}}})
		client = full
		got, found = l.fileCache.GetFileContent(file)
		if !found || string(got) != string(client) {
			verifViolation("", "after a full-text didChange the cached text differs from the client's text")
		}
	}
	// one incremental edit
	sl, sc := uint32(verifRange("sl", 0, n)), uint32(verifRange("sc", 0, n+1))
	el, ec := uint32(verifRange("el", 0, n)), uint32(verifRange("ec", 0, n+1))
	text := verifBytesIn("text", verifConcretize(verifRange("textlen", 0, 1)), "z\n") // empty text = deletion
	want, ok, class := lspcommon.VerifRefApply(client, sl, sc, el, ec, text)
	verifAssume(ok) // conformant client
	verifReach("edit")
	_ = l.TextDocumentDidChange(ctx, lsp.DidChangeTextDocumentParams{
		TextDocument: lsp.VersionedTextDocumentIdentifier{TextDocumentIdentifier: lsp.TextDocumentIdentifier{URI: uri}},
		ContentChanges: []lsp.TextDocumentContentChangeEvent{{
			Range: &lsp.Range{Start: lsp.Position{Line: sl, Character: sc}, End: lsp.Position{Line: el, Character: ec}},
			Text:  string(text)}}})
	got, found = l.fileCache.GetFileContent(file)
	if !found || string(got) != string(want) {
		verifViolation(class, "after an incremental didChange the cached text differs from the client's text (a rejected edit leaves stale text)")
	}
	// a second edit on the result (which may now be empty): insert one byte at the very beginning
	client = want
	want2 := append([]byte("q"), client...)
	_ = l.TextDocumentDidChange(ctx, lsp.DidChangeTextDocumentParams{
		TextDocument: lsp.VersionedTextDocumentIdentifier{TextDocumentIdentifier: lsp.TextDocumentIdentifier{URI: uri}},
		ContentChanges: []lsp.TextDocumentContentChangeEvent{{
			Range: &lsp.Range{Start: lsp.Position{Line: 0, Character: 0}, End: lsp.Position{Line: 0, Character: 0}},
			Text:  "q"}}})
	got, found = l.fileCache.GetFileContent(file)
	if class == "" && (!found || string(got) != string(want2)) {
		verifViolation("", "after a second incremental didChange the cached text differs from the client's text")
	}
	// didSave carries the text (the server registers save with includeText): the cache keeps the client's text
	if class == "" {
		txt := string(want2)
		_ = l.TextDocumentDidSave(ctx, lsp.DidSaveTextDocumentParams{TextDocument: lsp.TextDocumentIdentifier{URI: uri}, Text: &txt})
		got, found = l.fileCache.GetFileContent(file)
		if !found || string(got) != string(want2) {
			verifViolation("", "after didSave the cached text differs from the client's text")
		}
	}
	_ = l.TextDocumentDidClose(ctx, lsp.DidCloseTextDocumentParams{TextDocument: lsp.TextDocumentIdentifier{URI: uri}})
	verifReach("closed")
	// the document is opened again with another text: nothing of the previous session may survive
	{
		re := verifBytesIn("re", 1, "c\n")
		_ = l.TextDocumentDidOpen(ctx, lsp.DidOpenTextDocumentParams{TextDocument: lsp.TextDocumentItem{URI: uri, Text: string(re)}})
		got, found = l.fileCache.GetFileContent(file)
		if !found || string(got) != string(re) {
			verifViolation("", "after closing and re-opening a document the cached text differs from the re-opened text")
		}
		_ = l.TextDocumentDidChange(ctx, lsp.DidChangeTextDocumentParams{
			TextDocument: lsp.VersionedTextDocumentIdentifier{TextDocumentIdentifier: lsp.TextDocumentIdentifier{URI: uri}},
			ContentChanges: []lsp.TextDocumentContentChangeEvent{{
				Range: &lsp.Range{Start: lsp.Position{Line: 0, Character: 0}, End: lsp.Position{Line: 0, Character: 0}},
				Text:  "k"}}})
		got, found = l.fileCache.GetFileContent(file)
		if !found || string(got) != "k"+string(re) {
			verifViolation("", "an edit after re-opening is not applied to the re-opened text")
		}
	}
}
