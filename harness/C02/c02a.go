//gosx:package langserver/lspcommon
package lspcommon

import lsp "luahelper-lsp/langserver/protocol"


// ---- reference position model (LSP: UTF-16 units, \n | \r\n | \r) ----

func refValidUTF8(b []byte) bool {
	i := 0
	for i < len(b) {
		c := b[i]
		n := 0
		switch {
		case c < 0x80:
			n = 1
		case c >= 0xC2 && c <= 0xDF:
			n = 2
		case c >= 0xE0 && c <= 0xEF:
			n = 3
		case c >= 0xF0 && c <= 0xF4:
			n = 4
		default:
			return false
		}
		if i+n > len(b) {
			return false
		}
		for j := 1; j < n; j++ {
			if b[i+j]&0xC0 != 0x80 {
				return false
			}
		}
		if c == 0xE0 && b[i+1] < 0xA0 || c == 0xED && b[i+1] > 0x9F || c == 0xF0 && b[i+1] < 0x90 || c == 0xF4 && b[i+1] > 0x8F {
			return false
		}
		i += n
	}
	return true
}

// refOffset: ok=false when line >= number of lines or offset inside a surrogate pair.
// feature flags tell which known class the position touches.
func refOffset(doc []byte, line, ch uint32) (off int, ok bool, astral, loneCR, clamp bool) {
	var l, c uint32
	i := 0
	for {
		if l == line && c == ch {
			return i, true, astral, loneCR, clamp
		}
		if i >= len(doc) {
			break
		}
		b := doc[i]
		if b == '\n' || b == '\r' {
			if l == line {
				// character beyond line end: clamp
				return i, true, astral, loneCR, true
			}
			if b == '\r' && i+1 < len(doc) && doc[i+1] == '\n' {
				i += 2
			} else {
				if b == '\r' {
					loneCR = true
				}
				i++
			}
			l++
			c = 0
			continue
		}
		n, units := 1, uint32(1)
		switch {
		case b >= 0xF0:
			n, units = 4, 2
			if l == line {
				astral = true
			}
		case b >= 0xE0:
			n = 3
		case b >= 0xC0:
			n = 2
		}
		if l == line && units == 2 && c+1 == ch {
			return 0, false, astral, loneCR, clamp // inside a surrogate pair
		}
		i += n
		c += units
	}
	if l == line {
		return len(doc), true, astral, loneCR, true // clamp at end of last line
	}
	return 0, false, astral, loneCR, clamp
}

func VerifRun_C02a() { runC02(verifParam("N"), verifParam("M")) }

func runC02(n, m int) {
	doc := verifBytes("doc", n)
	verifAssume(refValidUTF8(doc))
	sl, sc := uint32(verifRange("sl", 0, n)), uint32(verifRange("sc", 0, n+1))
	el, ec := uint32(verifRange("el", 0, n)), uint32(verifRange("ec", 0, n+1))
	text := verifBytes("text", m)
	so, sok, a1, r1, c1 := refOffset(doc, sl, sc)
	eo, eok, a2, r2, c2 := refOffset(doc, el, ec)
	verifAssume(sok && eok && so <= eo) // conformant client
	verifReach("conformant")
	want := make([]byte, 0, n+m)
	want = append(want, doc[:so]...)
	want = append(want, text...)
	want = append(want, doc[eo:]...)

	fc := CreateFileMapCache()
	got, err := fc.ApplyContentChanges("f", doc, []lsp.TextDocumentContentChangeEvent{{
		Range: &lsp.Range{Start: lsp.Position{Line: sl, Character: sc}, End: lsp.Position{Line: el, Character: ec}},
		Text:  string(text)}})
	class := ""
	switch {
	case a1 || a2:
		class = "C02-astral"
	case r1 || r2:
		class = "C02-lone-cr"
	case c1 || c2:
		class = "C02-no-clamp"
	}
	if err != nil {
		verifViolation(class, "range that the LSP position model accepts is rejected")
		return
	}
	verifObserve("got", string(got))
	same := len(got) == len(want)
	if same {
		for i := range got {
			if got[i] != want[i] {
				same = false
				break
			}
		}
	}
	if !same {
		verifViolation(class, "edit applied at the wrong offsets")
	}
	verifReach("applied")
}


// ---- two consecutive changes in one didChange batch (the second is interpreted on the result of the first)

func refApply(doc []byte, sl, sc, el, ec uint32, text []byte) (out []byte, ok bool, class string) {
	so, sok, a1, r1, c1 := refOffset(doc, sl, sc)
	eo, eok, a2, r2, c2 := refOffset(doc, el, ec)
	if !(sok && eok && so <= eo) {
		return nil, false, ""
	}
	switch {
	case a1 || a2:
		class = "C02-astral"
	case r1 || r2:
		class = "C02-lone-cr"
	case c1 || c2:
		class = "C02-no-clamp"
	}
	out = make([]byte, 0, len(doc)+len(text))
	out = append(out, doc[:so]...)
	out = append(out, text...)
	out = append(out, doc[eo:]...)
	return out, true, class
}

func VerifRun_C02b() {
	n, m := verifParam("N"), verifParam("M")
	doc := verifBytes("doc", n)
	verifAssume(refValidUTF8(doc))
	sl, sc := uint32(verifRange("sl", 0, n)), uint32(verifRange("sc", 0, n+1))
	el, ec := uint32(verifRange("el", 0, n)), uint32(verifRange("ec", 0, n+1))
	t1 := verifBytes("t1", m)
	d1, ok1, class1 := refApply(doc, sl, sc, el, ec, t1)
	verifAssume(ok1 && refValidUTF8(d1))
	n2 := len(d1)
	sl2, sc2 := uint32(verifRange("sl2", 0, n2)), uint32(verifRange("sc2", 0, n2+1))
	el2, ec2 := uint32(verifRange("el2", 0, n2)), uint32(verifRange("ec2", 0, n2+1))
	t2 := verifBytes("t2", m)
	want, ok2, class2 := refApply(d1, sl2, sc2, el2, ec2, t2)
	verifAssume(ok2)
	verifReach("conformant")
	class := class1
	if class == "" {
		class = class2
	}
	fc := CreateFileMapCache()
	got, err := fc.ApplyContentChanges("f", doc, []lsp.TextDocumentContentChangeEvent{
		{Range: &lsp.Range{Start: lsp.Position{Line: sl, Character: sc}, End: lsp.Position{Line: el, Character: ec}}, Text: string(t1)},
		{Range: &lsp.Range{Start: lsp.Position{Line: sl2, Character: sc2}, End: lsp.Position{Line: el2, Character: ec2}}, Text: string(t2)}})
	if err != nil {
		verifViolation(class, "batch of two ranges that the LSP position model accepts is rejected")
		return
	}
	verifObserve("got", string(got))
	same := len(got) == len(want)
	if same {
		for i := range got {
			if got[i] != want[i] {
				same = false
				break
			}
		}
	}
	if !same {
		verifViolation(class, "batch of two edits gives the wrong text")
	}
	verifReach("applied")
}

// exported for the handler-level harness in package langserver
func VerifValidUTF8(b []byte) bool { return refValidUTF8(b) }
func VerifRefApply(doc []byte, sl, sc, el, ec uint32, text []byte) ([]byte, bool, string) {
	return refApply(doc, sl, sc, el, ec, text)
}
