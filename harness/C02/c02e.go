//gosx:package langserver/check/common
package common

// C02-e: the analysis the server answers from for an unsaved document lives in an LRU cache
// (AllProject.fileLRUMap): didChange stores into it, didOpen / didClose / a saved re-analysis remove from
// it, every request reads it. The cache must behave as an LRU map: after any sequence of Set / Get / Remove,
// Get(k) yields the value of the latest Set(k) unless k was removed since or pushed out by CAP more recently
// used keys. The real LRUCache is driven with a solver-chosen operation sequence next to a ten-line
// reference model; every Get is compared.

type c02eEnt struct {
	k string
	v int
}

func VerifRun_C02e() {
	capacity := verifConcretize(verifRange("cap", 1, verifParam("CAP")))
	n := verifParam("N")
	keys := []string{"a", "b", "c", "d"}[:verifParam("KEYS")]
	lru := NewLRUCache(capacity)
	var model []c02eEnt // most recently used first
	find := func(k string) int {
		for i := range model {
			if model[i].k == k {
				return i
			}
		}
		return -1
	}
	front := func(i int) {
		e := model[i]
		copy(model[1:i+1], model[:i])
		model[0] = e
	}
	for step := 0; step < n; step++ {
		k := keys[verifConcretize(verifRange("key", 0, len(keys)-1))]
		op := verifConcretize(verifRange("op", 0, 2))
		if step == n-1 {
			op = 1 // the last operation is a read
		}
		switch op {
		case 0: // Set
			_ = lru.Set(k, step)
			if i := find(k); i >= 0 {
				model[i].v = step
				front(i)
			} else {
				model = append([]c02eEnt{{k, step}}, model...)
				if len(model) > capacity {
					model = model[:capacity]
				}
			}
		case 1: // Get
			v, ok, err := lru.Get(k)
			i := find(k)
			verifReach("read")
			if err != nil || ok != (i >= 0) {
				if i >= 0 {
					verifViolation("", "an entry stored and neither removed nor pushed out by more recent ones is gone (requests fall back to the analysis of the saved text)")
				} else {
					verifViolation("", "an entry that was removed or pushed out is still answered")
				}
				return
			}
			if ok {
				if v.(int) != model[i].v {
					verifViolation("", "the cache answers an older value than the one stored last")
					return
				}
				front(i)
			}
		case 2: // Remove
			got := lru.Remove(k)
			i := find(k)
			if got != (i >= 0) {
				verifViolation("", "Remove reports the presence of the entry wrongly")
				return
			}
			if i >= 0 {
				model = append(model[:i], model[i+1:]...)
			}
		}
		if lru.Size() != len(model) {
			verifViolation("", "the recency list holds a different number of entries than are live (later evictions will hit the wrong entry)")
			return
		}
	}
}
