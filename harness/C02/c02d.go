//gosx:package langserver
package langserver

import (
	"context"
	"luahelper-lsp/langserver/check"
	"luahelper-lsp/langserver/lspcommon"
	"luahelper-lsp/langserver/pathpre"
	lsp "luahelper-lsp/langserver/protocol"

	"github.com/yinfei8/jrpc2"
	"github.com/yinfei8/jrpc2/handler"
)

// C02-d: requests do not alter the server's copy of an open document. After didOpen of a symbolic document
// (names, dots, colons, parentheses, concatenation, line ends) every position request at a solver-chosen
// position is sent; afterwards the cached text must still be byte-for-byte the client's, and a following
// incremental edit must be applied to that text.
func VerifRun_C02d() {
	pathpre.InitialRootURIAndPath("file:///w", "/w")
	l := CreateLspServer()
	l.server = jrpc2.NewServer(handler.Map{}, &jrpc2.ServerOptions{AllowPush: false, Concurrency: 1})
	file := "/w/a.lua"
	l.project = check.VpProject([]string{file}, [][]byte{[]byte("local x = 1\n")})
	uri := lsp.DocumentURI("file://" + file)
	ctx := context.Background()
	n := verifParam("N")
	doc := verifBytesIn("doc", n, "a:.( \n")
	_ = l.TextDocumentDidOpen(ctx, lsp.DidOpenTextDocumentParams{TextDocument: lsp.TextDocumentItem{URI: uri, Text: string(doc)}})
	client := string(doc)
	pos := lsp.TextDocumentPositionParams{TextDocument: lsp.TextDocumentIdentifier{URI: uri},
		Position: lsp.Position{Line: uint32(verifRange("line", 0, n)), Character: uint32(verifRange("ch", 0, n+1))}}
	verifReach("request")
	switch verifConcretize(verifRange("handler", 0, 6)) {
	case 0:
		_, _ = l.TextDocumentHover(ctx, pos)
	case 1:
		_, _ = l.TextDocumentDefine(ctx, pos)
	case 2:
		_, _ = l.TextDocumentHighlight(ctx, pos)
	case 3:
		_, _ = l.TextDocumentComplete(ctx, lsp.CompletionParams{TextDocumentPositionParams: pos})
	case 4:
		_, _ = l.TextDocumentReferences(ctx, lsp.ReferenceParams{TextDocumentPositionParams: pos})
	case 5:
		_, _ = l.TextDocumentSignatureHelp(ctx, pos)
	case 6:
		_, _ = l.TextDocumentRename(ctx, lsp.RenameParams{TextDocument: pos.TextDocument, Position: pos.Position, NewName: "zz"})
	}
	got, found := l.fileCache.GetFileContent(file)
	if !found || string(got) != client {
		verifViolation("", "a request changed the server's copy of the open document")
		return
	}
	// the next edit is applied to the client's text
	_ = l.TextDocumentDidChange(ctx, lsp.DidChangeTextDocumentParams{
		TextDocument: lsp.VersionedTextDocumentIdentifier{TextDocumentIdentifier: lsp.TextDocumentIdentifier{URI: uri}},
		ContentChanges: []lsp.TextDocumentContentChangeEvent{{
			Range: &lsp.Range{Start: lsp.Position{Line: 0, Character: 0}, End: lsp.Position{Line: 0, Character: 0}},
			Text:  "q"}}})
	got, found = l.fileCache.GetFileContent(file)
	verifReach("edited")
	if !found || string(got) != "q"+client {
		verifViolation("", "an edit after a request is not applied to the client's text")
	}
	_ = lspcommon.VerifValidUTF8
}
