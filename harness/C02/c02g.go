//gosx:package langserver/lspcommon
package lspcommon

// C02-g: the offset a cursor request works at is the offset the LSP position denotes (lines split at \n,
// characters counted in UTF-16 code units). The document is K characters, each solver-chosen from ASCII,
// newline, a 2-byte character, 3-byte characters with lead bytes E0 / E1 / E4 / EF (Thai, Ethiopic, CJK,
// full-width forms) and a 4-byte character; the position ranges over every line and character. The
// reference walks the same text by UTF-8 sequence lengths taken from RFC 3629.

var c02gChars = []string{"a", "\n", "\xc3\xa9", "\xe0\xb8\x81", "\xe1\x88\xb4", "\xe4\xb8\xad", "\xef\xbc\xa1", "\xf0\x9f\x98\x80"}

func VerifRun_C02g() {
	k := verifParam("K")
	var doc []byte
	var units []int // per character: UTF-16 units (0 marks a newline)
	var lens []int
	for i := 0; i < k; i++ {
		c := c02gChars[verifConcretize(verifRange("char", 0, len(c02gChars)-1))]
		doc = append(doc, c...)
		lens = append(lens, len(c))
		switch {
		case c == "\n":
			units = append(units, 0)
		case len(c) == 4:
			units = append(units, 2)
		default:
			units = append(units, 1)
		}
	}
	line := verifConcretize(verifRange("line", 0, k))
	ch := verifConcretize(verifRange("ch", 0, 2*k))
	// reference
	want, ok := -1, false
	l, c, off := 0, 0, 0
	astral := false // an astral character precedes the position on its line (known defect class)
	for i := 0; i <= len(units); i++ {
		if l == line && c == ch {
			want, ok = off, true
			break
		}
		if i == len(units) {
			break
		}
		if units[i] == 0 {
			l++
			c = 0
			if l <= line {
				astral = false
			}
		} else {
			if l == line && units[i] == 2 {
				astral = true
				if c+1 == ch {
					break // a position between the two units of a surrogate pair denotes no offset
				}
			}
			c += units[i]
		}
		off += lens[i]
	}
	got, err := OffsetForPosition(doc, line, ch)
	verifReach("computed")
	class := ""
	if astral {
		class = "C02-astral"
	}
	if ok {
		if err != nil {
			verifViolation(class, "a valid position is rejected")
		} else if got != want {
			verifViolation(class, "the offset computed for a cursor position is not the offset the position denotes")
		}
	} else if err == nil && !astral {
		// beyond the end of a line / of the document: an error or a clamped offset inside the document is
		// acceptable, an offset outside the buffer is not
		if got < 0 || got > len(doc) {
			verifViolation(class, "a position outside the document yields an offset outside the buffer")
		}
	}
}
