//gosx:package langserver
package langserver

import (
	"context"
	lsp "luahelper-lsp/langserver/protocol"
)

// C02-h: the document a notification or request names is found whatever characters its path contains and
// however the client spells them in the URI. The file lives in a folder whose name is chosen among ordinary
// names with a blank, a plus sign, a percent sign, a hash, an ampersand, an equals sign or a non-ASCII
// character; the client encodes the URI like VS Code (everything outside the unreserved set percent-encoded)
// or minimally (RFC 3986: only what the path syntax requires; a plus sign, an ampersand and an equals sign
// are legal path characters and stay as they are). After didOpen and a didChange that adds a local, a
// definition request on the use of that local must be answered from the buffer, at the declaration, in a
// document that is the same file.
var c02hDirs = []string{"src", "c++", "my game", "a+b c", "100%", "x#y", "q&a", "k=v", "\xe4\xb8\xad\xe6\x96\x87", "tom's"}

func c02hEncode(p string, style int) string {
	const hex = "0123456789ABCDEF"
	out := ""
	for i := 0; i < len(p); i++ {
		c := p[i]
		unreserved := c >= 'a' && c <= 'z' || c >= 'A' && c <= 'Z' || c >= '0' && c <= '9' || c == '-' || c == '.' || c == '_' || c == '~' || c == '/'
		keep := unreserved
		if style == 1 && (c == '+' || c == '&' || c == '=' || c == '\'' || c == '!' || c == '$' || c == ',' || c == ';' || c == '@' || c == ':') {
			keep = true // sub-delims, ':' and '@' are legal in a path segment
		}
		if keep {
			out += string([]byte{c})
		} else {
			out += "%" + string([]byte{hex[c>>4], hex[c&15]})
		}
	}
	return out
}

func c02hDecode(u string) string {
	out := []byte{}
	val := func(c byte) int {
		switch {
		case c >= '0' && c <= '9':
			return int(c - '0')
		case c >= 'A' && c <= 'F':
			return int(c-'A') + 10
		case c >= 'a' && c <= 'f':
			return int(c-'a') + 10
		}
		return -1
	}
	for i := 0; i < len(u); i++ {
		if u[i] == '%' && i+2 < len(u)+0 && val(u[i+1]) >= 0 && val(u[i+2]) >= 0 {
			out = append(out, byte(val(u[i+1])*16+val(u[i+2])))
			i += 2
			continue
		}
		out = append(out, u[i])
	}
	return string(out)
}

func VerifRun_C02h() {
	root := verifVFSRoot()
	dir := c02hDirs[verifConcretize(verifRange("dir", 0, len(c02hDirs)-1))]
	style := verifConcretize(verifRange("style", 0, 1))
	file := root + "/" + dir + "/a.lua"
	saved := "local first = 1\nprint(first)\n"
	verifVFSPut(file, []byte(saved))
	// a sibling whose name differs only in letter case (case-sensitive file systems), open at the same time
	twin := verifBool("twin")
	file2 := root + "/" + dir + "/A.lua"
	saved2 := "local other = 1\n\n\nprint(other)\n"
	files := []string{file}
	if twin {
		verifVFSPut(file2, []byte(saved2))
		files = append(files, file2)
	}
	c08view = map[string]string{}
	l := c08eServer(root, files)
	ctx := context.Background()
	uri := lsp.DocumentURI("file://" + c02hEncode(file, style))
	uri2 := lsp.DocumentURI("file://" + c02hEncode(file2, style))
	_ = l.TextDocumentDidOpen(ctx, lsp.DidOpenTextDocumentParams{TextDocument: lsp.TextDocumentItem{URI: uri, Text: saved}})
	if twin {
		_ = l.TextDocumentDidOpen(ctx, lsp.DidOpenTextDocumentParams{TextDocument: lsp.TextDocumentItem{URI: uri2, Text: saved2}})
	}
	cur := saved + "local second = 2\nprint(second)\n"
	_ = l.TextDocumentDidChange(ctx, lsp.DidChangeTextDocumentParams{
		TextDocument:   lsp.VersionedTextDocumentIdentifier{TextDocumentIdentifier: lsp.TextDocumentIdentifier{URI: uri}},
		ContentChanges: []lsp.TextDocumentContentChangeEvent{{Text: cur}}})
	if twin {
		// the sibling is edited too, then asked about: its own text answers
		cur2 := "local other = 1\nprint(other)\n"
		_ = l.TextDocumentDidChange(ctx, lsp.DidChangeTextDocumentParams{
			TextDocument:   lsp.VersionedTextDocumentIdentifier{TextDocumentIdentifier: lsp.TextDocumentIdentifier{URI: uri2}},
			ContentChanges: []lsp.TextDocumentContentChangeEvent{{Text: cur2}}})
		locs2, _ := l.TextDocumentDefine(ctx, lsp.TextDocumentPositionParams{TextDocument: lsp.TextDocumentIdentifier{URI: uri2}, Position: lsp.Position{Line: 1, Character: 7}})
		if len(locs2) != 1 || locs2[0].Range.Start.Line != 0 || locs2[0].Range.Start.Character != 6 {
			verifViolation("", "of two open documents whose names differ only in letter case, one is answered from the other's text")
		}
	}
	locs, _ := l.TextDocumentDefine(ctx, lsp.TextDocumentPositionParams{TextDocument: lsp.TextDocumentIdentifier{URI: uri}, Position: lsp.Position{Line: 3, Character: 8}})
	verifReach("asked")
	if len(locs) != 1 {
		verifViolation("", "a request on a document is not answered from the buffer the client sent for it (path with an ordinary special character, or a sibling differing in letter case)")
		return
	}
	if locs[0].Range.Start.Line != 2 || locs[0].Range.Start.Character != 6 {
		verifViolation("", "the answer is not at the declaration in the current buffer")
	}
	back := string(locs[0].URI)
	if len(back) < 7 || back[:7] != "file://" || c02hDecode(back[7:]) != file {
		verifObserve("uri", back)
		verifViolation("", "the document named in the answer is not the document the request was made on")
	}
}
