//gosx:package langserver/check/annotation/annotateparser
package annotateparser

// C16-d (single-token corruptions): a documented annotation line is derived as in job a, split into its
// tokens, and one token is deleted, replaced by a token that does not belong there, preceded by such a
// token, or the line is cut after it (the corruption, its position and the stray token are solver-chosen).
// The corrupted line stands between valid neighbours; whatever it has become, the annotation parser must
// return (no panic leaves it), report at most one warning and only for that line, and understand the
// neighbours exactly as it does without the corrupted line.

var c16junk = []string{"'", "\"", "<", "(", ",", "fun", "|", ">", ")", "[", "]", "{", ":", "?", "@", "#", "table", "-"}

type c16tok struct {
	lead string // white space before the token
	text string
}

func c16isWord(c byte) bool {
	return c == '_' || c == '.' || (c >= '0' && c <= '9') || (c >= 'a' && c <= 'z') || (c >= 'A' && c <= 'Z')
}

func c16tokens(s string) []c16tok {
	var out []c16tok
	i := 0
	for i < len(s) {
		j := i
		for j < len(s) && s[j] == ' ' {
			j++
		}
		lead := s[i:j]
		if j == len(s) {
			break
		}
		k := j + 1
		switch {
		case c16isWord(s[j]):
			for k < len(s) && c16isWord(s[k]) {
				k++
			}
		case s[j] == '"' || s[j] == '\'':
			for k < len(s) && s[k] != s[j] {
				k++
			}
			if k < len(s) {
				k++
			}
		}
		out = append(out, c16tok{lead, s[j:k]})
		i = k
	}
	return out
}

func c16neighbourDigest(frag []string, lines []int, skip int) string {
	s := ""
	for i := range frag {
		if lines[i] == skip {
			continue
		}
		s += string(rune('0'+lines[i])) + ":" + frag[i] + "\n"
	}
	return s
}

func c16digests(lines ...string) ([]string, []int, []int) {
	frag, errs := c16parse(lines...)
	var ds []string
	for _, st := range frag.Stats {
		d, cm := c16stateDigest(st)
		if d == "?" {
			if t, cm2, ok := c16typeOf(st); ok {
				d, cm = "typed "+c16canon(t), cm2
			}
		}
		ds = append(ds, d+" #"+cm)
	}
	var el []int
	for _, e := range errs {
		el = append(el, e.ErrLoc.StartLine)
	}
	return ds, frag.Lines, el
}

func VerifRun_C16d() {
	c16budget = verifParam("NODES")
	g := c16type(verifParam("DEPTH"))
	head := ""
	before := "-@class People"
	switch verifConcretize(verifRange("form", 0, 7)) {
	case 0:
		head = "-@type "
	case 1:
		head = "-@param x "
	case 2:
		head = "-@return "
	case 3:
		head = "-@field f "
	case 4:
		head = "-@alias Al "
	case 5:
		head = "-@vararg "
	case 6:
		head = "-@overload fun(a: string, b?: number): "
	case 7: // a continuation line of a multi-line alias (handled outside the per-line parser)
		head = "-| 'k' # "
		before = "-@alias Keys 'j'"
	}
	comment := ""
	if verifBool("withcomment") {
		comment = " @c"
	}
	line := head + g.text + comment
	toks := c16tokens(line)
	n := len(toks)
	op := verifConcretize(verifRange("op", 0, 3))
	k := verifConcretize(verifRange("k", 2, n)) // (without its leading `-@` the line is no annotation at all)
	if k == n && op != 2 {
		return // only an insertion can happen behind the last token
	}
	junk := ""
	if op == 1 || op == 2 {
		junk = c16junk[verifConcretize(verifRange("junk", 0, verifParam("JUNK")-1))]
	}
	bad := ""
	for i, t := range toks {
		switch {
		case i == k && op == 0:
			bad += t.lead
		case i == k && op == 1:
			bad += t.lead + junk
		case i == k && op == 2:
			bad += t.lead + junk + " " + t.text
		default:
			bad += t.lead + t.text
		}
		if i == k && op == 3 {
			break
		}
	}
	if k == n {
		bad += " " + junk
	}
	verifObserve("line", bad)
	after := "-@field age number @years"
	base, baseLines, baseErrs := c16digests(before, "", after)
	got, gotLines, gotErrs := c16digests(before, bad, after)
	verifReach("parsed")
	if len(baseErrs) != 0 || len(base) != 2 {
		verifViolation("", "harness: the neighbouring lines are not accepted on their own")
		return
	}
	if len(gotErrs) > 1 {
		verifViolation("", "a single corrupted annotation line yields more than one warning")
	}
	for _, l := range gotErrs {
		if l != 2 {
			verifViolation("", "the warning for a corrupted annotation line is reported on another line")
		}
	}
	if before == "-@class People" {
		if c16neighbourDigest(got, gotLines, 2) != c16neighbourDigest(base, baseLines, 2) {
			verifViolation("", "a corrupted annotation line disturbs the neighbouring annotations")
		}
	} else {
		// the alias above may or may not take the (corrupted) continuation line; the field below is untouched
		if len(got) == 0 || got[len(got)-1] != base[len(base)-1] || gotLines[len(gotLines)-1] != 3 {
			verifViolation("", "a corrupted alias continuation line disturbs the annotation below it")
		}
	}
}
