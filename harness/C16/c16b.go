//gosx:package langserver/check/annotation/annotateparser
package annotateparser

import (
	"luahelper-lsp/langserver/check/annotation/annotateast"
)

// C16 (statement forms): the statement-level syntax around the types — lists of types / return values /
// parents / generic names separated by commas, optional markers on params, return values and fun
// parameters, const / enum prefixes, field scopes, overload, enum start / end — is accepted without a
// warning and understood item by item; the trailing @comment is separated from the last item.
//
// Which form, how many items, which markers and which item types are solver-chosen; the expected
// structure (a digest) is built by the generator alongside the text.

func c16item() c16g {
	g := c16type(verifParam("DEPTH"))
	if g.kind == 4 {
		// a fun type's return list would swallow the comma that separates list items
		g.text = "(" + g.text + ")"
	}
	return g
}

func c16flag(b bool) string {
	if b {
		return "?"
	}
	return ""
}

func c16stateDigest(st annotateast.AnnotateState) (string, string) {
	switch x := st.(type) {
	case *annotateast.AnnotateTypeState:
		s := "type["
		for i, t := range x.ListType {
			if i > 0 {
				s += ";"
			}
			if i < len(x.ListConst) && x.ListConst[i] {
				s += "const "
			}
			if i < len(x.ListEnum) && x.ListEnum[i] {
				s += "enum "
			}
			s += c16canon(t)
		}
		if len(x.ListConst) != len(x.ListType) || len(x.ListEnum) != len(x.ListType) {
			s += "!len"
		}
		return s + "]", x.Comment
	case *annotateast.AnnotateClassState:
		s := "class " + x.Name + "["
		for i, p := range x.ParentNameList {
			if i > 0 {
				s += ";"
			}
			s += p
		}
		if len(x.ParentLocList) != len(x.ParentNameList) {
			s += "!len"
		}
		return s + "]", x.Comment
	case *annotateast.AnnotateFieldState:
		scope := "public"
		if x.FieldScopeType == annotateast.FieldScopeProtected {
			scope = "protected"
		} else if x.FieldScopeType == annotateast.FieldScopePrivate {
			scope = "private"
		}
		return "field " + scope + " " + x.Name + " " + c16canon(x.FiledType), x.Comment
	case *annotateast.AnnotateParamState:
		s := "param "
		if x.IsConst {
			s += "const "
		}
		return s + x.Name + c16flag(x.IsOptional) + " " + c16canon(x.ParamType), x.Comment
	case *annotateast.AnnotateReturnState:
		s := "return["
		for i, t := range x.ReturnTypeList {
			if i > 0 {
				s += ";"
			}
			s += c16canon(t)
			if i < len(x.ReturnOptionList) && x.ReturnOptionList[i] {
				s += "?"
			}
		}
		if len(x.ReturnOptionList) != len(x.ReturnTypeList) {
			s += "!len"
		}
		return s + "]", x.Comment
	case *annotateast.AnnotateGenericState:
		s := "generic["
		for i, n := range x.NameList {
			if i > 0 {
				s += ";"
			}
			s += n
			if i < len(x.ParentNameList) && x.ParentNameList[i] != "" {
				s += ":" + x.ParentNameList[i]
			}
		}
		if len(x.ParentNameList) != len(x.NameList) {
			s += "!len"
		}
		return s + "]", x.Comment
	case *annotateast.AnnotateOverloadState:
		if x.OverFunType == nil {
			return "overload nil", x.Comment
		}
		s := "overload fun("
		for i, n := range x.OverFunType.ParamNameList {
			if i > 0 {
				s += ","
			}
			s += n
			if i < len(x.OverFunType.ParamOptionList) && x.OverFunType.ParamOptionList[i] {
				s += "?"
			}
			s += ":"
			if i < len(x.OverFunType.ParamTypeList) {
				s += c16canon(x.OverFunType.ParamTypeList[i])
			}
		}
		s += ";"
		for i, r := range x.OverFunType.ReturnTypeList {
			if i > 0 {
				s += ","
			}
			s += c16canon(r)
		}
		return s + ")", x.Comment
	case *annotateast.AnnotateEnumState:
		if x.EnumType == annotateast.EnumTypeStart {
			return "enum start", x.Comment
		}
		if x.EnumType == annotateast.EnumTypeEnd {
			return "enum end", x.Comment
		}
		return "enum ?", x.Comment
	}
	return "?", ""
}

var c16parents = []string{"People", "Base", "Other"}
var c16generics = []string{"T", "K", "V"}
var c16params = []string{"a", "enum", "const"}

func VerifRun_C16b() {
	c16budget = verifParam("NODES")
	form := verifConcretize(verifRange("form", 0, 7))
	sep := ", "
	switch verifConcretize(verifRange("sep", 0, 2)) {
	case 1:
		sep = ","
	case 2:
		sep = " , "
	}
	maxn := verifParam("ITEMS")
	text, want := "", ""
	switch form {
	case 0: // ---@type [const|enum] T {, [const|enum] T}
		n := verifConcretize(verifRange("n", 1, maxn))
		text, want = "-@type ", "type["
		for i := 0; i < n; i++ {
			if i > 0 {
				text += sep
				want += ";"
			}
			switch verifConcretize(verifRange("prefix"+string(rune('0'+i)), 0, 2)) {
			case 1:
				text += "const "
				want += "const "
			case 2:
				text += "enum "
				want += "enum "
			}
			g := c16item()
			text += g.text
			want += g.canon
		}
		want += "]"
	case 1: // ---@class Cls [: P {, P}]
		n := verifConcretize(verifRange("n", 0, maxn))
		cname := []string{"Cls", "enum", "const", "field"}[verifConcretize(verifRange("kwname", 0, 3))]
		text, want = "-@class "+cname, "class "+cname+"["
		for i := 0; i < n; i++ {
			if i == 0 {
				switch verifConcretize(verifRange("colon", 0, 2)) {
				case 0:
					text += " : "
				case 1:
					text += ": "
				case 2:
					text += ":"
				}
			} else {
				text += sep
				want += ";"
			}
			text += c16parents[i]
			want += c16parents[i]
		}
		want += "]"
	case 2: // ---@field [scope] f T
		scope := "public"
		text = "-@field "
		switch verifConcretize(verifRange("scope", 0, 3)) {
		case 1:
			text += "public "
		case 2:
			text += "protected "
			scope = "protected"
		case 3:
			text += "private "
			scope = "private"
		}
		g := c16item()
		fname := []string{"f", "enum", "const", "type", "table", "fun"}[verifConcretize(verifRange("kwname", 0, 5))] // keywords of the annotation syntax are legal names
		text += fname + " " + g.text
		want = "field " + scope + " " + fname + " " + g.canon
	case 3: // ---@param [const] x[?] T
		text, want = "-@param ", "param "
		if verifBool("const") {
			text += "const "
			want += "const "
		}
		opt := verifBool("opt0")
		g := c16item()
		pname := []string{"x", "enum", "type", "table", "fun", "class"}[verifConcretize(verifRange("kwname", 0, 5))] // (`const` is the modifier here)
		text += pname + c16flag(opt) + " " + g.text
		want += pname + c16flag(opt) + " " + g.canon
	case 4: // ---@return T[?] {, T[?]}
		n := verifConcretize(verifRange("n", 1, maxn))
		text, want = "-@return ", "return["
		for i := 0; i < n; i++ {
			if i > 0 {
				text += sep
				want += ";"
			}
			g := c16item()
			opt := verifBool("opt" + string(rune('0'+i)))
			text += g.text + c16flag(opt)
			want += g.canon + c16flag(opt)
		}
		want += "]"
	case 5: // ---@generic T [: P] {, K [: P]}
		n := verifConcretize(verifRange("n", 1, maxn))
		text, want = "-@generic ", "generic["
		for i := 0; i < n; i++ {
			if i > 0 {
				text += sep
				want += ";"
			}
			text += c16generics[i]
			want += c16generics[i]
			if verifBool("opt" + string(rune('0'+i))) {
				text += " : " + c16parents[i]
				want += ":" + c16parents[i]
			}
		}
		want += "]"
	case 6: // ---@overload fun(a[?]: T {, b[?]: T}) [: R]
		n := verifConcretize(verifRange("n", 0, maxn))
		text, want = "-@overload fun(", "overload fun("
		for i := 0; i < n; i++ {
			if i > 0 {
				text += sep
				want += ","
			}
			opt := verifBool("opt" + string(rune('0'+i)))
			g := c16item()
			text += c16params[i] + c16flag(opt) + ": " + g.text
			want += c16params[i] + c16flag(opt) + ":" + g.canon
		}
		text += ")"
		want += ";"
		if verifBool("ret") {
			g := c16item()
			text += ": " + g.text
			want += g.canon
		}
		want += ")"
	case 7: // ---@enum start|end
		if verifBool("opt0") {
			text, want = "-@enum start", "enum start"
		} else {
			text, want = "-@enum end", "enum end"
		}
	}
	comment := verifBool("withcomment")
	if comment {
		text += " @c"
	}
	if verifParamOr("TABS", 0) == 1 && verifBool("tabs") {
		text = c16tabs(text)
	}
	verifObserve("line", text)
	frag, errs := c16parse(text)
	verifReach("parsed")
	class := ""
	if containsSub(want, "arr(arr(") {
		class = "C16-nested-array"
	}
	if len(errs) > 0 || len(frag.Stats) != 1 {
		verifViolation(class, "a statement derived from the documented syntax is rejected or dropped")
		return
	}
	got, cm := c16stateDigest(frag.Stats[0])
	verifObserve("understood", got)
	if got != want {
		verifViolation(class, "the items understood for a documented statement differ from the items written (list, marker or name lost or misplaced)")
	}
	if form == 7 {
		// the enum markers carry no item after the keyword; their comment text is never used by the
		// server, and is kept with its blank and '@' (" @c"). Only require that nothing else is in it.
		for len(cm) > 0 && (cm[0] == ' ' || cm[0] == '\t' || cm[0] == '@') {
			cm = cm[1:]
		}
	}
	if comment && cm != "c" {
		verifViolation(class, "the trailing @comment is not separated from the last item of the statement")
	}
	if !comment && cm != "" {
		verifViolation(class, "part of the statement is left over as comment text")
	}
}
