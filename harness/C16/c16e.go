//gosx:package langserver/check
package check

import (
	"luahelper-lsp/langserver/check/common"
	"strconv"
)

// C16-e: "a malformed line yields a warning on that line" - and keeps it. A file whose annotation block mixes
// valid lines, a valid line naming an undefined type (its own, different warning) and one malformed line, in
// a solver-chosen order, is analysed with the workspace; then other files are announced as changed, which
// re-runs the project-wide annotation checks over the unchanged file. Before and after, the malformed line
// carries exactly one annotation warning, and the file's annotation diagnostics are the same.

var c16eLines = []string{
	"---@class Player",
	"---@field weapon Weapon",     // valid, but Weapon is declared nowhere
	"---@field hp number",
	"---@field pet Animal | nil",  // a second undefined type
}

var c16eBad = []string{
	"---@field damage number |",
	"---@field armor table<string",
	"---@field name",
}

func c16eDiag(p *AllProject, file string) (string, map[int]int) {
	var items []string
	perLine := map[int]int{}
	for _, e := range p.GetAllFileErrorInfo()[file] {
		if e.ErrType != common.CheckErrorAnnotate {
			continue
		}
		perLine[e.Loc.StartLine]++
		items = append(items, strconv.Itoa(e.Loc.StartLine)+":"+strconv.Itoa(e.Loc.StartColumn)+" "+e.ErrStr)
	}
	for i := range items {
		for j := i + 1; j < len(items); j++ {
			if items[j] < items[i] {
				items[i], items[j] = items[j], items[i]
			}
		}
	}
	out := ""
	for _, it := range items {
		out += it + "; "
	}
	return out, perLine
}

func VerifRun_C16e() {
	root := verifVFSRoot()
	c08workspace(root)
	model, mainF := root+"/model.lua", root+"/main.lua"
	bad := c16eBad[verifConcretize(verifRange("bad", 0, len(c16eBad)-1))]
	at := verifConcretize(verifRange("at", 1, len(c16eLines))) // the malformed line stands before line index `at` of the block
	src, badLine := "", 0
	for i, l := range c16eLines {
		if i == at {
			src += bad + "\n"
			badLine = i + 1
		}
		src += l + "\n"
	}
	if at == len(c16eLines) {
		src += bad + "\n"
		badLine = len(c16eLines) + 1
	}
	// the malformed line inside the class block (0), or the class block intact and the malformed line in a
	// block of its own above another declaration: alone (1), or below free-text comment lines (2)
	layout := verifConcretize(verifRange("layout", 0, 2))
	if layout > 0 {
		src = ""
		for _, l := range c16eLines {
			src += l + "\n"
		}
		src += "local Player = {}\n\n"
		badLine = len(c16eLines) + 3
		if layout == 2 {
			src += "-- how much it costs\n-- (in coins)\n"
			badLine += 2
		}
		src += bad + "\nPlayer.cost = 1\n"
		src += "return Player\n"
	} else {
		src += "local Player = {}\nreturn Player\n"
	}
	verifVFSPut(model, []byte(src))
	verifVFSPut(mainF, []byte("local P = require(\"model\")\nprint(P)\n"))
	p := CreateAllProject([]string{model, mainF}, nil, nil)
	p.HandleCheck()
	d0, lines0 := c16eDiag(p, model)
	verifReach("checked")
	verifObserve("first", d0)
	if lines0[badLine] != 1 {
		verifViolation("", "a malformed annotation line does not carry exactly one annotation warning")
		return
	}
	for k := 0; k < verifParam("EVENTS"); k++ {
		verifVFSPut(mainF, []byte("local P = require(\"model\")\nprint(P, "+strconv.Itoa(k)+")\n"))
		p.HandleFileEventChanges([]FileEventStruct{{StrFile: mainF, Type: FileEventChanged}})
		d1, _ := c16eDiag(p, model)
		if d1 != d0 {
			verifObserve("later", d1)
			verifViolation("", "the annotation warnings of an untouched file change when another file is re-checked (a malformed line loses its warning)")
			return
		}
	}
}
