//gosx:package langserver/check/annotation/annotateparser
package annotateparser

import (
	"luahelper-lsp/langserver/check/annotation/annotateast"
	"luahelper-lsp/langserver/check/annotation/annotatelexer"
	"luahelper-lsp/langserver/check/compiler/lexer"
)

// C16: every annotation line derived from the documented grammar is accepted without a warning and
// understood with the documented structure; printing the understood type and reading it again gives
// the same type; a malformed line only yields a warning on that line.
//
// The generator derives a TYPE from the grammar of docs/manual/annotate.md; which production is used at
// each node is a solver-chosen value (every derivation within the node budget is explored). It builds
// the text and, independently of LuaHelper, the canonical structure the text denotes.

type c16g struct {
	text  string
	canon string
	kind  int // 0 atom, 1 array, 2 table, 3 union, 4 fun
}

var c16budget int

func c16atom() c16g {
	switch verifConcretize(verifRange("atom", 0, 2)) {
	case 0:
		return c16g{"string", "string", 0}
	case 1:
		return c16g{"number", "number", 0}
	}
	return c16g{"People", "People", 0}
}

// c16type derives a type; top=false forbids a bare union (used where the grammar needs parentheses).
func c16type(depth int) c16g {
	if depth <= 0 || c16budget <= 0 {
		return c16atom()
	}
	c16budget--
	switch verifConcretize(verifRange("prod", 0, 6)) {
	case 0:
		return c16atom()
	case 1: // T[]
		e := c16type(depth - 1)
		t := e.text
		if e.kind == 3 || e.kind == 4 {
			t = "(" + t + ")"
		}
		return c16g{t + "[]", "arr(" + e.canon + ")", 1}
	case 2: // table<K, V>
		k := c16type(depth - 1)
		v := c16type(depth - 1)
		if k.kind == 4 {
			k.text = "(" + k.text + ")" // the return list of a fun type would swallow the comma
		}
		return c16g{"table<" + k.text + ", " + v.text + ">", "tbl(" + k.canon + "," + v.canon + ")", 2}
	case 3: // bare table
		return c16g{"table", "tbl()", 2}
	case 4: // A | B
		a := c16type(depth - 1)
		b := c16type(depth - 1)
		at, bt := a.text, b.text
		if a.kind == 4 {
			at = "(" + at + ")"
		}
		ac, bc := a.canon, b.canon
		if a.kind == 3 {
			ac = ac[3 : len(ac)-1]
		}
		if b.kind == 3 {
			bc = bc[3 : len(bc)-1]
		}
		return c16g{at + " | " + bt, "or(" + ac + "," + bc + ")", 3}
	case 5: // fun(p: T): R
		p := c16type(depth - 1)
		r := c16type(depth - 1)
		if p.kind == 4 {
			p.text = "(" + p.text + ")"
		}
		if r.kind == 4 {
			r.text = "(" + r.text + ")"
		}
		return c16g{"fun(p: " + p.text + "): " + r.text, "fun(p:" + p.canon + ";" + r.canon + ")", 4}
	}
	// ( T )
	e := c16type(depth - 1)
	return c16g{"(" + e.text + ")", e.canon, e.kind}
}

// c16canon prints the structure LuaHelper understood (explicit, unambiguous).
func c16canon(t annotateast.Type) string {
	switch x := t.(type) {
	case *annotateast.NormalType:
		return x.StrName
	case *annotateast.ConstType:
		return "const(" + x.Name + ")"
	case *annotateast.ArrayType:
		return "arr(" + c16canon(x.ItemType) + ")"
	case *annotateast.TableType:
		if x.EmptyFlag {
			return "tbl()"
		}
		return "tbl(" + c16canon(x.KeyType) + "," + c16canon(x.ValueType) + ")"
	case *annotateast.MultiType:
		if len(x.TypeList) == 1 {
			return c16canon(x.TypeList[0])
		}
		s := "or("
		for i, e := range x.TypeList {
			if i > 0 {
				s += ","
			}
			c := c16canon(e)
			if len(c) > 3 && c[:3] == "or(" {
				c = c[3 : len(c)-1]
			}
			s += c
		}
		return s + ")"
	case *annotateast.FuncType:
		s := "fun("
		for i, n := range x.ParamNameList {
			if i > 0 {
				s += ","
			}
			s += n + ":"
			if i < len(x.ParamTypeList) {
				s += c16canon(x.ParamTypeList[i])
			}
		}
		s += ";"
		for i, r := range x.ReturnTypeList {
			if i > 0 {
				s += ","
			}
			s += c16canon(r)
		}
		return s + ")"
	case nil:
		return "nil"
	}
	return "?"
}

func c16parse(lines ...string) (annotateast.AnnotateFragment, []annotatelexer.ParseAnnotateErr) {
	ci := &lexer.CommentInfo{}
	for i, s := range lines {
		ci.LineVec = append(ci.LineVec, lexer.CommentLine{Str: s, Line: i + 1, Col: 0})
	}
	return ParseCommentFragment(ci)
}

func c16typeOf(st annotateast.AnnotateState) (annotateast.Type, string, bool) {
	switch x := st.(type) {
	case *annotateast.AnnotateTypeState:
		if len(x.ListType) == 1 {
			return x.ListType[0], x.Comment, true
		}
	case *annotateast.AnnotateParamState:
		return x.ParamType, x.Comment, true
	case *annotateast.AnnotateReturnState:
		if len(x.ReturnTypeList) == 1 {
			return x.ReturnTypeList[0], x.Comment, true
		}
	case *annotateast.AnnotateFieldState:
		return x.FiledType, x.Comment, true
	case *annotateast.AnnotateAliasState:
		return x.AliasType, x.Comment, true
	case *annotateast.AnnotateVarargState:
		return x.VarargType, x.Comment, true
	}
	return nil, "", false
}

func VerifRun_C16() {
	c16budget = verifParam("NODES")
	g := c16type(verifParam("DEPTH"))
	head := ""
	switch verifConcretize(verifRange("form", 0, 5)) {
	case 0:
		head = "-@type "
	case 1:
		head = "-@param x "
	case 2:
		head = "-@return "
	case 3:
		head = "-@field f "
	case 4:
		head = "-@alias Al "
	case 5:
		head = "-@vararg "
	}
	comment := ""
	if verifBool("withcomment") {
		comment = " @c"
	}
	line := head + g.text + comment
	if verifBool("tabs") {
		line = c16tabs(line) // tab-aligned annotation columns: a tab separates tokens like a blank does
	}
	verifObserve("line", line)
	frag, errs := c16parse(line)
	verifReach("parsed")
	class := ""
	if containsSub(g.canon, "arr(arr(") {
		class = "C16-nested-array"
	}
	if len(errs) > 0 || len(frag.Stats) != 1 {
		verifViolation(class, "an annotation line derived from the documented grammar is rejected or dropped")
		return
	}
	t, cm, ok := c16typeOf(frag.Stats[0])
	if !ok {
		verifViolation(class, "an annotation line derived from the documented grammar is not understood as its documented form")
		return
	}
	got := c16canon(t)
	if got != g.canon {
		verifViolation(class, "the structure understood for a documented type differs from the structure the text denotes")
	}
	if comment != "" && cm != "c" {
		verifViolation(class, "the trailing @comment is not separated from the type")
	}
	// round trip: print the understood type and read it again
	printed := annotateast.TypeConvertStr(t)
	frag2, errs2 := c16parse("-@type " + printed)
	rtClass := class
	if rtClass == "" && containsSub(got, "fun(") {
		rtClass = "C16-fun-print"
	}
	if rtClass == "" && (containsSub(got, "arr(or(")) {
		rtClass = "C16-print-array-of-union"
	}
	if len(errs2) > 0 || len(frag2.Stats) != 1 {
		verifViolation(rtClass, "the printed form of an understood type is not accepted when read again")
		return
	}
	t2, _, ok2 := c16typeOf(frag2.Stats[0])
	if !ok2 || c16canon(t2) != got {
		verifViolation(rtClass, "printing an understood type and reading it again gives a different type")
	}
	// isolation: a malformed line between two good ones only costs that line
	fragI, errsI := c16parse("-@class People", "-@type table<", line)
	if len(errsI) != 1 || len(fragI.Stats) != 2 {
		verifViolation(class, "a malformed annotation line disturbs the neighbouring annotations")
	}
}

func containsSub(s, sub string) bool {
	for i := 0; i+len(sub) <= len(s); i++ {
		if s[i:i+len(sub)] == sub {
			return true
		}
	}
	return false
}


func c16tabs(s string) string {
	b := []byte(s)
	for i := range b {
		if b[i] == ' ' {
			b[i] = '\t'
		}
	}
	return string(b)
}
