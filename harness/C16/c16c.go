//gosx:package langserver/check
package check

import "strings"

// C16-c: annotation lines are understood by the analysis, not only by the parser: a ---@type line that
// declares several types (one per variable of the following statement), single-type lines stacked over a
// multi-variable statement, ---@param / ---@return lines over a function. Hovering each variable shows
// the type written for it; nothing panics.
func VerifRun_C16c() {
	atoms := []string{"string", "number", "People"}
	t1 := atoms[verifConcretize(verifRange("t1", 0, 2))]
	t2 := atoms[verifConcretize(verifRange("t2", 0, 2))]
	t3 := atoms[verifConcretize(verifRange("t3", 0, 2))]
	pre := "---@class People\n---@field name string\n\n"
	src := pre
	var names []string
	var types []string
	switch verifConcretize(verifRange("form", 0, 3)) {
	case 0: // one line, several types
		src += "---@type " + t1 + ", " + t2 + " @c1 @c2\nlocal va, vb = nil, nil\n"
		names, types = []string{"va", "vb"}, []string{t1, t2}
	case 1: // one line, three types
		src += "---@type " + t1 + ", " + t2 + ", " + t3 + "\nlocal va, vb, vc = nil, nil, nil\n"
		names, types = []string{"va", "vb", "vc"}, []string{t1, t2, t3}
	case 2: // a multi-type line followed by a single-type line
		src += "---@type " + t1 + ", " + t2 + " @c\n---@type " + t3 + " @d\nlocal va, vb, vc = nil, nil, nil\n"
		names, types = []string{"va", "vb", "vc"}, []string{t1, t2, t3}
	case 3: // one type per line
		src += "---@type " + t1 + "\n---@type " + t2 + "\nlocal va, vb = nil, nil\n"
		names, types = []string{"va", "vb"}, []string{t1, t2}
	}
	for _, n := range names {
		src += "q = " + n + "\n"
	}
	file := "/w/a.lua"
	p, _ := vpProject([]string{file}, [][]byte{[]byte(src)})
	verifObserve("program", src)
	lines := strings.Split(src, "\n")
	for k, n := range names {
		// at the use site `q = <name>`
		for li, l := range lines {
			if l == "q = "+n {
				off := 0
				for x := 0; x < li; x++ {
					off += len(lines[x]) + 1
				}
				vs := GetVarStruct([]byte(src), off+4, uint32(li), 4)
				label, _, _ := p.GetLspHoverVarStr(file, &vs)
				verifReach("hovered")
				if !strings.Contains(label, types[k]) {
					verifViolation("", "hover on a variable annotated through a ---@type list does not show the type written for it")
				}
			}
		}
	}
}
