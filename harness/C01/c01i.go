//gosx:package langserver/check
package check

// C01-i: project mode (entry files given, as with a luahelper.json naming ProjectFiles): the second-phase
// traversal follows require / dofile into other files. Every module graph over FILES files - each file may
// load each file, itself included, so cycles of every length occur - is analysed from the entry file a.lua,
// then one file is announced as changed (which re-runs the project phase). Nothing is asserted about the
// diagnostics: the analysis must terminate without panicking or exhausting the stack.
func VerifRun_C01i() {
	root := verifVFSRoot()
	c08workspace(root)
	nf := verifParam("FILES")
	names := []string{"a", "b", "c"}[:nf]
	var files []string
	for _, n := range names {
		files = append(files, root+"/"+n+".lua")
	}
	form := verifConcretize(verifRange("form", 0, 2))
	for i, n := range names {
		src := "g" + n + " = 1\n"
		for _, m := range names {
			if !verifBool("loads") {
				continue
			}
			switch form {
			case 0:
				src += "local m" + m + " = require(\"" + m + "\")\n"
			case 1:
				src += "dofile(\"" + m + ".lua\")\n"
			case 2:
				src += "function f" + n + m + "()\n return require(\"" + m + "\").x\nend\n"
			}
		}
		src += "return { x = g" + n + " }\n"
		verifVFSPut(files[i], []byte(src))
	}
	p := CreateAllProject(files, []string{files[0]}, nil)
	p.HandleCheck()
	verifReach("analysed")
	touched := files[verifConcretize(verifRange("touched", 0, nf-1))]
	p.HandleFileEventChanges([]FileEventStruct{{StrFile: touched, Type: FileEventChanged}})
	_ = p.GetAllFileErrorInfo()
	verifReach("survived")
}
