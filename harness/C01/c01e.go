//gosx:package langserver
package langserver

import (
	"context"
	"luahelper-lsp/langserver/check"
	"luahelper-lsp/langserver/pathpre"
	lsp "luahelper-lsp/langserver/protocol"
	"strconv"
)

// C01-e: no annotation text makes a request overflow the stack or loop. Three classes in one file, each
// with up to two parents chosen by the solver (self-inheritance, mutual inheritance, a class inheriting
// into a cycle it is not part of, diamonds), a variable typed as any of them directly, through an alias
// or as an array element; member completion, hover and go-to-definition on the variable and on a member.
// Nothing is asserted about the answers: the only failures are panic, depth and step overruns.
func VerifRun_C01e() {
	pathpre.InitialRootURIAndPath("file:///w", "/w")
	const nc = 3
	names := []string{"A", "B", "C"}
	src := ""
	lines := 0
	for i := 0; i < nc; i++ {
		p1 := verifConcretize(verifRange("p1_"+strconv.Itoa(i), 0, nc)) - 1
		p2 := -1
		if i < verifParam("SECOND") {
			p2 = verifConcretize(verifRange("p2_"+strconv.Itoa(i), 0, nc)) - 1
		}
		src += "---@class " + names[i]
		if p1 >= 0 {
			src += " : " + names[p1]
			if p2 >= 0 {
				src += ", " + names[p2]
			}
		} else if p2 >= 0 {
			src += " : " + names[p2]
		}
		src += "\n---@field f" + names[i] + " number\n\n"
		lines += 3
	}
	x := names[verifConcretize(verifRange("target", 0, nc-1))]
	typ, use := x, "v"
	switch verifConcretize(verifRange("form", 0, verifParam("FORMS")-1)) {
	case 1:
		src += "---@alias M " + x + "\n\n"
		lines += 2
		typ = "M"
	case 2:
		typ = x + "[]"
		use = "v[1]"
	case 3:
		typ = "table<string, " + x + ">"
		use = "v.k"
	}
	src += "---@type " + typ + "\nlocal v = {}\n"
	lines += 2
	useLine := lines
	src += "q = " + use + ".fA\n"
	file := "/w/a.lua"
	l := CreateLspServer()
	l.project = check.VpProject([]string{file}, [][]byte{[]byte(src)})
	l.fileCache.SetFileContent(file, []byte(src))
	at := func(ch int) lsp.TextDocumentPositionParams {
		return lsp.TextDocumentPositionParams{
			TextDocument: lsp.TextDocumentIdentifier{URI: lsp.DocumentURI("file://" + file)},
			Position:     lsp.Position{Line: uint32(useLine), Character: uint32(ch)}}
	}
	verifReach("request")
	ctx := context.Background()
	member := 4 + len(use) + 2
	_, _ = l.TextDocumentHover(ctx, at(4))
	_, _ = l.TextDocumentDefine(ctx, at(4))
	_, _ = l.TextDocumentHover(ctx, at(member))
	_, _ = l.TextDocumentDefine(ctx, at(member))
	_, _ = l.TextDocumentReferences(ctx, lsp.ReferenceParams{TextDocumentPositionParams: at(member)})
	_, _ = l.TextDocumentComplete(ctx, lsp.CompletionParams{TextDocumentPositionParams: at(4 + len(use) + 1)})
	verifReach("answered")
}
