//gosx:package langserver
package langserver

import (
	"context"
	lsp "luahelper-lsp/langserver/protocol"
	"strconv"

	"github.com/yinfei8/jrpc2"
	"github.com/yinfei8/jrpc2/handler"
)

// C01-k: configurations are part of the quantifier. A luahelper.json with an AnntotateSets rule (the result of
// a call gets the annotation type named by its N-th argument; ParamIndex, SplitFlag and the prefix are
// solver-chosen, ParamIndex also 0 and beyond the usual arity) is read by the real Initialize; the workspace
// calls the configured function with 0..3 arguments of different kinds; then one of six position requests is
// sent on the variable holding the result and on a member of it. Nothing is asserted about the answers.
func VerifRun_C01k() {
	root := verifVFSRoot()
	pi := verifConcretize(verifRange("paramIndex", 0, 3))
	split := verifConcretize(verifRange("split", 0, 1))
	js := "{\n \"BaseDir\": \"./\",\n \"ShowWarnFlag\": 1,\n \"AnntotateSets\": [\n  {\"FuncName\": \"GetObj\", \"ParamIndex\": " + strconv.Itoa(pi) +
		", \"SplitFlag\": " + strconv.Itoa(split) + ", \"PrefixStr\": \"U\", \"PrefixStrList\": [\"A\"], \"SuffixStr\": \"\"}\n ]\n}\n"
	verifVFSPut(root+"/luahelper.json", []byte(js))
	verifVFSPut(root+"/types.lua", []byte("---@class UFoo\n---@field x number\nlocal UFoo = {}\n\n---@class AFoo\n---@field y number\nlocal AFoo = {}\n"))
	argKinds := []string{"\"Foo\"", "bp", "\"m.Foo\"", "nm"}
	nargs := verifConcretize(verifRange("nargs", 0, 3))
	args := ""
	for i := 0; i < nargs; i++ {
		if i > 0 {
			args += ", "
		}
		args += argKinds[verifConcretize(verifRange("arg"+strconv.Itoa(i), 0, verifParam("KINDS")-1))]
	}
	src := "local nm = \"Foo\"\nlocal a = GetObj(" + args + ")\nprint(a.x)\n"
	verifVFSPut(root+"/main.lua", []byte(src))
	c08view = map[string]string{}
	ctx := context.Background()
	l := CreateLspServer()
	l.server = jrpc2.NewServer(handler.Map{}, &jrpc2.ServerOptions{AllowPush: false, Concurrency: 1})
	var ip InitializeParams
	ip.RootURI = lsp.DocumentURI("file://" + root)
	ip.RootPath = root
	ip.InitializationOptions = getDefaultIntialOptions()
	if _, err := l.Initialize(ctx, ip); err != nil {
		verifViolation("", "harness: initialize failed")
		return
	}
	_ = l.Initialized(ctx, InitializedParams{})
	verifReach("started")
	uri := lsp.DocumentURI("file://" + root + "/main.lua")
	_ = l.TextDocumentDidOpen(ctx, lsp.DidOpenTextDocumentParams{TextDocument: lsp.TextDocumentItem{URI: uri, Text: src}})
	positions := []lsp.Position{{Line: 1, Character: 7}, {Line: 2, Character: 7}, {Line: 2, Character: 9}}
	pos := lsp.TextDocumentPositionParams{TextDocument: lsp.TextDocumentIdentifier{URI: uri}, Position: positions[verifConcretize(verifRange("where", 0, 2))]}
	switch verifConcretize(verifRange("request", 0, 5)) {
	case 0:
		_, _ = l.TextDocumentHover(ctx, pos)
	case 1:
		_, _ = l.TextDocumentDefine(ctx, pos)
	case 2:
		_, _ = l.TextDocumentReferences(ctx, lsp.ReferenceParams{TextDocumentPositionParams: pos})
	case 3:
		_, _ = l.TextDocumentComplete(ctx, lsp.CompletionParams{TextDocumentPositionParams: pos})
	case 4:
		_, _ = l.TextDocumentHighlight(ctx, pos)
	case 5:
		_, _ = l.TextDocumentSignatureHelp(ctx, pos)
	}
	verifReach("answered")
}
