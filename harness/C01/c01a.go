//gosx:package langserver/check/compiler/parser
package parser

// C01-a: arbitrary bytes -> real lexer -> real parser. Any uncaught panic, step/depth budget overrun is
// reported by the engine; the harness additionally checks the contract of BeginAnalyze.
func VerifRun_C01a() {
	n := verifParam("N")
	var src []byte
	if set := verifParam("SIGMA"); set == 1 {
		src = verifBytesIn("src", n, "a1.-[]=\"\\\n\r \xc3\xf0")
	} else {
		src = verifBytes("src", n)
	}
	p := CreateParser(src, "x.lua")
	blk, _, errs := p.BeginAnalyze()
	if blk == nil {
		verifViolation("", "BeginAnalyze returned a nil block")
	}
	if len(errs) > 0 {
		verifReach("errors")
	} else {
		verifReach("clean")
	}
}
