//gosx:package langserver
package langserver

import (
	"context"
	lsp "luahelper-lsp/langserver/protocol"

	"github.com/yinfei8/jrpc2"
	"github.com/yinfei8/jrpc2/handler"
)

// C01-o: documents outside the workspace folder are part of the quantifier. luahelper.json declares protocol
// prefixes (ProtocolVars c2s / s2s); a file that lies outside the workspace (or inside it) is opened, a line
// using a protocol prefix is typed and one of the position requests is sent after the dot. The server answers
// (anything) and stays alive.
func VerifRun_C01o() {
	root := verifVFSRoot()
	ws := root + "/proj"
	verifVFSPut(ws+"/luahelper.json", []byte("{\n \"BaseDir\": \"./\",\n \"ShowWarnFlag\": 1,\n \"ProtocolVars\": [\"c2s\", \"s2s\"]\n}\n"))
	verifVFSPut(ws+"/main.lua", []byte("c2s.login = function(a) end\nlocal m = 1\nprint(m)\n"))
	file := ws + "/tools/probe.lua"
	if verifBool("outsideTheWorkspace") {
		file = root + "/elsewhere/probe.lua"
	}
	disk := "local x = 1\n"
	verifVFSPut(file, []byte(disk))
	c08view = map[string]string{}
	ctx := context.Background()
	l := CreateLspServer()
	l.server = jrpc2.NewServer(handler.Map{}, &jrpc2.ServerOptions{AllowPush: false, Concurrency: 1})
	var ip InitializeParams
	ip.RootURI = lsp.DocumentURI("file://" + ws)
	ip.RootPath = ws
	ip.InitializationOptions = getDefaultIntialOptions()
	if _, err := l.Initialize(ctx, ip); err != nil {
		verifViolation("", "harness: initialize failed")
		return
	}
	_ = l.Initialized(ctx, InitializedParams{})
	verifReach("started")
	uri := lsp.DocumentURI("file://" + file)
	_ = l.TextDocumentDidOpen(ctx, lsp.DidOpenTextDocumentParams{TextDocument: lsp.TextDocumentItem{URI: uri, Text: disk}})
	line := []string{"c2s.", "s2s.lo", "c2s.login(1)", "local y = c2s"}[verifConcretize(verifRange("typed", 0, 3))]
	txt := disk + line + "\n"
	_ = l.TextDocumentDidChange(ctx, lsp.DidChangeTextDocumentParams{
		TextDocument:   lsp.VersionedTextDocumentIdentifier{TextDocumentIdentifier: lsp.TextDocumentIdentifier{URI: uri}},
		ContentChanges: []lsp.TextDocumentContentChangeEvent{{Text: txt}}})
	pos := lsp.TextDocumentPositionParams{TextDocument: lsp.TextDocumentIdentifier{URI: uri}, Position: lsp.Position{Line: 1, Character: uint32(len(line))}}
	switch verifConcretize(verifRange("request", 0, 3)) {
	case 0:
		_, _ = l.TextDocumentComplete(ctx, lsp.CompletionParams{TextDocumentPositionParams: pos})
	case 1:
		_, _ = l.TextDocumentHover(ctx, pos)
	case 2:
		_, _ = l.TextDocumentDefine(ctx, pos)
	case 3:
		_, _ = l.TextDocumentReferences(ctx, lsp.ReferenceParams{TextDocumentPositionParams: pos})
	}
	verifReach("answered")
}
