//gosx:package langserver
package langserver

import (
	"context"
	"luahelper-lsp/langserver/check"
	"luahelper-lsp/langserver/pathpre"
	lsp "luahelper-lsp/langserver/protocol"
)

// C01-h: completion is two-phase (textDocument/completion fills a server-side list and hands out indices,
// completionItem/resolve looks an index up again). A resolve may arrive for an item of an earlier answer:
// two completions at solver-chosen places (a bare prefix with many candidates, a member access with few,
// an empty result), then a resolve with a solver-chosen index from -1 to 40, including indices that were
// valid for the first answer and are one past the end of the second. Nothing may panic.
func VerifRun_C01h() {
	pathpre.InitialRootURIAndPath("file:///w", "/w")
	src := "local config = { host = 1, port = 2, mode = 3 }\nlocal conn = 1\nlocal count = 2\nlocal t = {}\nco\nconfig.\nt.\nzz\n"
	file := "/w/a.lua"
	srv := CreateLspServer()
	srv.project = check.VpProject([]string{file}, [][]byte{[]byte(src)})
	srv.fileCache.SetFileContent(file, []byte(src))
	ctx := context.Background()
	uri := lsp.DocumentURI("file://" + file)
	places := [][2]uint32{{4, 2}, {5, 7}, {6, 2}, {7, 2}}
	verifReach("request")
	for k := 0; k < 2; k++ {
		pl := places[verifConcretize(verifRange("place", 0, len(places)-1))]
		_, _ = srv.TextDocumentComplete(ctx, lsp.CompletionParams{TextDocumentPositionParams: lsp.TextDocumentPositionParams{
			TextDocument: lsp.TextDocumentIdentifier{URI: uri}, Position: lsp.Position{Line: pl[0], Character: pl[1]}}})
	}
	idx := verifConcretize(verifRange("index", 0, 41)) - 1
	_, _ = srv.TextDocumentCompleteResolve(ctx, lsp.CompletionItem{Label: "x", Data: float64(idx)})
	verifReach("answered")
}
