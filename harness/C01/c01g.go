//gosx:package langserver
package langserver

import (
	"context"
	"luahelper-lsp/langserver/check"
	"luahelper-lsp/langserver/pathpre"
	lsp "luahelper-lsp/langserver/protocol"
)

// C01-g: no identifier length makes a request panic. A global function, a local and a table member whose
// names are L bytes long (L solver-chosen around the fixed-size buffers of the fuzzy matcher: 120..135, and
// 300); workspace/symbol with queries that are subsequences of the name, completion, hover, definition and
// the document outline. Nothing is asserted about the answers.
func VerifRun_C01g() {
	pathpre.InitialRootURIAndPath("file:///w", "/w")
	l := 120 + verifConcretize(verifRange("len", 0, 16))
	if l == 136 {
		l = 300
	}
	name := ""
	for i := 0; i < l; i++ {
		name += string([]byte{'a' + byte(i%3)})
	}
	src := "function " + name + "() end\nlocal t = {}\nt." + name + " = 1\nlocal " + name + "x = 2\nq = " + name + "x\n"
	file := "/w/a.lua"
	srv := CreateLspServer()
	srv.project = check.VpProject([]string{file}, [][]byte{[]byte(src)})
	srv.fileCache.SetFileContent(file, []byte(src))
	ctx := context.Background()
	uri := lsp.DocumentURI("file://" + file)
	verifReach("request")
	for _, q := range []string{"ab", "abc", name[:5], name} {
		_, _ = srv.WorkspaceSymbolRequest(ctx, lsp.WorkspaceSymbolParams{Query: q})
	}
	pos := lsp.TextDocumentPositionParams{TextDocument: lsp.TextDocumentIdentifier{URI: uri}, Position: lsp.Position{Line: 4, Character: 6}}
	_, _ = srv.TextDocumentHover(ctx, pos)
	_, _ = srv.TextDocumentDefine(ctx, pos)
	_, _ = srv.TextDocumentComplete(ctx, lsp.CompletionParams{TextDocumentPositionParams: pos})
	_, _ = srv.TextDocumentSymbol(ctx, lsp.DocumentSymbolParams{TextDocument: lsp.TextDocumentIdentifier{URI: uri}})
	verifReach("answered")
}
