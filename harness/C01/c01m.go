//gosx:package langserver
package langserver

import (
	"context"
	lsp "luahelper-lsp/langserver/protocol"
	"strconv"

	"github.com/yinfei8/jrpc2"
	"github.com/yinfei8/jrpc2/handler"
)

// C01-m: workspace layouts are part of the quantifier. A workspace whose scripts folder holds LINKS symbolic
// links to modules kept in a shared folder (a common way to share code between game servers), scanned by the
// real Initialize: the parallel directory walk starts a sub-scan on every link, the read of a link that
// points to a file fails, and the walk has to survive that any number of times (more often than it has
// semaphore slots). Below the directory walk only ioutil.ReadDir and os.Stat are models (over the virtual
// file system, which knows symbolic links to files). Then a request is answered.
func VerifRun_C01m() {
	root := verifVFSRoot()
	links := verifConcretize(verifRange("links", 0, verifParam("LINKS")))
	verifVFSPut(root+"/main.lua", []byte("local m = require(\"scripts.mod0\")\nprint(m)\n"))
	for i := 0; i < links; i++ {
		n := strconv.Itoa(i)
		verifVFSPut(root+"/shared/mod"+n+".lua", []byte("local M = {}\nM.id = "+n+"\nreturn M\n"))
		verifVFSLink(root+"/scripts/mod"+n+".lua", root+"/shared/mod"+n+".lua")
	}
	c08view = map[string]string{}
	ctx := context.Background()
	l := CreateLspServer()
	l.server = jrpc2.NewServer(handler.Map{}, &jrpc2.ServerOptions{AllowPush: false, Concurrency: 1})
	var ip InitializeParams
	ip.RootURI = lsp.DocumentURI("file://" + root)
	ip.RootPath = root
	ip.InitializationOptions = getDefaultIntialOptions()
	if _, err := l.Initialize(ctx, ip); err != nil {
		verifViolation("", "harness: initialize failed")
		return
	}
	_ = l.Initialized(ctx, InitializedParams{})
	verifReach("started")
	uri := lsp.DocumentURI("file://" + root + "/main.lua")
	_ = l.TextDocumentDidOpen(ctx, lsp.DidOpenTextDocumentParams{TextDocument: lsp.TextDocumentItem{URI: uri, Text: "local m = require(\"scripts.mod0\")\nprint(m)\n"}})
	_, _ = l.TextDocumentHover(ctx, lsp.TextDocumentPositionParams{TextDocument: lsp.TextDocumentIdentifier{URI: uri}, Position: lsp.Position{Line: 1, Character: 7}})
	verifReach("answered")
}
