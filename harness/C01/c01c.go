//gosx:package langserver/check/annotation/annotateparser
package annotateparser

import "luahelper-lsp/langserver/check/compiler/lexer"

// C01-c: an annotation comment line with arbitrary content never makes the annotation parser panic
// (ParserLine's recover re-panics on anything that is not its own error type, and nothing above it
// recovers: the server would die while analysing the file).
func VerifRun_C01c() {
	n := verifParam("N")
	var body []byte
	switch verifParam("SIGMA") {
	case 1:
		body = verifBytesIn("ann", n, "atypefun()[]<>|,:?@\"'. ")
	default:
		body = verifBytes("ann", n)
	}
	prefix := "-@"
	switch verifConcretize(verifRange("head", 0, 3)) {
	case 1:
		prefix = "-@type "
	case 2:
		prefix = "-@alias q "
	case 3:
		prefix = "-| "
	}
	line := prefix + string(body)
	ci := &lexer.CommentInfo{LineVec: []lexer.CommentLine{{Str: "-@alias q", Line: 1, Col: 0}, {Str: line, Line: 2, Col: 0}}}
	_, errs := ParseCommentFragment(ci)
	if len(errs) > 0 {
		verifReach("rejected")
	} else {
		verifReach("accepted")
	}
}
