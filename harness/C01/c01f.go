//gosx:package langserver/check
package check

import "strconv"

// C01-f: no history of watched-file events makes the analysis panic - including events that do not match
// the disk (a "created" event for a file that has already vanished, which leaves a read-error entry), files
// that are empty, and later events for other files that re-run the project-wide passes. Files live in the
// virtual file system; the real worker pools run. Nothing is asserted about diagnostics.
func VerifRun_C01f() {
	root := verifVFSRoot()
	c08workspace(root)
	a, b, c := root+"/a.lua", root+"/b.lua", root+"/c.lua"
	verifVFSPut(a, []byte("ga = 1\nprint(gb)\n"))
	p := CreateAllProject([]string{a}, nil, nil)
	p.HandleCheck()
	bOn, cOn := false, false
	for k := 0; k < verifParam("STEPS"); k++ {
		switch verifConcretize(verifRange("act"+strconv.Itoa(k), 0, 6)) {
		case 0: // b announced as created whatever the disk says
			p.HandleFileEventChanges([]FileEventStruct{{StrFile: b, Type: FileEventCreated}})
		case 1: // b (re)written empty, announced as changed
			verifVFSPut(b, []byte{})
			bOn = true
			p.HandleFileEventChanges([]FileEventStruct{{StrFile: b, Type: FileEventChanged}})
		case 2: // b written with content, announced as created
			verifVFSPut(b, []byte("gb = 2\n"))
			bOn = true
			p.HandleFileEventChanges([]FileEventStruct{{StrFile: b, Type: FileEventCreated}})
		case 3: // b deleted
			if bOn {
				verifVFSDel(b)
				bOn = false
			}
			p.HandleFileEventChanges([]FileEventStruct{{StrFile: b, Type: FileEventDeleted}})
		case 4: // a touched
			p.HandleFileEventChanges([]FileEventStruct{{StrFile: a, Type: FileEventChanged}})
		case 5: // c created / deleted
			if cOn {
				verifVFSDel(c)
				p.HandleFileEventChanges([]FileEventStruct{{StrFile: c, Type: FileEventDeleted}})
			} else {
				verifVFSPut(c, []byte("gc = 3\n"))
				p.HandleFileEventChanges([]FileEventStruct{{StrFile: c, Type: FileEventCreated}})
			}
			cOn = !cOn
		case 6: // b written with a syntax error, announced as changed
			verifVFSPut(b, []byte("gb = = 2\n"))
			bOn = true
			p.HandleFileEventChanges([]FileEventStruct{{StrFile: b, Type: FileEventChanged}})
		}
	}
	_ = p.GetAllFileErrorInfo()
	verifReach("survived")
}
