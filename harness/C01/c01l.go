//gosx:package langserver
package langserver

import (
	"context"
	lsp "luahelper-lsp/langserver/protocol"
	"strconv"

	"github.com/yinfei8/jrpc2"
	"github.com/yinfei8/jrpc2/handler"
)

// C01-l: the opt-in checks of luahelper.json (OpenErrorTypes 22..28: class fields, constant assignment,
// argument types, return types, assignment types, operand types, uncalled local functions) switched on one
// at a time, all together or not at all, over a program that exercises each of them at its boundaries:
// vararg functions called with fewer / as many / more arguments than named parameters, annotated and
// un-annotated parameters, functions returning fewer / more values than annotated, fields outside the class,
// constants re-assigned. The server must start, analyse and answer a request.
const c01lProg = "---@class Pt\n---@field x number\nlocal Pt = {}\n" +
	"---@param fmt string\nlocal function trace(fmt, ...) return fmt end\ntrace()\ntrace(\"a\")\ntrace(\"a %s %d\", 1, 2)\ntrace(1, nil, {})\n" +
	"---@param a number\n---@param b string\n---@return number, string\nfunction pair(a, b) if a then return 1 end return 1, \"s\", 3 end\npair()\npair(1)\npair(\"s\", 2, 3)\n" +
	"function bare(...) return ... end\nbare(1, 2, 3)\n" +
	"---@type Pt\nlocal p = { x = 1, y = 2 }\np.z = 3\n" +
	"local k <const> = 1\nlocal s = \"a\" + 1\nlocal n = 1\nn = \"str\"\nlocal function unused() end\nprint(p, k, s, n, Pt)\n"

func VerifRun_C01l() {
	root := verifVFSRoot()
	sel := verifConcretize(verifRange("open", 0, 8)) // 0 none, 1..7 one of 22..28, 8 all
	open := ""
	for t := 22; t <= 28; t++ {
		if sel == 8 || sel == t-21 {
			if open != "" {
				open += ", "
			}
			open += strconv.Itoa(t)
		}
	}
	js := "{\n \"BaseDir\": \"./\",\n \"ShowWarnFlag\": 1,\n \"OpenErrorTypes\": [" + open + "]\n}\n"
	verifVFSPut(root+"/luahelper.json", []byte(js))
	verifVFSPut(root+"/main.lua", []byte(c01lProg))
	c08view = map[string]string{}
	ctx := context.Background()
	l := CreateLspServer()
	l.server = jrpc2.NewServer(handler.Map{}, &jrpc2.ServerOptions{AllowPush: false, Concurrency: 1})
	var ip InitializeParams
	ip.RootURI = lsp.DocumentURI("file://" + root)
	ip.RootPath = root
	ip.InitializationOptions = getDefaultIntialOptions()
	if _, err := l.Initialize(ctx, ip); err != nil {
		verifViolation("", "harness: initialize failed")
		return
	}
	_ = l.Initialized(ctx, InitializedParams{})
	verifReach("started")
	uri := lsp.DocumentURI("file://" + root + "/main.lua")
	_ = l.TextDocumentDidOpen(ctx, lsp.DidOpenTextDocumentParams{TextDocument: lsp.TextDocumentItem{URI: uri, Text: c01lProg}})
	// an edit and a save re-run the checks in real-time and in full mode
	_ = l.TextDocumentDidChange(ctx, lsp.DidChangeTextDocumentParams{
		TextDocument:   lsp.VersionedTextDocumentIdentifier{TextDocumentIdentifier: lsp.TextDocumentIdentifier{URI: uri}},
		ContentChanges: []lsp.TextDocumentContentChangeEvent{{Text: c01lProg + "trace(\"x\", 1)\n"}}})
	txt := c01lProg + "trace(\"x\", 1)\n"
	verifVFSPut(root+"/main.lua", []byte(txt))
	_ = l.TextDocumentDidSave(ctx, lsp.DidSaveTextDocumentParams{TextDocument: lsp.TextDocumentIdentifier{URI: uri}, Text: &txt})
	_, _ = l.TextDocumentHover(ctx, lsp.TextDocumentPositionParams{TextDocument: lsp.TextDocumentIdentifier{URI: uri}, Position: lsp.Position{Line: 5, Character: 2}})
	verifReach("answered")
}
