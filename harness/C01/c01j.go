//gosx:package langserver
package langserver

import (
	"context"
	lsp "luahelper-lsp/langserver/protocol"
	"strconv"
)

// C01-j: no history of editor notifications and watched-file events about one file, followed by a request
// in it or in a file that uses it, takes the server down. The file is edited (didOpen/didChange), saved,
// closed, deleted on disk and re-created behind the editor - in any order, so that the editor's buffer and
// the analysed workspace disagree about whether the file exists. Real handlers, virtual file system.
func VerifRun_C01j() {
	root := verifVFSRoot()
	a, b := root+"/a.lua", root+"/b.lua"
	textA := "function ga(x)\n return x\nend\nlocal la = ga(1)\nprint(la)\n"
	verifVFSPut(a, []byte(textA))
	verifVFSPut(b, []byte("local r = ga(2)\nprint(r)\n"))
	c08view = map[string]string{}
	l := c08eServer(root, []string{a, b})
	ctx := context.Background()
	open := false
	onDisk := true
	if verifBool("fresh") {
		// the file of the history is one the workspace has never seen: a new, still unsaved document
		a = root + "/n.lua"
		onDisk = false
	}
	uriA := lsp.DocumentURI("file://" + a)
	uriB := lsp.DocumentURI("file://" + b)
	cur := textA
	for k := 0; k < verifParam("STEPS"); k++ {
		switch verifConcretize(verifRange("act"+strconv.Itoa(k), 0, 4)) {
		case 0: // the user types (opening the document first)
			if !open {
				_ = l.TextDocumentDidOpen(ctx, lsp.DidOpenTextDocumentParams{TextDocument: lsp.TextDocumentItem{URI: uriA, Text: cur}})
				open = true
			}
			cur = cur + "ga(" + strconv.Itoa(k) + ")\n"
			_ = l.TextDocumentDidChange(ctx, lsp.DidChangeTextDocumentParams{
				TextDocument:   lsp.VersionedTextDocumentIdentifier{TextDocumentIdentifier: lsp.TextDocumentIdentifier{URI: uriA}},
				ContentChanges: []lsp.TextDocumentContentChangeEvent{{Text: cur}}})
		case 1: // the user saves
			if !open {
				return
			}
			verifVFSPut(a, []byte(cur))
			onDisk = true
			txt := cur
			_ = l.TextDocumentDidSave(ctx, lsp.DidSaveTextDocumentParams{TextDocument: lsp.TextDocumentIdentifier{URI: uriA}, Text: &txt})
		case 2: // the file is deleted behind the editor, the watcher reports it
			if !onDisk {
				return
			}
			verifVFSDel(a)
			onDisk = false
			_ = l.WorkspaceChangeWatchedFiles(ctx, lsp.DidChangeWatchedFilesParams{Changes: []lsp.FileEvent{{URI: uriA, Type: lsp.Deleted}}})
		case 3: // the file comes back on disk (e.g. a branch switch), the watcher reports it
			if onDisk {
				return
			}
			verifVFSPut(a, []byte(textA))
			onDisk = true
			_ = l.WorkspaceChangeWatchedFiles(ctx, lsp.DidChangeWatchedFilesParams{Changes: []lsp.FileEvent{{URI: uriA, Type: lsp.Created}}})
		case 4: // the user closes the document
			if !open {
				return
			}
			_ = l.TextDocumentDidClose(ctx, lsp.DidCloseTextDocumentParams{TextDocument: lsp.TextDocumentIdentifier{URI: uriA}})
			open = false
		}
	}
	verifReach("history")
	// a request on `ga`: in a.lua (line 3, inside the call) or in b.lua (line 0)
	pos := lsp.TextDocumentPositionParams{TextDocument: lsp.TextDocumentIdentifier{URI: uriA}, Position: lsp.Position{Line: 3, Character: 12}}
	if verifBool("inB") {
		pos = lsp.TextDocumentPositionParams{TextDocument: lsp.TextDocumentIdentifier{URI: uriB}, Position: lsp.Position{Line: 0, Character: 11}}
	}
	switch verifConcretize(verifRange("request", 0, 7)) {
	case 0:
		_, _ = l.TextDocumentHover(ctx, pos)
	case 1:
		_, _ = l.TextDocumentDefine(ctx, pos)
	case 2:
		_, _ = l.TextDocumentReferences(ctx, lsp.ReferenceParams{TextDocumentPositionParams: pos})
	case 3:
		_, _ = l.TextDocumentComplete(ctx, lsp.CompletionParams{TextDocumentPositionParams: pos})
	case 4:
		_, _ = l.TextDocumentRename(ctx, lsp.RenameParams{TextDocument: pos.TextDocument, Position: pos.Position, NewName: "gz"})
	case 5:
		_, _ = l.TextDocumentSymbol(ctx, lsp.DocumentSymbolParams{TextDocument: pos.TextDocument})
	case 6:
		_, _ = l.TextDocumentSignatureHelp(ctx, pos)
	case 7:
		_, _ = l.WorkspaceSymbolRequest(ctx, lsp.WorkspaceSymbolParams{Query: "ga"})
	}
	verifReach("answered")
}
