//gosx:package langserver
package langserver

import (
	"context"
	"luahelper-lsp/langserver/check"
	"luahelper-lsp/langserver/pathpre"
	lsp "luahelper-lsp/langserver/protocol"
)

// C01-d: the request handlers' cursor arithmetic never panics, whatever the open buffer contains and
// wherever the client puts the cursor. A real LspServer is built in the harness; the project holds one
// analysed file; the open buffer (which may differ from the analysed text: unsaved edits) is N symbolic
// bytes and the position is symbolic. jrpc2 does not recover handler panics: the server would die.

func c01dServer(buf []byte) (*LspServer, string) {
	pathpre.InitialRootURIAndPath("file:///w", "/w")
	l := CreateLspServer()
	name := "/w/a.lua"
	l.project = check.VpProject([]string{name}, [][]byte{[]byte("local x = 1\nprint(x)\n")})
	l.fileCache.SetFileContent(name, buf)
	return l, name
}

func VerifRun_C01d() {
	n := verifParam("N")
	var buf []byte
	if verifParam("SIGMA") == 1 {
		buf = verifBytesIn("buf", n, "a_1.:()[]\"'-@# \n\r\xe4\xf0")
	} else {
		buf = verifBytes("buf", n)
	}
	l, name := c01dServer(buf)
	line := uint32(verifRange("line", 0, n))
	ch := uint32(verifRange("ch", 0, n+1))
	pos := lsp.TextDocumentPositionParams{
		TextDocument: lsp.TextDocumentIdentifier{URI: lsp.DocumentURI("file://" + name)},
		Position:     lsp.Position{Line: line, Character: ch}}
	verifReach("request")
	switch verifConcretize(verifRange("handler", 0, verifParam("HANDLERS")-1)) {
	case 0:
		_, _ = l.TextDocumentHover(context.Background(), pos)
	case 1:
		_, _ = l.TextDocumentDefine(context.Background(), pos)
	case 2:
		_, _ = l.TextDocumentHighlight(context.Background(), pos)
	case 3:
		_, _ = l.TextDocumentComplete(context.Background(), lsp.CompletionParams{TextDocumentPositionParams: pos})
	case 4:
		_, _ = l.TextDocumentReferences(context.Background(), lsp.ReferenceParams{TextDocumentPositionParams: pos})
	case 5:
		_, _ = l.TextDocumentSignatureHelp(context.Background(), pos)
	}
	verifReach("answered")
}

func VerifSetup_C01d() { check.VerifSetup_Pipe() }
