//gosx:package langserver/check
package check

import "strings"

// C13-b: the documentation shown on hover is exactly the comment attached to the declaration: the
// trailing comment on its line, else the comment block ending on the previous line. Every comment of a
// template carries its own payload (symbolic letters), so the harness can tell which comment was used.

// A template: byte 0x10+i (i = 0..3) is the payload of comment i (two symbolic letters over {p,q}),
// "@D" marks the hovered declaration's identifier `dd` and which comment indices should be attached.
type c13tpl struct {
	src   string
	want  []int // comment payload indices expected in the documentation, in order (empty: none)
	probe string
}

var c13templates = []c13tpl{
	/* 0 trailing */ {"local dd = 1 -- \x10\n", []int{0}, "dd"},
	/* 1 block above */ {"-- \x10\nlocal dd = 1\n", []int{0}, "dd"},
	/* 2 block above + trailing: trailing wins */ {"-- \x10\nlocal dd = 1 -- \x11\n", []int{1}, "dd"},
	/* 3 block separated by a blank line */ {"-- \x10\n\nlocal dd = 1\n", []int{}, "dd"},
	/* 4 block separated by a statement */ {"-- \x10\nlocal ee = 2\nlocal dd = 1\n", []int{}, "dd"},
	/* 5 two-line block */ {"-- \x10\n-- \x11\nlocal dd = 1\n", []int{0, 1}, "dd"},
	/* 6 trailing of the previous declaration, then own block */ {"local ee = 2 -- \x10\n-- \x11\nlocal dd = 1\n", []int{1}, "dd"},
	/* 7 previous declaration keeps its own trailing comment */ {"local dd = 2 -- \x10\n-- \x11\nlocal ee = 1\n", []int{0}, "dd"},
	/* 8 global */ {"-- \x10\ndd = 1 -- \x11\n", []int{1}, "dd"},
	/* 9 function */ {"-- \x10\nfunction dd(x) end\n-- \x11\nlocal ee = 1\n", []int{0}, "dd"},
	/* 10 function with a trailing comment on the next declaration */ {"-- \x10\nlocal function dd(x) end\nlocal ee = 1 -- \x11\n", []int{0}, "dd"},
	/* 11 long comment block */ {"--[[ \x10 ]]\nlocal dd = 1\n", []int{0}, "dd"},
	/* 12 a block with an empty comment line in it */ {"-- \x10\n--\n-- \x11\nlocal dd = 1\n", []int{0, 1}, "dd"},
	/* 13 three dashes, no blank */ {"---\x10\nlocal dd = 1\n", []int{0}, "dd"},
	/* 14 two names declared on one commented line */ {"local ee, dd = 1, 2 -- \x10\n-- \x11\nlocal gg = 3\n", []int{0}, "dd"},
	/* 15 ... nor has a local declared in the first line of its body */ {"-- \x10\nfunction ee()\n\tlocal dd = 1 -- \x11\n\treturn dd\nend\n", []int{1}, "dd"},
	/* 16 a table member with a trailing comment, the table with a block above */ {"-- \x10\nlocal ee = {\n\tdd = 1, -- \x11\n}\n", []int{1}, "dd"},
	/* 17 a member assignment under a comment */ {"local ee = {}\n-- \x10\nee.dd = 1\nlocal gg = 2 -- \x11\n", []int{0}, "dd"},
	/* 18 a block that ends a function body above the declaration */ {"function ee()\n\treturn 1 -- \x10\nend\nlocal dd = 1\n", []int{}, "dd"},
	/* 19 the comment of the line after the declaration */ {"local dd = 1\n-- \x10\nlocal ee = 2\n", []int{}, "dd"},
}

func VerifRun_C13b() {
	ti := verifConcretize(verifRange("template", verifParam("TMIN"), verifParam("TMAX")))
	tp := c13templates[ti]
	var src []byte
	var pay [4]string
	for i := 0; i < len(tp.src); i++ {
		c := tp.src[i]
		if c >= 0x10 && c <= 0x13 {
			k := int(c - 0x10)
			if pay[k] == "" {
				pay[k] = string(verifBytesIn("pay"+string([]byte{'0' + byte(k)}), 2, "pq%"))
			}
			src = append(src, []byte(pay[k])...)
		} else {
			src = append(src, c)
		}
	}
	// payloads are pairwise distinct so that the attached comment can be identified
	for i := 0; i < 4; i++ {
		for j := i + 1; j < 4; j++ {
			if pay[i] != "" && pay[j] != "" {
				verifAssume(pay[i] != pay[j])
			}
		}
	}
	file := "/w/a.lua"
	p, _ := vpProject([]string{file}, [][]byte{src})
	// cursor on the probe identifier's first occurrence
	off := strings.Index(string(src), tp.probe)
	line, col := 0, 0
	for i := 0; i < off; i++ {
		if src[i] == '\n' {
			line++
			col = 0
		} else {
			col++
		}
	}
	vs := GetVarStruct(src, off, uint32(line), uint32(col))
	label, doc, _ := p.GetLspHoverVarStr(file, &vs)
	verifReach("hovered")
	verifObserve("doc", doc)
	if !strings.Contains(label, tp.probe) {
		verifViolation("", "hover label does not contain the identifier")
	}
	for k := 0; k < 4; k++ {
		if pay[k] == "" {
			continue
		}
		wanted := false
		for _, w := range tp.want {
			if w == k {
				wanted = true
			}
		}
		has := strings.Contains(doc, pay[k])
		if wanted && !has {
			class := ""
			if strings.Contains(tp.src, "--[[") {
				class = "C13-long-comment"
			}
			verifViolation(class, "the comment attached to the declaration is missing from the hover documentation")
		}
		if !wanted && has {
			verifViolation("", "the hover documentation contains a comment that is not attached to the declaration")
		}
	}
	// nothing but the attached comment: what remains of the documentation once the payloads are taken out
	// is white space
	rest := doc
	for k := 0; k < 4; k++ {
		if pay[k] != "" {
			if i := strings.Index(rest, pay[k]); i >= 0 {
				rest = rest[:i] + rest[i+len(pay[k]):]
			}
		}
	}
	blank := true
	for i := 0; i < len(rest); i++ {
		if c := rest[i]; c != ' ' && c != '\t' && c != '\r' && c != '\n' {
			blank = false
		}
	}
	if !blank {
		verifViolation("", "the hover documentation contains text that is not part of the attached comment")
	}
	if len(tp.want) == 2 && strings.Index(doc, pay[tp.want[0]]) > strings.Index(doc, pay[tp.want[1]]) {
		verifViolation("", "the lines of the attached comment block are out of order")
	}
}
