//gosx:package langserver/check
package check

import (
	"strconv"
	"strings"
)

// C13-d: the hover label says what the declaration says about the identifier: `local` exactly for local
// declarations (also when a global or a table member is initialised from a local), the literal value, or
// the function's parameter list as written. Byte 0x01 is a symbolic digit (the literal), bytes 0x02 and
// 0x03 are symbolic letters (parameter names); `dd` is the hovered identifier, occ selects which
// occurrence carries the cursor.
type c13lab struct {
	src    string
	occ    int    // which occurrence of dd is hovered
	local  bool   // the declaration is a local declaration
	value  bool   // the declaration gives the literal 0x01
	params string // parameter list as written ("" when not a function)
}

var c13labels = []c13lab{
	/* 0 */ {"local dd = \x01\n", 0, true, true, ""},
	/* 1 */ {"dd = \x01\n", 0, false, true, ""},
	/* 2 */ {"local b = \x01\ndd = b\n", 0, false, false, ""},
	/* 3 */ {"local function lf(x) end\ndd = lf\n", 0, false, false, ""},
	/* 4 */ {"local t = {}\nlocal b = \x01\nt.dd = b\n", 0, false, false, ""},
	/* 5 */ {"local function dd(p\x02, q\x03) end\n", 0, true, false, "p\x02, q\x03"},
	/* 6 */ {"function dd(p\x02, q\x03) end\n", 0, false, false, "p\x02, q\x03"},
	/* 7 */ {"local b = \x01\nlocal dd = b\n", 0, true, false, ""},
	/* 8 */ {"local dd = \x01\nq = dd\n", 1, true, true, ""},
	/* 9 */ {"dd = \x01\nlocal c = dd\n", 1, false, true, ""},
	/* 10 */ {"local b = \x01\ndd = b\nlocal c = dd\n", 1, false, false, ""},
	/* 11 */ {"local t = {}\nt.dd = \x01\nq = t.dd\n", 1, false, true, ""},
	/* 12 */ {"local function f(dd) return dd end\n", 1, true, false, ""},
	/* 13 */ {"for dd = \x01, 9 do q = dd end\n", 1, true, false, ""},
	/* 14 */ {"local b = \x01\nlocal t = { dd = b }\nq = t.dd\n", 1, false, false, ""},
	/* 15 */ {"local dd = function(p\x02) end\n", 0, true, false, "p\x02"},
	/* 16 */ {"dd = function(p\x02, ...) end\n", 0, false, false, "p\x02, ..."},
	/* 17 */ {"local function dd(...) end\n", 0, true, false, "..."},
	/* 18 */ {"function dd(...) end\nq = dd\n", 1, false, false, "..."},
	/* 19 */ {"local t = {}\nfunction t.dd(...) end\nq = t.dd\n", 1, false, false, "..."},
	/* 20 */ {"local t = {}\nfunction t.dd(p\x02, q\x03) end\nq = t.dd\n", 1, false, false, "p\x02, q\x03"},
	/* 21 */ {"local function dd() end\n", 0, true, false, "()"},
	// a name re-declared from a call / a function that uses the earlier declaration: the inner occurrence is the earlier one
	/* 22 */ {"local dd = \x01\nlocal function f(p) return p end\nlocal dd = f(dd)\n", 2, true, true, ""},
	/* 23 */ {"local dd = \x01\nlocal dd = function() return dd end\n", 2, true, true, ""},
	/* 24 */ {"dd = \x01\nlocal function f(p) return p end\nlocal dd = f(dd)\n", 2, false, true, ""},
	// the hovered name stands between two bracketed string keys on its line
	/* 25 */ {"local t = { a = 7, b = 8 }\nlocal dd = \x01\nprint(t[\"a\"], dd, t[\"b\"])\n", 1, true, true, ""},
	// a table field initialised from a local of the same name: the value is the local (key: occurrence 1, value: occurrence 2)
	/* 26 */ {"local dd = \x01\nlocal win = { dd = dd, w = 2 }\nprint(win)\n", 2, true, true, ""},
	/* 27 */ {"local dd = \x01\nlocal win = {\n\tw = 2,\n\tdd = dd,\n}\nprint(win)\n", 2, true, true, ""},
}

func VerifRun_C13d() {
	ti := verifConcretize(verifRange("template", verifParam("TMIN"), verifParam("TMAX")))
	tp := c13labels[ti]
	digit := byte(verifConcretize(int(verifByteIn("digit", "1234"))))
	// the literal the declaration gives: the digit alone, or a longer numeric literal around it (floats
	// with more significant digits than a float32 holds, extreme exponents, hexadecimal), a string
	lits := []string{"\x01", "\x01.5", "0.\x01", "3.14159265358979\x01", "1677721\x01.0", "\x01e300", "\x01.5e-300", "12345678\x01", "0x1\x01", "\"s\x01\"", "\x01e5"}
	lit := lits[0]
	if tp.value {
		lit = lits[verifConcretize(verifRange("literal", 0, len(lits)-1))]
	}
	la := verifByteIn("pa", "xyz")
	lb := verifByteIn("pb", "xyz")
	sub := func(s string) []byte {
		var out []byte
		for i := 0; i < len(s); i++ {
			switch s[i] {
			case 1:
				for j := 0; j < len(lit); j++ {
					if lit[j] == 1 {
						out = append(out, digit)
					} else {
						out = append(out, lit[j])
					}
				}
			case 2:
				out = append(out, la)
			case 3:
				out = append(out, lb)
			default:
				out = append(out, s[i])
			}
		}
		return out
	}
	src := sub(tp.src)
	params := string(sub(tp.params))
	file := "/w/a.lua"
	p, _ := vpProject([]string{file}, [][]byte{src})
	off := -1
	for k := 0; k <= tp.occ; k++ {
		off = off + 1 + strings.Index(string(src[off+1:]), "dd")
	}
	line, col := 0, 0
	for i := 0; i < off; i++ {
		if src[i] == '\n' {
			line++
			col = 0
		} else {
			col++
		}
	}
	vs := GetVarStruct(src, off, uint32(line), uint32(col))
	label, _, _ := p.GetLspHoverVarStr(file, &vs)
	verifReach("hovered")
	verifObserve("label", label)
	if !strings.Contains(label, "dd") {
		verifViolation("", "hover label does not contain the identifier")
		return
	}
	saysLocal := strings.HasPrefix(label, "local ")
	if saysLocal && !tp.local {
		verifViolation("", "the hover label presents a global or a table member as local")
	}
	if !saysLocal && tp.local {
		verifViolation("", "the hover label does not present a local declaration as local")
	}
	if tp.value {
		written := strings.Replace(lit, "\x01", string([]byte{digit}), -1)
		shown := ""
		if k := strings.LastIndex(label, "= "); k >= 0 {
			shown = strings.TrimSpace(label[k+2:])
		}
		verifObserve("shown", shown)
		ok := shown == written
		if !ok && written[0] != '"' {
			// a number may be shown in another notation, but it must be the same number
			if wi, err := strconv.ParseInt(written, 0, 64); err == nil {
				si, err2 := strconv.ParseInt(shown, 0, 64)
				ok = err2 == nil && si == wi
			} else if wf, err := strconv.ParseFloat(written, 64); err == nil {
				sf, err2 := strconv.ParseFloat(shown, 64)
				ok = err2 == nil && sf == wf
			}
		}
		if !ok {
			verifViolation("", "the hover label does not show the literal value the declaration gives")
		}
	}
	if tp.params != "" {
		// the names, in the order written; each may be followed by ": <type>"
		open, close := strings.Index(label, "("), strings.LastIndex(label, ")")
		ok := open >= 0 && close > open
		if ok {
			shown := strings.Split(label[open+1:close], ", ")
			written := strings.Split(params, ", ")
			if params == "()" { // an empty parameter list
				written = []string{""}
			}
			ok = len(shown) == len(written)
			for i := 0; ok && i < len(shown); i++ {
				name := shown[i]
				if k := strings.Index(name, ":"); k >= 0 {
					name = name[:k]
				}
				ok = strings.TrimSpace(name) == written[i]
			}
		}
		if !ok {
			verifViolation("", "the hover label does not show the function's parameter list as written")
		}
	}
}
