//gosx:package langserver/codingconv
package codingconv


// refUTF8 is RFC 3629 well-formedness (independent of the code under test).
func refUTF8(b []byte) bool {
	i := 0
	for i < len(b) {
		c := b[i]
		switch {
		case c < 0x80:
			i++
		case c >= 0xC2 && c <= 0xDF:
			if i+1 >= len(b) || b[i+1]&0xC0 != 0x80 {
				return false
			}
			i += 2
		case c >= 0xE0 && c <= 0xEF:
			if i+2 >= len(b) || b[i+1]&0xC0 != 0x80 || b[i+2]&0xC0 != 0x80 {
				return false
			}
			if c == 0xE0 && b[i+1] < 0xA0 {
				return false
			}
			if c == 0xED && b[i+1] > 0x9F {
				return false
			}
			i += 3
		case c >= 0xF0 && c <= 0xF4:
			if i+3 >= len(b) || b[i+1]&0xC0 != 0x80 || b[i+2]&0xC0 != 0x80 || b[i+3]&0xC0 != 0x80 {
				return false
			}
			if c == 0xF0 && b[i+1] < 0x90 {
				return false
			}
			if c == 0xF4 && b[i+1] > 0x8F {
				return false
			}
			i += 4
		default:
			return false
		}
	}
	return true
}

func has2byte(b []byte) bool {
	for _, c := range b {
		if c >= 0xC2 && c <= 0xDF {
			return true
		}
	}
	return false
}

func VerifRun_C13a() { run(verifParam("N")) }

func run(n int) {
	b := verifBytes("b", n)
	ref := refUTF8(b)
	got := isUtf8(b)
	if ref {
		verifReach("wellformed")
		if !got {
			if has2byte(b) {
				verifViolation("C13-utf8-2byte", "well-formed UTF-8 rejected (2-byte sequence)")
			} else {
				verifViolation("", "well-formed UTF-8 rejected")
			}
		}
	}
}

// VerifWellFormed exports the RFC 3629 reference predicate to harnesses in other packages.
func VerifWellFormed(b []byte) bool { return refUTF8(b) }
