//gosx:package langserver
package langserver

import (
	"context"
	"luahelper-lsp/langserver/check"
	"luahelper-lsp/langserver/codingconv"
	"luahelper-lsp/langserver/pathpre"
	lsp "luahelper-lsp/langserver/protocol"
	"strings"
)

// C13-c: the real textDocument/hover handler reproduces the comment of a UTF-8 source verbatim, whatever
// script it is written in. The comment payload is N symbolic bytes (well-formed UTF-8 over the bytes of
// an ASCII letter, a 2-byte, a 3-byte and a 4-byte character).

func VerifSetup_C13c() { check.VerifSetup_Pipe() }

func VerifRun_C13c() {
	pathpre.InitialRootURIAndPath("file:///w", "/w")
	n := verifParam("N")
	pay := verifBytesIn("pay", n, "k%s\xc3\xa9\xe4\xb8\xad\xf0\x9f\x98\x80")
	verifAssume(codingconv.VerifWellFormed(pay))
	has2 := false
	for _, c := range pay {
		if c >= 0xC2 && c <= 0xDF {
			has2 = true
		}
	}
	src := append([]byte("local dd = 1 -- "), pay...)
	src = append(src, '\n')
	file := "/w/a.lua"
	l := CreateLspServer()
	l.project = check.VpProject([]string{file}, [][]byte{src})
	l.fileCache.SetFileContent(file, src)
	res, _ := l.TextDocumentHover(context.Background(), lsp.TextDocumentPositionParams{
		TextDocument: lsp.TextDocumentIdentifier{URI: lsp.DocumentURI("file://" + file)},
		Position:     lsp.Position{Line: 0, Character: 7}})
	verifReach("hovered")
	h, ok := res.(MarkupHover)
	if !ok {
		verifViolation("", "hover on a commented declaration returns nothing")
		return
	}
	verifObserve("contents", h.Contents.Value)
	class := ""
	if has2 {
		class = "C13-utf8-2byte"
	}
	if !strings.Contains(h.Contents.Value, string(pay)) {
		verifViolation(class, "the hover contents do not reproduce the UTF-8 comment verbatim")
	}
}
