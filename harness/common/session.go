//gosx:package langserver
package langserver

import (
	"context"
	lsp "luahelper-lsp/langserver/protocol"
	"strconv"
)

// Editing sessions against a fresh start (registered under several properties with different PROBES).
//
// A three-file workspace: a.lua (the file the user works on: an annotated class, commented globals, uses of
// the other files' globals), b.lua (globals and a function, uses a.lua's globals), c.lua (created later).
// A solver-chosen history of STEPS steps runs through the REAL handlers: type (full-text didChange to one of
// four versions of a.lua: comments reworded in place, a field renamed, a method added, lines inserted above,
// a first use of another file's global, scratch locals), save, close (discarding unsaved edits), open,
// c.lua created / deleted (watched-file event), and "ask" (every probe request once, answers dropped - servers
// memoise).  Then the probes are asked for real and compared with the answers of a FRESH server started on
// a workspace whose files are the current buffers.  Whatever the history, the answers must be those of the
// fresh start: hover documentation and labels (C13), definition (C05), references (C06), bare-prefix and member
// completion as sets (C14, C15), the outline (C19) and - when nothing is unsaved - the published diagnostics
// (C08).

const sessB = "shared = 1\n-- doc of helper\nfunction helper(a) return a end\nprint(timeout, maxRetry)\n"
const sessC = "laterGlobal = 5\nfunction laterFn() end\n"

var sessA = []string{
	// 0: as on disk at start-up
	"---@class Account\n---@field owner string\n---@field balance number\nlocal Account = {}\n" +
		"-- seconds before giving up\ntimeout = 30\n-- how often to retry\nmaxRetry = 3\n" +
		"---@type Account\nlocal acc = Account\nlocal n = acc.owner\nlocal q = ti\nlocal m = acc.o\n" +
		"print(timeout, maxRetry, n, q, m, laterGlobal, helper(1))\n",
	// 1: same lines; comments reworded, a field renamed, a method added at the end
	"---@class Account\n---@field owner string\n---@field amount number\nlocal Account = {}\n" +
		"-- milliseconds before giving up\ntimeout = 30\n-- number of attempts\nmaxRetry = 3\n" +
		"---@type Account\nlocal acc = Account\nlocal n = acc.owner\nlocal q = ti\nlocal m = acc.o\n" +
		"print(timeout, maxRetry, n, q, m, laterGlobal, helper(1))\nfunction Account.withdraw(x) end\n",
	// 2: two lines inserted at the top (everything moves), the first use of b.lua's global `shared`
	"-- header\nlocal zzfirst = shared\n---@class Account\n---@field owner string\n---@field balance number\nlocal Account = {}\n" +
		"-- seconds before giving up\ntimeout = 30\n-- how often to retry\nmaxRetry = 3\n" +
		"---@type Account\nlocal acc = Account\nlocal n = acc.owner\nlocal q = ti\nlocal m = acc.o\n" +
		"print(timeout, maxRetry, n, q, m, laterGlobal, helper(1), zzfirst, shared)\n",
	// 3: scratch locals in a function, the comment of timeout gone, maxRetry's moved to its line
	"---@class Account\n---@field owner string\n---@field balance number\nlocal Account = {}\n" +
		"timeout = 30\nmaxRetry = 3 -- attempts\n" +
		"---@type Account\nlocal acc = Account\nlocal n = acc.owner\nlocal function tidy(tiny)\n\tlocal tick = tiny\n\tlocal q = ti\n\treturn q, tick\nend\nlocal m = acc.o\n" +
		"print(timeout, maxRetry, n, m, laterGlobal, helper(1), tidy)\n",
}

type sessProbe struct {
	kind byte   // H hover, D definition, R references, C completion, S outline
	ctx  string // text to look for in the buffer
	off  int    // cursor = start of ctx + off
}

var sessProbes = []sessProbe{
	{'H', "print(timeout", 8},
	{'H', "maxRetry, n", 2},
	{'H', "acc.owner", 1},
	{'H', "helper(1)", 2},
	{'D', "acc.owner", 5},
	{'D', "laterGlobal", 3},
	{'D', "helper(1)", 2},
	{'D', "print(timeout", 8},
	{'R', "timeout = 30", 2},
	{'R', "shared", 2},
	{'R', "local acc", 7},
	{'C', "local q = ti", 12},
	{'M', "local m = acc.o", 15},
	{'S', "", 0},
}

func sessPos(text string, ctx string, off int) (int, int, bool) {
	at := -1
	for i := 0; i+len(ctx) <= len(text); i++ {
		if text[i:i+len(ctx)] == ctx {
			at = i
			break
		}
	}
	if at < 0 {
		return 0, 0, false
	}
	line, col := 0, 0
	for i := 0; i < at+off; i++ {
		if text[i] == '\n' {
			line++
			col = 0
		} else {
			col++
		}
	}
	return line, col, true
}

func sessSort(v []string) string {
	for i := range v {
		for j := i + 1; j < len(v); j++ {
			if v[j] < v[i] {
				v[i], v[j] = v[j], v[i]
			}
		}
	}
	out := ""
	for _, s := range v {
		out += s + "; "
	}
	return out
}

func sessLoc(u lsp.DocumentURI, r lsp.Range) string {
	s := string(u)
	if len(s) > 6 {
		s = s[len(s)-6:]
	}
	return s + "@" + strconv.Itoa(int(r.Start.Line)) + ":" + strconv.Itoa(int(r.Start.Character)) + "-" + strconv.Itoa(int(r.End.Line)) + ":" + strconv.Itoa(int(r.End.Character))
}

func sessOutline(v []lsp.DocumentSymbol, depth int, out *[]string) {
	for i := range v {
		*out = append(*out, strconv.Itoa(depth)+" "+v[i].Name+" "+sessLoc("", v[i].Range))
		sessOutline(v[i].Children, depth+1, out)
	}
}

// sessAsk runs the probes of the selected kinds on document uri with text `text`; one answer per probe.
func sessAsk(l *LspServer, uri lsp.DocumentURI, text string, kinds string) []string {
	ctx := context.Background()
	var out []string
	for pi, p := range sessProbes {
		sel := false
		for k := 0; k < len(kinds); k++ {
			if kinds[k] == p.kind {
				sel = true
			}
		}
		if !sel {
			continue
		}
		tag := string([]byte{p.kind}) + strconv.Itoa(pi) + "="
		if p.kind == 'S' {
			syms, _ := l.TextDocumentSymbol(ctx, lsp.DocumentSymbolParams{TextDocument: lsp.TextDocumentIdentifier{URI: uri}})
			var flat []string
			sessOutline(syms, 0, &flat)
			out = append(out, tag+sessSort(flat))
			continue
		}
		line, col, ok := sessPos(text, p.ctx, p.off)
		if !ok {
			continue
		}
		at := lsp.TextDocumentPositionParams{TextDocument: lsp.TextDocumentIdentifier{URI: uri}, Position: lsp.Position{Line: uint32(line), Character: uint32(col)}}
		switch p.kind {
		case 'H':
			res, _ := l.TextDocumentHover(ctx, at)
			if h, isH := res.(MarkupHover); isH {
				out = append(out, tag+h.Contents.Value)
			} else {
				out = append(out, tag+"<none>")
			}
		case 'D':
			locs, _ := l.TextDocumentDefine(ctx, at)
			var v []string
			for _, x := range locs {
				v = append(v, sessLoc(x.URI, x.Range))
			}
			out = append(out, tag+sessSort(v))
		case 'R':
			locs, _ := l.TextDocumentReferences(ctx, lsp.ReferenceParams{TextDocumentPositionParams: at})
			var v []string
			for _, x := range locs {
				v = append(v, sessLoc(x.URI, x.Range))
			}
			out = append(out, tag+sessSort(v))
		case 'C', 'M':
			res, _ := l.TextDocumentComplete(ctx, lsp.CompletionParams{TextDocumentPositionParams: at})
			var v []string
			if cl, isC := res.(CompletionListTmp); isC {
				for k := range cl.Items {
					v = append(v, cl.Items[k].Label)
				}
			}
			out = append(out, tag+sessSort(v))
		}
	}
	return out
}

// sessAskB: hover and definition on the uses of a.lua's globals in b.lua
func sessAskB(l *LspServer, ub lsp.DocumentURI) []string {
	ctx := context.Background()
	var out []string
	_ = l.TextDocumentDidOpen(ctx, lsp.DidOpenTextDocumentParams{TextDocument: lsp.TextDocumentItem{URI: ub, Text: sessB}})
	for _, ctxOff := range [][2]int{{0, 8}, {0, 17}} {
		line, col, _ := sessPos(sessB, "print(timeout", ctxOff[1])
		at := lsp.TextDocumentPositionParams{TextDocument: lsp.TextDocumentIdentifier{URI: ub}, Position: lsp.Position{Line: uint32(line), Character: uint32(col)}}
		res, _ := l.TextDocumentHover(ctx, at)
		if h, isH := res.(MarkupHover); isH {
			out = append(out, "H-b="+h.Contents.Value)
		} else {
			out = append(out, "H-b=<none>")
		}
		locs, _ := l.TextDocumentDefine(ctx, at)
		var v []string
		for _, x := range locs {
			v = append(v, sessLoc(x.URI, x.Range))
		}
		out = append(out, "D-b="+sessSort(v))
		refs, _ := l.TextDocumentReferences(ctx, lsp.ReferenceParams{TextDocumentPositionParams: at})
		var rv []string
		for _, x := range refs {
			rv = append(rv, sessLoc(x.URI, x.Range))
		}
		out = append(out, "R-b="+sessSort(rv))
		edit, err := l.TextDocumentRename(ctx, lsp.RenameParams{TextDocument: at.TextDocument, Position: at.Position, NewName: "zz"})
		var ev []string
		if err == nil {
			for u, es := range edit.Changes {
				for _, e := range es {
					ev = append(ev, sessLoc(lsp.DocumentURI(u), e.Range))
				}
			}
		}
		out = append(out, "N-b="+sessSort(ev))
	}
	return out
}

// sessRanged turns "cur becomes target" (both end with a newline) into two ranged changes to be applied in order.
func sessRanged(cur string, target string) []lsp.TextDocumentContentChangeEvent {
	lines, firstEnd := 0, 0
	for i := 0; i < len(cur); i++ {
		if cur[i] == '\n' {
			lines++
		}
	}
	for firstEnd < len(target) && target[firstEnd] != '\n' {
		firstEnd++
	}
	firstEnd++
	r1 := lsp.Range{Start: lsp.Position{Line: 0, Character: 0}, End: lsp.Position{Line: 1, Character: 0}}
	r2 := lsp.Range{Start: lsp.Position{Line: 1, Character: 0}, End: lsp.Position{Line: uint32(lines), Character: 0}}
	return []lsp.TextDocumentContentChangeEvent{{Range: &r1, Text: target[:firstEnd]}, {Range: &r2, Text: target[firstEnd:]}}
}

func VerifRun_Session() {
	root := verifVFSRoot()
	a, b, c := root+"/a.lua", root+"/b.lua", root+"/c.lua"
	kinds := ""
	for _, k := range "HDRCMS" {
		if verifParamOr("PROBE_"+string(k), 0) == 1 {
			kinds += string(k)
		}
	}
	withView := verifParamOr("PROBE_V", 0) == 1
	verifVFSPut(a, []byte(sessA[0]))
	verifVFSPut(b, []byte(sessB))
	c08view = map[string]string{}
	l := c08eServer(root, []string{a, b})
	ctx := context.Background()
	ua, uc := lsp.DocumentURI("file://"+a), lsp.DocumentURI("file://"+c)
	cur, disk := sessA[0], sessA[0]
	open, unsaved, cExists := false, false, false
	openA := func() {
		if !open {
			_ = l.TextDocumentDidOpen(ctx, lsp.DidOpenTextDocumentParams{TextDocument: lsp.TextDocumentItem{URI: ua, Text: cur}})
			open = true
		}
	}
	for k := 0; k < verifParam("STEPS"); k++ {
		op := verifConcretize(verifRange("op", 0, 7))
		if mask := verifParamOr("OPMASK", 255); mask&(1<<uint(op)) == 0 {
			verifAssume(false) // (this registration explores a subset of the operations, with longer histories)
		}
		switch op {
		case 0: // type
			v := verifConcretize(verifRange("ver", 0, len(sessA)-1))
			openA()
			changes := []lsp.TextDocumentContentChangeEvent{{Text: sessA[v]}}
			if verifParamOr("RANGED", 0) == 1 {
				// the same edit as ONE notification with TWO ranged changes (multi-cursor edit, replace-all,
				// format-on-type): the first line replaced by the new first line, then - in the document as it
				// is after that - everything from line 1 to the end replaced by the rest of the new text
				changes = sessRanged(cur, sessA[v])
			}
			_ = l.TextDocumentDidChange(ctx, lsp.DidChangeTextDocumentParams{
				TextDocument:   lsp.VersionedTextDocumentIdentifier{TextDocumentIdentifier: lsp.TextDocumentIdentifier{URI: ua}},
				ContentChanges: changes})
			cur = sessA[v]
			unsaved = cur != disk || unsaved
		case 1: // save
			if !open || !unsaved {
				verifAssume(false)
			}
			txt := cur
			verifVFSPut(a, []byte(txt))
			disk = txt
			_ = l.TextDocumentDidSave(ctx, lsp.DidSaveTextDocumentParams{TextDocument: lsp.TextDocumentIdentifier{URI: ua}, Text: &txt})
			unsaved = false
		case 2: // close (unsaved edits are discarded)
			if !open {
				verifAssume(false)
			}
			_ = l.TextDocumentDidClose(ctx, lsp.DidCloseTextDocumentParams{TextDocument: lsp.TextDocumentIdentifier{URI: ua}})
			cur, open, unsaved = disk, false, false
		case 3: // open
			if open {
				verifAssume(false)
			}
			openA()
		case 4: // c.lua appears / disappears
			if cExists {
				verifVFSDel(c)
				_ = l.WorkspaceChangeWatchedFiles(ctx, lsp.DidChangeWatchedFilesParams{Changes: []lsp.FileEvent{{URI: uc, Type: lsp.Deleted}}})
			} else {
				verifVFSPut(c, []byte(sessC))
				_ = l.WorkspaceChangeWatchedFiles(ctx, lsp.DidChangeWatchedFilesParams{Changes: []lsp.FileEvent{{URI: uc, Type: lsp.Created}}})
			}
			cExists = !cExists
		case 7: // the file watcher reports a.lua as changed (a late echo of a save: the disk is as it was)
			if !open || !unsaved || disk == sessA[0] {
				verifAssume(false) // (explored where it matters: the user saved and has typed on since)
			}
			_ = l.WorkspaceChangeWatchedFiles(ctx, lsp.DidChangeWatchedFilesParams{Changes: []lsp.FileEvent{{URI: ua, Type: lsp.Changed}}})
		case 6: // nothing (shorter histories)
			if k+1 < verifParam("STEPS") {
				verifAssume(false) // only as a suffix, so that each shorter history is explored once... approximately
			}
		case 5: // ask (answers dropped)
			if !open {
				verifAssume(false)
			}
			_ = sessAsk(l, ua, cur, kinds)
		}
	}
	var got []string
	if open {
		got = sessAsk(l, ua, cur, kinds)
	}
	if !unsaved && verifParamOr("PROBE_B", 0) == 1 {
		// from the other file (only when a.lua has no unsaved edits: what b.lua sees of a.lua is its saved state)
		got = append(got, sessAskB(l, lsp.DocumentURI("file://"+b))...)
	}
	gotView := c08eViewOf([]string{a, b})
	verifReach("asked")
	// the fresh server: the workspace as the user sees it now
	verifVFSPut(a, []byte(cur))
	c08view = map[string]string{}
	files := []string{a, b}
	if cExists {
		files = append(files, c)
	}
	f := c08eServer(root, files)
	var want []string
	if open {
		_ = f.TextDocumentDidOpen(ctx, lsp.DidOpenTextDocumentParams{TextDocument: lsp.TextDocumentItem{URI: ua, Text: cur}})
		want = sessAsk(f, ua, cur, kinds)
	}
	if !unsaved && verifParamOr("PROBE_B", 0) == 1 {
		want = append(want, sessAskB(f, lsp.DocumentURI("file://"+b))...)
	}
	wantView := c08eViewOf([]string{a, b})
	verifReach("compared")
	if len(got) != len(want) {
		verifViolation("", "harness: different number of answers")
		return
	}
	for i := range got {
		if got[i] != want[i] {
			verifObserve("history-answer", got[i])
			verifObserve("fresh-answer", want[i])
			msg := "after an editing session a request is answered differently than by a freshly started server on the same texts"
			switch got[i][0] {
			case 'H':
				msg += " (hover)"
			case 'D':
				msg += " (definition)"
			case 'R':
				msg += " (references)"
			case 'C', 'M':
				msg += " (completion)"
			case 'S':
				msg += " (outline)"
			case 'N':
				msg += " (rename)"
			}
			verifViolation(sessClass(got[i], cur, disk), msg)
		}
	}
	if withView && !unsaved && gotView != wantView {
		verifObserve("history-view", gotView)
		verifObserve("fresh-view", wantView)
		verifViolation("", "after an editing session without unsaved edits the published diagnostics differ from those of a freshly started server")
	}
}

// sessClass: known defects of the unchanged tree that this comparison runs into (see known_findings.txt)
func sessClass(got string, cur string, disk string) string {
	if len(got) > 2 && got[:3] == "R8=" {
		// references of a global whose defining file has an unsaved edit that moved the definition
		l1, _, ok1 := sessPos(cur, "timeout = 30", 0)
		l2, _, ok2 := sessPos(disk, "timeout = 30", 0)
		if ok1 && ok2 && l1 != l2 {
			return "C06-global-in-edited-file"
		}
	}
	return ""
}
