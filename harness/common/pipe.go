//gosx:package langserver/check
package check

// Shared pipeline harness library (properties C05, C06, C07, C11, C12, C14, C19, ...):
//   * builds an in-memory workspace and runs the real first pass / global merge / third pass,
//   * a reference binder implementing the scoping rules of the Lua 5.4 manual (section 3.5) on the real AST,
//   * program templates with symbolic one-byte identifiers.
// Nothing here is derived from LuaHelper's resolver; it only trusts the parser's AST shape and Locs
// (which C03/C04 check).

import (
	"luahelper-lsp/langserver/check/common"
	"luahelper-lsp/langserver/check/compiler/ast"
	"luahelper-lsp/langserver/check/compiler/lexer"
	"luahelper-lsp/langserver/check/results"
)

// ---------------------------------------------------------------- workspace

func vpInit() {
	common.GlobalConfigDefautInit()
	common.GConfig.IntialGlobalVar()
	flags := make([]bool, 26)
	for i := range flags {
		flags[i] = true
	}
	common.GConfig.HandleChangeCheckList(flags, nil, nil)
}

func VerifSetup_Pipe() { vpInit() }

// vpCopyVS: an independent copy of a query (the handlers build a fresh one per request; the resolvers
// modify the slices in place, so a plain struct copy would let one request disturb the next).
func vpCopyVS(vs common.DefineVarStruct) common.DefineVarStruct {
	c := vs
	c.StrVec = append([]string(nil), vs.StrVec...)
	c.IsFuncVec = append([]bool(nil), vs.IsFuncVec...)
	return c
}

func vpLoad(p *AllProject, name string, src []byte) *results.FileStruct {
	f := results.CreateFileStruct(name)
	hr, _, _ := p.analysisFirstLuaFile(f, name, src, true, false)
	f.HandleResult = hr
	p.insertFirstFileStruct(name, f)
	return f
}

// vpProject analyses the given files (first pass per file, then type map and global merge).
func vpProject(names []string, srcs [][]byte) (*AllProject, []*results.FileStruct) {
	// a workspace folder is always open: the directory that contains the first file (files analysed while no
	// folder is set are treated as lying outside the workspace, which no request on a workspace file meets)
	dm := common.GConfig.GetDirManager()
	if dm.GetMainDir() == "" && len(names) > 0 {
		dir := names[0]
		for i := len(dir) - 1; i >= 0; i-- {
			if dir[i] == '/' {
				dir = dir[:i]
				break
			}
		}
		dm.SetVSRootDir(dir)
		dm.InitMainDir()
	}
	p := CreateAllProject(names, nil, nil)
	fs := make([]*results.FileStruct, len(names))
	// EDITED=2: the files on disk (what the workspace analysis saw) are one comment line longer at the top
	// than the text the editor now holds (an unsaved edit deleted that line): every answer must follow the
	// buffer, not the saved analysis
	shifted := vpEditedShift || verifParamOr("EDITED", 0) == 2
	for i := range names {
		if shifted {
			fs[i] = vpLoad(p, names[i], append([]byte("-- a line the user has since deleted\n"), srcs[i]...))
		} else {
			fs[i] = vpLoad(p, names[i], srcs[i])
		}
	}
	// the rest of HandleCheck, with the same case distinction
	p.rebuidCreateTypeMap()
	if len(p.entryFilesList) == 0 && !common.GConfig.IsSpecialCheck() {
		p.setCheckTerm(results.CheckTermThird)
		p.HandleNotCheckThirdFile()
	} else {
		p.setCheckTerm(results.CheckTermSecond)
		p.HandleAllSecondProject()
		p.setCheckTerm(results.CheckTermThird)
		p.HandleAllThirdFile()
	}
	p.rebuidCreateTypeMap()
	p.checkAllAnnotate()
	p.checkAllAnnotateEnum()
	if shifted {
		for i := range names {
			p.HandleFileChangeAnalysis(names[i], srcs[i])
			if c, ok := p.GetCacheFileStruct(names[i]); ok && c != nil {
				fs[i] = c // (the harnesses build their oracles from the syntax tree of the text the editor holds)
			}
		}
	}
	if vpOpenAll || verifParamOr("EDITED", 0) == 1 {
		// after an edit: didChange re-analyses
		// the text in real-time mode and keeps that analysis in the cache the position-based requests use (didOpen alone does not)
		for i := range names {
			p.HandleFileChangeAnalysis(names[i], srcs[i])
		}
	}
	return p, fs
}

var vpEditedShift = false // true: as job parameter EDITED=2

var vpOpenAll = false // true: the state after an edit (didChange) has re-analysed every file in real-time mode

// ---------------------------------------------------------------- reference binder

const (
	rbLocal = iota + 1
	rbParam
	rbLoopVar
	rbLocalFunc
	rbSelf
)

const (
	rbOccDecl = iota
	rbOccRead
	rbOccWrite
)

type rbDecl struct {
	name   string
	loc    lexer.Location
	kind   int
	file   int
	reads  int
	writes int
	depth  int // function nesting depth of the declaration
	attr   int
	funcValue bool // initialised with a function value
	dupInStat bool // the same local statement declares this name more than once
	emptyInit bool // declared without a value, with nil or with {} (LuaHelper then adopts the value of the first assignment as "the" initialiser)
	assigned  bool // an assignment to it has been seen
}

type rbOcc struct {
	name  string
	loc   lexer.Location
	kind  int
	decl  int // index into decls; -1: not bound to a local (global or undefined)
	file  int
	depth int // function nesting depth of the occurrence
	blk   int      // block nesting depth of the occurrence
	slv   int      // block nesting depth relative to the innermost enclosing function body
	ctx   []string // names declared by the statement in whose initialiser / bounds this occurrence sits
	ctxKind int    // 1 local statement initialiser, 2 numeric-for bounds, 3 generic-for expression list, 4 right-hand side of an assignment to plain names
	ctxRisky bool  // (ctxKind 4) the occurrence sits in the value that the FIRST assignment gives to a local declared empty (local x; x = f(x)), and that value as a whole is a name, a call or a function: the resolver takes it for x's initialiser
	viaG    bool   // written as _G.name
	ctxSafe bool   // (ctxKind 1) the occurrence sits in the initialiser expression of the very name it spells, and that expression as a whole is a name, a call or a function: the shapes the position-based resolver recognises
}

type rbScope struct {
	decls []int
}

type rbT struct {
	probe        string   // when set: the visible local names are recorded at the read of this identifier
	probeVisible []string
	probeFound   bool
	probeCtx     []string
	colonRecv []string // receiver names of colon-method definitions (function t:m ...)
	ctx     []string
	ctxKind int
	ctxSafeName string
	ctxRiskyName string
	fnBase []int // block depth at which each enclosing function body starts
	decls []rbDecl
	occs  []rbOcc
	stack []*rbScope
	file  int
	depth int
}

func (r *rbT) push() { r.stack = append(r.stack, &rbScope{}) }
func (r *rbT) pop()  { r.stack = r.stack[:len(r.stack)-1] }

func (r *rbT) declare(name string, loc lexer.Location, kind int) int {
	id := len(r.decls)
	r.decls = append(r.decls, rbDecl{name: name, loc: loc, kind: kind, file: r.file, depth: r.depth})
	s := r.stack[len(r.stack)-1]
	s.decls = append(s.decls, id)
	r.occs = append(r.occs, rbOcc{name: name, loc: loc, kind: rbOccDecl, decl: id, file: r.file, depth: r.depth, blk: len(r.stack)})
	return id
}

func (r *rbT) resolve(name string) int {
	for i := len(r.stack) - 1; i >= 0; i-- {
		ds := r.stack[i].decls
		for j := len(ds) - 1; j >= 0; j-- {
			if r.decls[ds[j]].name == name {
				return ds[j]
			}
		}
	}
	return -1
}

func (r *rbT) use(name string, loc lexer.Location, kind int) {
	if r.probe != "" && name == r.probe && kind == rbOccRead && r.file == 0 {
		r.probeFound = true
		r.probeCtx = r.ctx
		for i := len(r.stack) - 1; i >= 0; i-- {
			for _, di := range r.stack[i].decls {
				r.probeVisible = append(r.probeVisible, r.decls[di].name)
			}
		}
	}
	d := r.resolve(name)
	if d >= 0 {
		if kind == rbOccRead {
			r.decls[d].reads++
		} else {
			r.decls[d].writes++
		}
	}
	r.occs = append(r.occs, rbOcc{name: name, loc: loc, kind: kind, decl: d, file: r.file, depth: r.depth, blk: len(r.stack), slv: r.slv(), ctx: r.ctx, ctxKind: r.ctxKind, ctxSafe: r.ctxSafeName != "" && r.ctxSafeName == name, ctxRisky: r.ctxRiskyName != "" && r.ctxRiskyName == name})
}

// viaG: `_G.name` (dot form, _G not shadowed by a local) names the global `name`, whatever locals are in scope
func (r *rbT) viaG(e ast.Exp) (string, lexer.Location, bool) {
	ta, ok := e.(*ast.TableAccessExp)
	if !ok {
		return "", lexer.Location{}, false
	}
	pn, ok := ta.PrefixExp.(*ast.NameExp)
	if !ok || pn.Name != "_G" || r.resolve("_G") >= 0 {
		return "", lexer.Location{}, false
	}
	key, ok := ta.KeyExp.(*ast.StringExp)
	if !ok || key.Loc.EndColumn-key.Loc.StartColumn != len(key.Str) || key.Loc.StartLine != key.Loc.EndLine {
		return "", lexer.Location{}, false // (bracketed string keys have other ranges; not modelled)
	}
	return key.Str, key.Loc, true
}

// useGlobal records an occurrence of the global `name` (no local can bind it)
func (r *rbT) useGlobal(name string, loc lexer.Location, kind int) {
	r.occs = append(r.occs, rbOcc{name: name, loc: loc, kind: kind, decl: -1, file: r.file, depth: r.depth, blk: len(r.stack), slv: r.slv(), ctx: r.ctx, ctxKind: r.ctxKind, viaG: true})
}

func (r *rbT) slv() int {
	base := 1
	if n := len(r.fnBase); n > 0 {
		base = r.fnBase[n-1]
	}
	return len(r.stack) - base
}

func (o *rbOcc) inCtxOf(name string) bool {
	for _, n := range o.ctx {
		if n == name {
			return true
		}
	}
	return false
}

func (r *rbT) block(b *ast.Block) {
	if b == nil {
		return
	}
	r.push()
	r.stats(b)
	r.pop()
}

func (r *rbT) stats(b *ast.Block) {
	for _, s := range b.Stats {
		r.stat(s)
	}
	for _, e := range b.RetExps {
		r.exp(e)
	}
}

func (r *rbT) funcBody(fd *ast.FuncDefExp) {
	if fd.IsColon && fd.ClassName != "" {
		r.colonRecv = append(r.colonRecv, fd.ClassName)
	}
	r.push()
	r.depth++
	r.fnBase = append(r.fnBase, len(r.stack))
	for i, pn := range fd.ParList {
		kind := rbParam
		if i == 0 && fd.IsColon {
			kind = rbSelf
		}
		var loc lexer.Location
		if i < len(fd.ParLocList) {
			loc = fd.ParLocList[i]
		}
		r.declare(pn, loc, kind)
	}
	if fd.Block != nil {
		r.stats(fd.Block)
	}
	r.fnBase = r.fnBase[:len(r.fnBase)-1]
	r.depth--
	r.pop()
}

func (r *rbT) stat(s ast.Stat) {
	switch st := s.(type) {
	case *ast.LocalVarDeclStat:
		r.ctx, r.ctxKind = st.NameList, 1
		for i, e := range st.ExpList {
			r.ctxSafeName = ""
			if i < len(st.NameList) {
				once := 0
				for _, n := range st.NameList {
					if n == st.NameList[i] {
						once++
					}
				}
				switch e.(type) {
				case *ast.NameExp, *ast.FuncCallExp, *ast.FuncDefExp:
					if once == 1 {
						r.ctxSafeName = st.NameList[i]
					}
				}
			}
			r.exp(e)
		}
		r.ctxSafeName = ""
		r.ctx, r.ctxKind = nil, 0
		for i, n := range st.NameList {
			id := r.declare(n, st.VarLocList[i], rbLocal)
			if i < len(st.AttrList) {
				r.decls[id].attr = int(st.AttrList[i])
			}
			if i < len(st.ExpList) {
				if _, isF := st.ExpList[i].(*ast.FuncDefExp); isF {
					r.decls[id].funcValue = true
				}
				switch x := st.ExpList[i].(type) {
				case *ast.NilExp:
					r.decls[id].emptyInit = true
				case *ast.TableConstructorExp:
					r.decls[id].emptyInit = len(x.KeyExps) == 0 && len(x.ValExps) == 0
				}
			} else {
				// (no value of its own; when the last value is a call it may still receive one)
				r.decls[id].emptyInit = true
			}
			for k, m := range st.NameList {
				if k != i && m == n {
					r.decls[id].dupInStat = true
				}
			}
		}
	case *ast.LocalFuncDefStat:
		r.declare(st.Name, st.NameLoc, rbLocalFunc)
		r.funcBody(st.Exp)
	case *ast.AssignStat:
		var targets []string
		for _, v := range st.VarList {
			if ne, ok := v.(*ast.NameExp); ok {
				targets = append(targets, ne.Name)
			}
		}
		r.ctx, r.ctxKind = targets, 4
		for i, e := range st.ExpList {
			r.ctxRiskyName = ""
			if i < len(st.VarList) {
				if ne, ok := st.VarList[i].(*ast.NameExp); ok {
					if d := r.resolve(ne.Name); d >= 0 && r.decls[d].kind == rbLocal && r.decls[d].emptyInit && !r.decls[d].assigned {
						switch e.(type) {
						case *ast.NameExp, *ast.FuncCallExp, *ast.FuncDefExp:
							r.ctxRiskyName = ne.Name
						}
					}
				}
			}
			r.exp(e)
		}
		r.ctxRiskyName = ""
		r.ctx, r.ctxKind = nil, 0
		for _, v := range st.VarList {
			if ne, ok := v.(*ast.NameExp); ok {
				if d := r.resolve(ne.Name); d >= 0 {
					r.decls[d].assigned = true
				}
				r.use(ne.Name, ne.Loc, rbOccWrite)
			} else if name, loc, ok := r.viaG(v); ok {
				r.useGlobal(name, loc, rbOccWrite)
			} else {
				r.exp(v)
			}
		}
	case *ast.FuncCallExp:
		r.exp(st)
	case *ast.DoStat:
		r.block(st.Block)
	case *ast.WhileStat:
		r.exp(st.Exp)
		r.block(st.Block)
	case *ast.RepeatStat:
		r.push()
		if st.Block != nil {
			r.stats(st.Block)
		}
		r.exp(st.Exp)
		r.pop()
	case *ast.IfStat:
		for i, e := range st.Exps {
			r.exp(e)
			if i < len(st.Blocks) {
				r.block(st.Blocks[i])
			}
		}
	case *ast.ForNumStat:
		r.ctx, r.ctxKind = []string{st.VarName}, 2
		r.exp(st.InitExp)
		r.exp(st.LimitExp)
		r.exp(st.StepExp)
		r.ctx, r.ctxKind = nil, 0
		r.push()
		r.declare(st.VarName, st.VarLoc, rbLoopVar)
		r.block(st.Block)
		r.pop()
	case *ast.ForInStat:
		r.ctx, r.ctxKind = st.NameList, 3
		for _, e := range st.ExpList {
			r.exp(e)
		}
		r.ctx, r.ctxKind = nil, 0
		r.push()
		for i, n := range st.NameList {
			r.declare(n, st.NameLocList[i], rbLoopVar)
		}
		r.block(st.Block)
		r.pop()
	}
}

func (r *rbT) exp(e ast.Exp) {
	switch x := e.(type) {
	case *ast.NameExp:
		r.use(x.Name, x.Loc, rbOccRead)
	case *ast.ParensExp:
		r.exp(x.Exp)
	case *ast.UnopExp:
		r.exp(x.Exp)
	case *ast.BinopExp:
		r.exp(x.Exp1)
		r.exp(x.Exp2)
	case *ast.ConcatExp:
		r.exp(x.Exp1)
		r.exp(x.Exp2)
	case *ast.TableConstructorExp:
		for i := range x.ValExps {
			if i < len(x.KeyExps) && x.KeyExps[i] != nil {
				r.exp(x.KeyExps[i])
			}
			r.exp(x.ValExps[i])
		}
	case *ast.FuncDefExp:
		r.funcBody(x)
	case *ast.TableAccessExp:
		if name, loc, ok := r.viaG(x); ok {
			r.useGlobal(name, loc, rbOccRead)
			break
		}
		r.exp(x.PrefixExp)
		r.exp(x.KeyExp)
	case *ast.FuncCallExp:
		r.exp(x.PrefixExp)
		for _, a := range x.Args {
			r.exp(a)
		}
	}
}

// rbBind runs the reference binder over the real ASTs of all files.
func rbBind(fs []*results.FileStruct) *rbT {
	r := &rbT{}
	for i, f := range fs {
		r.file = i
		r.stack = nil
		r.depth = 0
		r.push() // main chunk scope
		r.stats(f.FileResult.Block)
		r.pop()
	}
	return r
}

// globalDefs lists the occurrences that define global `name` (assignment to a name not bound to a local).
func (r *rbT) globalDefs(name string) []int {
	var out []int
	for i := range r.occs {
		o := &r.occs[i]
		if o.kind == rbOccWrite && o.decl < 0 && o.name == name {
			out = append(out, i)
		}
	}
	return out
}

func locEq(a, b lexer.Location) bool {
	return a.StartLine == b.StartLine && a.StartColumn == b.StartColumn && a.EndLine == b.EndLine && a.EndColumn == b.EndColumn
}

// ---------------------------------------------------------------- templates

// A template is Lua text in which the bytes 1..9 mark identifier holes (same number = same name).
// Names are single symbolic bytes over {a,b,c}; fixed identifiers in the templates never use those letters.
var vpTemplates = []string{
	/* 0 */ "local \x01 = 1\n\x02 = \x01\n",
	/* 1 */ "local \x01 = 1\ndo\n local \x02 = \x01\n \x03 = \x02\nend\n\x03 = \x01\n",
	/* 2 */ "local \x01 = \x02\nlocal \x03 = \x01\n",
	/* 3 */ "local \x01 = 1\nlocal \x02 = \x03 + 1\ng = \x04\n",
	/* 4 */ "local \x01 = f(\x02)\ng = \x01\n",
	/* 5 */ "local \x01 = function() return \x02 end\ng = \x01\n",
	/* 6 */ "local function \x01() return \x02 end\ng = \x01\n",
	/* 7 */ "local \x01\nfor \x02 = \x03, \x03 do\n \x04 = \x02\nend\ng = \x02\n",
	/* 8 */ "for \x01, \x02 in pairs(\x03) do\n \x04 = \x01\nend\n\x04 = \x02\n",
	/* 9 */ "local \x01\nrepeat\n local \x02 = 1\nuntil \x03\ng = \x02\n",
	/* 10 */ "local \x01 = 1\nwhile \x01 do\n local \x01 = \x02\n g = \x01\nend\n",
	/* 11 */ "local \x03\nif \x01 then\n local \x02 = 1\nelseif \x02 then\n \x03 = \x02\nelse\n \x03 = \x01\nend\n",
	/* 12 */ "local \x01, \x02 = \x02, \x01\ng = \x01\nh = \x02\n",
	/* 13 */ "local \x01 = 1\nlocal \x01 = 2\n\x02 = \x01\n",
	/* 14 */ "function f(\x01, \x02)\n return \x03\nend\n",
	/* 15 */ "local \x01 = 1\nfunction f(\x02)\n return function() return \x03 end\nend\n",
	/* 16 */ "local t = {}\nfunction t:m(\x01)\n return self, \x02\nend\n",
	/* 17 */ "local t = {}\nfunction t.f(\x01)\n \x02 = \x01\nend\n\x03 = \x02\n",
	/* 18 */ "\x01 = 1\nlocal \x02 = \x01\ng = \x02\n",
	/* 19 */ "g = \x01\n\x01 = 1\nh = \x01\n",
	/* 20 */ "local \x01 <const> = 1\nlocal \x02 <close> = \x01\ng = \x02\n",
	/* 21 */ "local \x01 = {\x02 = \x03}\ng = \x01\n",
	/* 22 */ "local \x01 = 1\nlocal \x02 = \x01.k\ng = \x02\n",
	/* 23 */ "local \x01 = {}\n\x01.x = \x02\n\x03 = \x01.x\n",
	/* 24 */ "do local \x01 = 1 end do local \x02 = 2 g = \x03 end\n",
	/* 25 */ "local \x01 = 1\nrepeat local \x02 = \x01 until \x02\n",
	/* 26 */ "if k then local \x01 = 1 g = \x01 else local \x02 = 2 g = \x03 end\n",
	/* 27 */ "local \x01 = 0\nif k then local \x02 = 1 g = \x02 else local \x03 = 2 g = \x04 end\n",
	/* 28 */ "local \x01 = 0\nlocal t = { f = function(\x02) return \x03 end, h = function(\x04) return \x05 end }\n",
	/* 29 */ "local \x01 = 0\nwhile k do local \x02 = 1 g = \x02 end while k do local \x03 = 2 g = \x04 end\n",
	/* 30 */ "local \x01 <const>, \x02 <const> = 1, 2\ng = \x02\nh = \x01\n",
	// assignments with more targets than expressions (the surplus targets get nil or the call's extra results)
	/* 31 */ "local \x01, \x02 = 1, 2\n\x01, \x02 = f()\ng = \x01 + \x02\n",
	/* 32 */ "local \x01\nlocal \x02\nfunction g(...)\n \x01, \x02 = ...\nend\n\x01, \x02 = nil\n",
	/* 33 */ "\x01 = 1\n\x02 = 2\n\x01, \x02 = \x03\nh = \x02\n",
	// closures two levels deep, recursion, method definitions and calls, table constructors, concatenation, varargs
	/* 34 */ "local \x01 = 1\nlocal function f()\n local \x02 = 2\n local function g()\n  return \x03 + \x04\n end\n return g\nend\n",
	/* 35 */ "local function \x01(\x02)\n return \x03(\x04)\nend\ng = \x01\n",
	/* 36 */ "local \x01 = {}\nfunction \x01.m(\x02) return \x03 end\n\x01.m(\x04)\n\x01:m()\n",
	/* 37 */ "local \x01 = 1\nlocal \x02 = { \x01, [\x01] = \x03, k = \x01 }\ng = \x02\n",
	/* 38 */ "local \x01 = 1\nlocal s = \"x\" .. \x01 .. \x02\ng = #\x01 + -\x02\n",
	/* 39 */ "local \x01 = function(\x02, ...)\n local \x03 = ...\n return \x03, \x02\nend\ng = \x01\n",
	// declarations inside elseif branches (also inside a closure written there)
	/* 40 */ "local \x01 = 0\nif k then\n g = \x01\nelseif j then\n local \x02 = 1\n g = \x02\n local f = function(\x03) return \x03 + \x02 end\nelseif i then\n local \x04 = 2\n g = \x04\nelse\n g = \x01\nend\n",
	// call chains with one callback in the prefix expression and another in the arguments
	/* 41 */ "local \x03 = 0\nlocal r = o:map(function(\x01)\n return \x01 + \x03\nend):filter(function(\x02)\n return \x02 + \x03\nend)\n",
	/* 42 */ "local s = mk(function(\x01)\n local \x02 = \x01\n return \x02\nend)(function(\x03)\n return \x03\nend)\n",
	// concatenation chains written without blanks, field accesses and calls as operands
	/* 43 */ "local \x01 = 1\nlocal \x02 = 2\nlocal \x03 = 3\nlocal k = \x01..\x02..\x03..\x01\nlocal j = t.x..\x02..f(\x03)..\x01\n",
	// a numeric for whose control variable reuses a name that its own bounds read (the only read of that name)
	/* 44 */ "local \x01 = 1\nfor \x02 = \x03, 5 do\n g = \x02\nend\n",
	/* 45 */ "for \x01 = 1, \x02, \x03 do\n g = \x01\nend\n",
	// initialisers that span several lines (call / function / name), the re-declared name used on a
	// continuation line at a smaller column than the initialiser started at
	/* 46 */ "local \x01 = 1\nlocal function h(\x02)\n      local \x03 = f(\x01,\n  \x02)\n local \x04 = function(k)\n  return \x02 and \x03(k)\n end\n return \x03, \x04\nend\n",
	/* 47 */ "local \x01, \x02 = 1, 2\n     local \x03 = t.f(1,\n\x01, function()\n return \x02\nend)\ng = \x03 + \x01\n",
	// colon methods on receivers reached through two or more member steps: self is the implicit parameter
	/* 48 */ "\x01 = { ui = { P = {} } }\nfunction \x01.ui.P:show(\x02)\n local s = self\n g = self.k\n return \x02, s\nend\nlocal \x03 = { n = { P = {} } }\nfunction \x03.n.P:m()\n return function() return self end\nend\n",
	// a global first assigned inside a top-level block (a guard), later inside functions
	/* 49 */ "if k then\n \x01 = 0\n \x02 = 1\nend\nfunction add(n)\n \x01 = n + 1\n do \x02 = n end\nend\nfunction reset() \x01 = 0 end\ng = \x01 + \x02\n",
	// a chained call used as a statement, with multi-line callbacks in every link
	/* 50 */ "local \x03 = 0\no:next(function(\x01)\n local \x02 = \x01\n return \x02 + \x03\nend):next(function(\x02)\n return \x02 + \x03\nend):catch(function(\x01)\n g = \x01\nend)\n",
	// computed table keys that are compound expressions: names read only there
	/* 51 */ "local \x01, \x02, \x03 = \"p\", 1, 2\nlocal t = { [\x01 .. \"k\"] = 1, [\x02 + 1] = 2, [-\x03] = 3, [(\x04)] = 4, [#\x04] = 5, [not \x04] = 6 }\ng = t\n",
	// re-assignment from a call that takes the old value: forward-declared locals, parameters, loop variables
	/* 52 */ "local \x01\n\x01 = f(\x02)\nlocal function h(\x03, \x02)\n \x03 = g(\x03)\n \x02 = \x02:lower()\n for _, \x04 in ipairs(t) do\n  \x04 = trim(\x04)\n end\n return \x03, \x02\nend\n",
	// constructor fields written without blanks: the value is a read of the local, the key is not an occurrence
	/* 53 */ "local \x01 = 1\nlocal u = {\x01=\x01, \x02=\x01}\nt.\x01=\x01\ng = u\n",
	// a code line that ends in an annotation comment; a file that ends without a newline
	/* 54 */ "local \x01 = 1\nlocal \x02 = \x01 ---@type number\ng = \x02 + \x01 ---@type number\n",
	/* 55 */ "local \x01 = 1\nlocal \x02 = 2\nreturn \x01 + \x02",
	// locals initialised from annotated globals and the reverse (hover labels are built along the chain)
	/* 56 */ "---@class Kx\n---@type Kx\n\x01 = {}\nlocal \x02 = \x01\nprint(\x02, \x01)\n---@type Kx\nlocal \x03 = {}\n\x04 = \x03\nprint(\x04, \x03)\n",
	// a global reached through _G while a parameter / local of the same name is in scope
	/* 57 */ "\x01 = 0\nfunction setv(\x02)\n _G.\x01 = \x02\n q = _G.\x02\n return _G.\x03, \x03\nend\nr = _G.\x01\n",
}

// vpInstantiate fills the holes of template t with symbolic names; tag prefixes the variable names.
func vpInstantiate(t string, tag string) []byte {
	src := []byte(t)
	var names [10]byte
	var have [10]bool
	for i, c := range src {
		if c >= 1 && c <= 9 {
			if !have[c] {
				names[c] = verifByteIn(tag+string([]byte{'0' + c}), "abc")
				have[c] = true
			}
			src[i] = names[c]
		}
	}
	return src
}

// vpOneLine turns a multi-line template into a single line (a second layout: columns matter for the
// position-based resolver).
func vpOneLine(t string) string {
	b := []byte(t)
	for i, c := range b {
		if c == '\n' && i != len(b)-1 {
			b[i] = ' '
		}
	}
	return string(b)
}

// vpLineStarts returns the byte offset of every line start.
func vpLineStarts(src []byte) []int {
	ls := []int{0}
	for i, c := range src {
		if c == '\n' {
			ls = append(ls, i+1)
		}
	}
	return ls
}

func vpIsHoleName(n string) bool {
	return len(n) == 1
}

// globalMixedDepth: among the assignments defining global `name` in one file, a later one is shallower than
// an earlier one in LuaHelper's order (function nesting first, then block nesting inside the function): the
// later one then becomes the preferred definition and the earlier assignments are lost from its references
// (known defect). Any other mix of depths is handled correctly.
func (r *rbT) globalMixedDepth(name string) bool {
	defs := r.globalDefs(name)
	for a := range defs {
		for b := a + 1; b < len(defs); b++ {
			i, j := &r.occs[defs[a]], &r.occs[defs[b]]
			if i.file != j.file {
				continue
			}
			if j.depth < i.depth || (j.depth == i.depth && j.slv < i.slv) {
				return true
			}
		}
	}
	return false
}

func (r *rbT) isColonReceiver(name string) bool {
	for _, n := range r.colonRecv {
		if n == name {
			return true
		}
	}
	return false
}

// ---------------------------------------------------------------- exported facade (harnesses in package langserver)

// VpProject analyses an in-memory workspace.
// VpProjectEdited: the workspace analysed from the saved texts, then every file edited (didChange) to its
// current text without saving.
func VpProjectEdited(names []string, saved [][]byte, cur [][]byte) *AllProject {
	p, _ := vpProject(names, saved)
	for i := range names {
		p.HandleFileChangeAnalysis(names[i], cur[i])
	}
	return p
}

func VpProject(names []string, srcs [][]byte) *AllProject {
	p, _ := vpProject(names, srcs)
	return p
}

// VpScopeAt runs the reference binder and reports, for the (single) read of the probe identifier in
// file 0, the names of the local declarations visible there, and the names of all local declarations
// and all defined globals of the workspace.
func VpScopeAt(p *AllProject, names []string, probe string) (visible []string, allLocals []string, globals []string, ownStmt []string, found bool) {
	fs := make([]*results.FileStruct, len(names))
	for i, n := range names {
		fs[i] = p.getVailidCacheFileStruct(n)
	}
	r := &rbT{probe: probe}
	for i, f := range fs {
		r.file = i
		r.stack = nil
		r.depth = 0
		r.push()
		r.stats(f.FileResult.Block)
		r.pop()
	}
	for i := range r.decls {
		allLocals = append(allLocals, r.decls[i].name)
	}
	for i := range r.occs {
		o := &r.occs[i]
		if o.kind == rbOccWrite && o.decl < 0 {
			globals = append(globals, o.name)
		}
	}
	return r.probeVisible, allLocals, globals, r.probeCtx, r.probeFound
}

// globalMultiFile: global `name` is assigned in more than one file of the workspace.
func (r *rbT) globalMultiFile(name string) bool {
	first := -1
	for _, i := range r.globalDefs(name) {
		if first < 0 {
			first = r.occs[i].file
		} else if r.occs[i].file != first {
			return true
		}
	}
	return false
}

// exported views of the template machinery (for handler-level jobs of package langserver)
func VpTemplateText(i int) string               { return vpTemplates[i] }
func VpInstantiate(t string, tag string) []byte { return vpInstantiate(t, tag) }
func VpOneLine(t string) string                 { return vpOneLine(t) }
