//gosx:package langserver/check/common
package common

import (
	"os"
	"strings"
	"time"
)

// Environment model at the lowest level (symbolic run only): the entries of one directory, as ioutil.ReadDir
// returns them (sorted by name), read from the virtual file system. With this model the whole directory walk
// - getAllFile with its goroutines, the result channel, the semaphore and the ignore decisions - is the real
// code.
type verifFileInfo struct {
	name string
	dir  bool
}

func (f verifFileInfo) Name() string       { return f.name }
func (f verifFileInfo) Size() int64        { return 0 }
func (f verifFileInfo) ModTime() time.Time { return time.Time{} }
func (f verifFileInfo) IsDir() bool        { return f.dir }
func (f verifFileInfo) Sys() interface{}   { return nil }
func (f verifFileInfo) Mode() os.FileMode {
	if f.dir {
		return os.ModeDir
	}
	return 0
}

func verifModelDirents(run *ParallelRun, dir string) []os.FileInfo {
	run.Acquire()
	defer run.Release()
	top := dir
	if !strings.HasSuffix(top, "/") {
		top += "/"
	}
	var out []os.FileInfo
	last := ""
	for _, name := range verifVFSList() { // sorted
		if !strings.HasPrefix(name, top) {
			continue
		}
		rest := name[len(top):]
		isDir := false
		if k := strings.Index(rest, "/"); k >= 0 {
			rest, isDir = rest[:k], true
		}
		if rest == last {
			continue
		}
		last = rest
		out = append(out, verifFileInfo{name: rest, dir: isDir})
	}
	return out
}
