//gosx:package langserver/check/common
package common

import (
	"errors"
	"os"
	"strings"
	"time"
)

// Environment model at the lowest level (symbolic run only): the entries of one directory, as ioutil.ReadDir
// returns them (sorted by name), read from the virtual file system. With this model the whole directory walk
// - getAllFile with its goroutines, the result channel, the semaphore and the ignore decisions - is the real
// code.
type verifFileInfo struct {
	name string
	dir  bool
	link bool
}

func (f verifFileInfo) Name() string       { return f.name }
func (f verifFileInfo) Size() int64        { return 0 }
func (f verifFileInfo) ModTime() time.Time { return time.Time{} }
func (f verifFileInfo) IsDir() bool        { return f.dir }
func (f verifFileInfo) Sys() interface{}   { return nil }
func (f verifFileInfo) Mode() os.FileMode {
	if f.dir {
		return os.ModeDir
	}
	if f.link {
		return os.ModeSymlink
	}
	return 0
}

func verifModelDirents(run *ParallelRun, dir string) []os.FileInfo {
	run.Acquire()
	defer run.Release()
	top := dir
	if !strings.HasSuffix(top, "/") {
		top += "/"
	}
	var out []os.FileInfo
	last := ""
	for _, name := range verifVFSList() { // sorted
		if !strings.HasPrefix(name, top) {
			continue
		}
		rest := name[len(top):]
		isDir := false
		if k := strings.Index(rest, "/"); k >= 0 {
			rest, isDir = rest[:k], true
		}
		if rest == last {
			continue
		}
		last = rest
		out = append(out, verifFileInfo{name: rest, dir: isDir})
	}
	return out
}

// One level lower still: ioutil.ReadDir itself and the os.Stat behind isDir, over the virtual file system,
// with symbolic links to files. With these two models `dirents` (semaphore, error path) is the real code too.
func verifModelReadDir(dir string) ([]os.FileInfo, error) {
	top := dir
	for len(top) > 1 && strings.HasSuffix(top, "/") {
		top = top[:len(top)-1]
	}
	all := verifVFSList()
	for _, name := range all {
		if name == top {
			return nil, errors.New("readdirent " + top + ": not a directory")
		}
	}
	top += "/"
	var out []os.FileInfo
	last := ""
	for _, name := range all { // sorted
		if !strings.HasPrefix(name, top) {
			continue
		}
		rest := name[len(top):]
		isDir := false
		if k := strings.Index(rest, "/"); k >= 0 {
			rest, isDir = rest[:k], true
		}
		if rest == last {
			continue
		}
		last = rest
		out = append(out, verifFileInfo{name: rest, dir: isDir, link: !isDir && verifVFSIsLink(top+rest)})
	}
	if len(out) == 0 {
		return nil, errors.New("open " + dir + ": no such file or directory")
	}
	return out, nil
}

func verifModelIsDir(path string) bool {
	top := path
	for len(top) > 1 && strings.HasSuffix(top, "/") {
		top = top[:len(top)-1]
	}
	top += "/"
	for _, name := range verifVFSList() {
		if strings.HasPrefix(name, top) {
			return true
		}
	}
	return false
}
