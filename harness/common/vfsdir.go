//gosx:package langserver/check/common
package common

import "strings"

// Environment model (symbolic run only; the native replay walks a real directory): the directory walk of
// GetDirFileList - ioutil.ReadDir, one goroutine per directory, a channel of results - over the virtual
// file system. The decisions the walk takes are the real ones: skipped .svn / .git directories, the ignore
// predicates isIgnoreFloder / isIgnoreFile (only when ignoreFlag is set) and IsHandleAsLua, each applied to
// the same strings the real walk builds (path of the directory with a trailing slash, resp. of the file,
// relative to the directory the walk started from).
func (d *DirManager) verifModelGetDirFileList(path string, ignoreFlag bool) (fileList []string) {
	if path == "" {
		return fileList
	}
	g := GConfig
	dirStr := path
	top := path
	if !strings.HasSuffix(top, "/") {
		top += "/"
	}
	for _, name := range verifVFSList() {
		if !strings.HasPrefix(name, top) {
			continue
		}
		rest := name[len(top):]
		skip := false
		completeStr := top
		for {
			k := strings.Index(rest, "/")
			if k < 0 {
				break
			}
			dir := rest[:k]
			rest = rest[k+1:]
			if dir == ".svn" || dir == ".git" {
				skip = true
				break
			}
			completeStr += dir + "/"
			if ignoreFlag && g.isIgnoreFloder(completeStr[len(dirStr)+1:]) {
				skip = true
				break
			}
		}
		if skip {
			continue
		}
		completeStr += rest
		if !g.IsHandleAsLua(completeStr) {
			continue
		}
		if ignoreFlag && g.isIgnoreFile(completeStr[len(dirStr)+1:]) {
			continue
		}
		fileList = append(fileList, completeStr)
	}
	return fileList
}
