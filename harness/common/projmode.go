//gosx:package langserver/check
package check

import (
	"luahelper-lsp/langserver/check/common"
)

// Project mode against a fresh start (registered under C07, C08, C09, C17, C01 with different parameters).
//
// Two entry files (client_main.lua, server_main.lua) share util.lua; client_main also loads player.lua, which
// forms a lazy require cycle with inventory.lua; tools/dump.lua is a script no entry file reaches ("scattered")
// that requires util, player and late (late.lua does not exist at first and defines a global that the script and
// client_main.lua read - at the top level and inside a function: the two are resolved by different code).
// A solver-chosen history of EVENTS file events - util.lua saved with another parameter list and another global,
// late.lua created / deleted, the scattered script deleted / created - runs through HandleFileEventChanges with
// the real pools; after every event the diagnostics of every file equal those of a fresh analysis of the files
// that now exist (same entry files, same switches). IGNORE6=1: the file-not-found check (type 6) may be switched
// off - exactly the type-6 diagnostics disappear, in the history as in the fresh run.
var pmUtil = []string{
	"function FormatMoney(a, b) return a end\nreturn {}\n",
	"function FormatMoney(a, b, c) return a end\nExtraG = 1\nreturn {}\n",
}

func VerifRun_ProjMode() {
	root := verifVFSRoot()
	c08workspace(root)
	cm, sm, util := root+"/client_main.lua", root+"/server_main.lua", root+"/util.lua"
	player, inv := root+"/player.lua", root+"/inventory.lua"
	dump, late := root+"/tools/dump.lua", root+"/late.lua"
	verifVFSPut(cm, []byte("local u = require(\"util\")\nlocal p = require(\"player\")\nlocal l = require(\"late\")\nq1 = FormatMoney(1, 2, 3)\nq2 = u\nq3 = p\nq4 = LateG\nq5 = l\nlocal function inClient()\n return FormatMoney(1, 2, 3), LateG, ExtraG\nend\nq6 = inClient\n"))
	verifVFSPut(sm, []byte("local u = require(\"util\")\nr1 = FormatMoney(1, 2, 3)\nr2 = u\n"))
	verifVFSPut(player, []byte("local function inv() return require(\"inventory\") end\nPlayerG = 1\nreturn { inv = inv }\n"))
	verifVFSPut(inv, []byte("local function pl() return require(\"player\") end\nreturn { pl = pl }\n"))
	dumpSrc := "local u = require(\"util\")\nlocal p = require(\"player\")\nlocal l = require(\"late\")\ns1 = FormatMoney(1, 2)\ns2 = ExtraG\ns3 = LateG\ns4 = PlayerG\ns5 = u\ns6 = p\ns7 = l\nlocal function inDump()\n return FormatMoney(1, 2), ExtraG, LateG, PlayerG\nend\ns8 = inDump\n"
	lateSrc := "LateG = 1\nreturn {}\n"
	uv := 0
	verifVFSPut(util, []byte(pmUtil[uv]))
	verifVFSPut(dump, []byte(dumpSrc))
	if verifParamOr("IGNORE6", 0) == 1 && verifBool("fileNotFoundCheckOff") {
		flags := make([]bool, 26)
		for i := range flags {
			flags[i] = i != int(common.CheckErrorNoFile)
		}
		common.GConfig.HandleChangeCheckList(flags, nil, nil)
	}
	hasDump, hasLate := true, false
	entries := []string{cm, sm}
	cur := func() []string {
		fs := []string{cm, sm, util, player, inv}
		if hasDump {
			fs = append(fs, dump)
		}
		if hasLate {
			fs = append(fs, late)
		}
		return fs
	}
	all := []string{cm, sm, util, player, inv, dump, late}
	p := CreateAllProject(cur(), entries, nil)
	p.HandleCheck()
	verifReach("analysed")
	for k := 0; k < verifParam("EVENTS"); k++ {
		switch verifConcretize(verifRange("event", 0, 2)) {
		case 0: // the shared module is saved with other contents
			uv = 1 - uv
			verifVFSPut(util, []byte(pmUtil[uv]))
			p.HandleFileEventChanges([]FileEventStruct{{StrFile: util, Type: FileEventChanged}})
		case 1: // the module the script waits for appears / disappears
			if hasLate {
				verifVFSDel(late)
				p.HandleFileEventChanges([]FileEventStruct{{StrFile: late, Type: FileEventDeleted}})
			} else {
				verifVFSPut(late, []byte(lateSrc))
				p.HandleFileEventChanges([]FileEventStruct{{StrFile: late, Type: FileEventCreated}})
			}
			hasLate = !hasLate
		case 2: // the only scattered script disappears / comes back
			if hasDump {
				verifVFSDel(dump)
				p.HandleFileEventChanges([]FileEventStruct{{StrFile: dump, Type: FileEventDeleted}})
			} else {
				verifVFSPut(dump, []byte(dumpSrc))
				p.HandleFileEventChanges([]FileEventStruct{{StrFile: dump, Type: FileEventCreated}})
			}
			hasDump = !hasDump
		}
		fresh := CreateAllProject(cur(), entries, nil)
		fresh.HandleCheck()
		verifReach("compared")
		if got, want := c08diag(p, all), c08diag(fresh, all); got != want {
			verifObserve("history", got)
			verifObserve("fresh", want)
			verifViolation("", "project mode: the diagnostics after a file event differ from those of a fresh analysis of the same files")
			return
		}
	}
}
