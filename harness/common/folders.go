//gosx:package langserver
package langserver

import (
	"context"
	lsp "luahelper-lsp/langserver/protocol"

	"github.com/yinfei8/jrpc2"
	"github.com/yinfei8/jrpc2/handler"
)

// Workspace folders that come and go against a fresh start (registered under C05, C14, C18, C19).
//
// The server starts on the folder game/ (main.lua uses globals and requires modules of the other folder); the
// folder shared/ (util.lua with globals, net/codec.lua, net/proto/init.lua, settings.lua) is added by
// workspace/didChangeWorkspaceFolders - optionally after one of its files was opened in the editor - and
// optionally removed again. Afterwards the answers - go-to-definition on globals and on module strings from a
// file of each folder, bare-prefix completion as a set in a file of the added folder, workspace symbols for
// exact names, and the file-not-found diagnostics - are those of a server freshly started with the folders that
// are now part of the workspace. Real Initialize / Initialized and handlers; below the directory walk the
// virtual file system.
const fdMain = "local c = require(\"net.codec\")\nlocal p = require(\"net.proto\")\nlocal s = require(\"settings\")\nq1 = shared_helper\nq2 = Util\nq3 = c\nq4 = p\nq5 = s\nq6 = pl\n"
const fdUtil = "Util = {}\nfunction Util.clamp(v) return v end\nfunction shared_helper() end\nplatform_name = \"x\"\nq7 = game_global\nq8 = pl\n"

func fdStart(root string, folders []string) *LspServer {
	l := CreateLspServer()
	l.server = jrpc2.NewServer(handler.Map{}, &jrpc2.ServerOptions{AllowPush: false, Concurrency: 1})
	opts := getDefaultIntialOptions()
	opts.AllEnable, opts.CheckNoDefine = true, true
	var ip InitializeParams
	ip.RootURI = lsp.DocumentURI("file://" + folders[0])
	ip.RootPath = folders[0]
	for _, f := range folders {
		ip.WorkspaceFolders = append(ip.WorkspaceFolders, lsp.WorkspaceFolder{URI: "file://" + f, Name: f})
	}
	ip.InitializationOptions = opts
	if _, err := l.Initialize(context.Background(), ip); err != nil {
		return nil
	}
	_ = l.Initialized(context.Background(), InitializedParams{})
	return l
}

func fdAsk(l *LspServer, mainF, utilF string, withUtil bool, utilText string) []string {
	ctx := context.Background()
	var out []string
	um := lsp.DocumentURI("file://" + mainF)
	_ = l.TextDocumentDidOpen(ctx, lsp.DidOpenTextDocumentParams{TextDocument: lsp.TextDocumentItem{URI: um, Text: fdMain}})
	def := func(u lsp.DocumentURI, text, needle string, off int, tag string) {
		line, col, ok := sessPos(text, needle, off)
		if !ok {
			return
		}
		locs, _ := l.TextDocumentDefine(ctx, lsp.TextDocumentPositionParams{TextDocument: lsp.TextDocumentIdentifier{URI: u}, Position: lsp.Position{Line: uint32(line), Character: uint32(col)}})
		var v []string
		for _, x := range locs {
			v = append(v, sessLoc(x.URI, x.Range))
		}
		out = append(out, tag+"="+sessSort(v))
	}
	def(um, fdMain, "\"net.codec\"", 3, "D-codec")
	def(um, fdMain, "\"net.proto\"", 3, "D-proto")
	def(um, fdMain, "\"settings\"", 3, "D-settings")
	def(um, fdMain, "q1 = shared_helper", 7, "D-helper")
	def(um, fdMain, "q2 = Util", 6, "D-Util")
	out = append(out, "V-main="+c08view[string(um)])
	for _, q := range []string{"Util", "shared_helper", "Util.clamp"} {
		syms, _ := l.WorkspaceSymbolRequest(ctx, lsp.WorkspaceSymbolParams{Query: q})
		var v []string
		for _, s := range syms {
			if s.Name == q {
				v = append(v, sessLoc(s.Location.URI, s.Location.Range))
			}
		}
		out = append(out, "W-"+q+"="+sessSort(v))
	}
	if withUtil {
		uu := lsp.DocumentURI("file://" + utilF)
		_ = l.TextDocumentDidOpen(ctx, lsp.DidOpenTextDocumentParams{TextDocument: lsp.TextDocumentItem{URI: uu, Text: fdUtil}})
		if utilText != fdUtil {
			// the buffer has an unsaved edit
			_ = l.TextDocumentDidChange(ctx, lsp.DidChangeTextDocumentParams{
				TextDocument:   lsp.VersionedTextDocumentIdentifier{TextDocumentIdentifier: lsp.TextDocumentIdentifier{URI: uu}},
				ContentChanges: []lsp.TextDocumentContentChangeEvent{{Text: utilText}}})
		}
		syms, _ := l.TextDocumentSymbol(ctx, lsp.DocumentSymbolParams{TextDocument: lsp.TextDocumentIdentifier{URI: uu}})
		var flat []string
		sessOutline(syms, 0, &flat)
		out = append(out, "S-util="+sessSort(flat))
		def(uu, fdUtil, "q7 = game_global", 7, "D-game_global")
		line, col, _ := sessPos(fdUtil, "q8 = pl", 7)
		res, _ := l.TextDocumentComplete(ctx, lsp.CompletionParams{TextDocumentPositionParams: lsp.TextDocumentPositionParams{TextDocument: lsp.TextDocumentIdentifier{URI: uu}, Position: lsp.Position{Line: uint32(line), Character: uint32(col)}}})
		var v []string
		if cl, isC := res.(CompletionListTmp); isC {
			for k := range cl.Items {
				v = append(v, cl.Items[k].Label)
			}
		}
		out = append(out, "C-pl="+sessSort(v))
	}
	return out
}

// fdAskKeep: as fdAsk on the server with the history; a document that is already open with an unsaved edit is
// left as it is (opening it again would replace the buffer)
func fdAskKeep(l *LspServer, mainF, utilF string, withUtil bool, utilText string) []string {
	if utilText == fdUtil || !withUtil {
		return fdAsk(l, mainF, utilF, withUtil, utilText)
	}
	out := fdAsk(l, mainF, utilF, false, utilText)
	ctx := context.Background()
	uu := lsp.DocumentURI("file://" + utilF)
	syms, _ := l.TextDocumentSymbol(ctx, lsp.DocumentSymbolParams{TextDocument: lsp.TextDocumentIdentifier{URI: uu}})
	var flat []string
	sessOutline(syms, 0, &flat)
	out = append(out, "S-util="+sessSort(flat))
	return out
}

func VerifRun_Folders() {
	root := verifVFSRoot()
	game, shared := root+"/game", root+"/shared"
	mainF, utilF := game+"/main.lua", shared+"/util.lua"
	verifVFSPut(mainF, []byte(fdMain))
	verifVFSPut(game+"/globals.lua", []byte("game_global = 1\nplay_sound = 2\n"))
	verifVFSPut(utilF, []byte(fdUtil))
	verifVFSPut(shared+"/net/codec.lua", []byte("return {}\n"))
	verifVFSPut(shared+"/net/proto/init.lua", []byte("return {}\n"))
	verifVFSPut(shared+"/settings.lua", []byte("pluck_keys = 1\nreturn {}\n"))
	c08view = map[string]string{}
	l := fdStart(root, []string{game})
	if l == nil {
		verifViolation("", "harness: initialize failed")
		return
	}
	ctx := context.Background()
	utilText := fdUtil
	if verifParamOr("OPENBEFORE", 1) == 1 && verifBool("fileOfTheFolderOpenBefore") {
		_ = l.TextDocumentDidOpen(ctx, lsp.DidOpenTextDocumentParams{TextDocument: lsp.TextDocumentItem{URI: lsp.DocumentURI("file://" + utilF), Text: fdUtil}})
		if verifParamOr("UNSAVED", 1) == 1 && verifBool("withAnUnsavedEdit") {
			utilText = "function typed_before() end\n" + fdUtil
			_ = l.TextDocumentDidChange(ctx, lsp.DidChangeTextDocumentParams{
				TextDocument:   lsp.VersionedTextDocumentIdentifier{TextDocumentIdentifier: lsp.TextDocumentIdentifier{URI: lsp.DocumentURI("file://" + utilF)}},
				ContentChanges: []lsp.TextDocumentContentChangeEvent{{Text: utilText}}})
		}
	}
	fd := lsp.WorkspaceFolder{URI: "file://" + shared, Name: "shared"}
	_ = l.WorkspaceChangeWorkspaceFolders(ctx, lsp.DidChangeWorkspaceFoldersParams{Event: lsp.WorkspaceFoldersChangeEvent{Added: []lsp.WorkspaceFolder{fd}}})
	present := true
	if verifBool("removedAgain") {
		_ = l.WorkspaceChangeWorkspaceFolders(ctx, lsp.DidChangeWorkspaceFoldersParams{Event: lsp.WorkspaceFoldersChangeEvent{Removed: []lsp.WorkspaceFolder{fd}}})
		present = false
	}
	verifReach("folders")
	got := fdAskKeep(l, mainF, utilF, present, utilText)
	c08view = map[string]string{}
	folders := []string{game}
	if present {
		folders = append(folders, shared)
	}
	f := fdStart(root, folders)
	if f == nil {
		verifViolation("", "harness: initialize of the fresh server failed")
		return
	}
	want := fdAsk(f, mainF, utilF, present, utilText)
	verifReach("compared")
	for i := range got {
		if i < len(want) && got[i] != want[i] {
			verifObserve("history-answer", got[i])
			verifObserve("fresh-answer", want[i])
			verifViolation("", "after workspace folders were added / removed a request is answered differently than by a server freshly started on the same folders")
		}
	}
}
