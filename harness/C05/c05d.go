//gosx:package langserver
package langserver

import (
	"context"
	"luahelper-lsp/langserver/check"
	"luahelper-lsp/langserver/check/common"
	lsp "luahelper-lsp/langserver/protocol"
)

// C05-d: the same question as C05-b, asked through the real textDocument/definition handler on a document
// opened by the real didOpen handler: cursor-to-offset conversion, the "is this a require / an annotation
// line" dispatch in front of the resolver, and the conversion of the answer to a protocol range are part of
// what the user sees. Besides the template as written (`tail` 0), the file ends without a final newline
// (`tail` 1; the last identifier then ends at the end of the buffer), or one solver-chosen line carries a
// trailing `---@type` annotation comment (`tail` 2) or an ordinary trailing comment (`tail` 3).
func VerifRun_C05d() {
	lo, hi := verifParam("TMIN"), verifParam("TMAX")
	ti := verifConcretize(verifRange("template", lo, hi))
	t := check.VpTemplateText(ti)
	if verifParam("LAYOUTS") > 1 && verifConcretize(verifRange("layout", 0, 1)) == 1 {
		t = check.VpOneLine(t)
	}
	tail := verifConcretize(verifRange("tail", 0, verifParam("TAILS")-1))
	switch tail {
	case 1:
		for len(t) > 0 && t[len(t)-1] == '\n' {
			t = t[:len(t)-1]
		}
	case 2, 3:
		nl := 0
		for i := 0; i < len(t); i++ {
			if t[i] == '\n' {
				nl++
			}
		}
		if nl == 0 {
			return
		}
		at := verifConcretize(verifRange("commentLine", 0, nl-1))
		add := " ---@type number"
		if tail == 3 {
			add = " -- note"
		}
		k := 0
		for i := 0; i < len(t); i++ {
			if t[i] == '\n' {
				if k == at {
					t = t[:i] + add + t[i:]
					break
				}
				k++
			}
		}
	}
	var src []byte
	if tail == 0 || verifParam("SYMTAIL") == 1 {
		src = check.VpInstantiate(t, "n")
	} else {
		// (quick tier: the other endings with one fixed naming, holes named a, b, c in turn)
		src = []byte(t)
		for i, c := range src {
			if c >= 1 && c <= 9 {
				src[i] = "abc"[(c-1)%3]
			}
		}
	}
	root := verifVFSRoot()
	file := root + "/a.lua"
	verifVFSPut(file, src)
	c08view = map[string]string{}
	l := c08eServer(root, []string{file})
	ctx := context.Background()
	uri := lsp.DocumentURI("file://" + file)
	_ = l.TextDocumentDidOpen(ctx, lsp.DidOpenTextDocumentParams{TextDocument: lsp.TextDocumentItem{URI: uri, Text: string(src)}})
	f, ok := l.project.GetFirstFileStuct(file)
	if !ok || f == nil || f.FileResult == nil {
		verifViolation("", "harness: the opened file has no analysis result")
		return
	}
	for _, ce := range f.FileResult.CheckErrVec {
		if ce.ErrType == common.CheckErrorSyntax {
			verifViolation("", "harness: template has a syntax error")
			return
		}
	}
	for _, q := range check.VpC05Queries(f, src) {
		locs, _ := l.TextDocumentDefine(ctx, lsp.TextDocumentPositionParams{TextDocument: lsp.TextDocumentIdentifier{URI: uri},
			Position: lsp.Position{Line: uint32(q.Line), Character: uint32(q.Col)}})
		match := false
		if len(locs) == 1 && locs[0].URI == uri {
			r := locs[0].Range
			for _, w := range q.Want {
				if int(r.Start.Line) == w[0] && int(r.Start.Character) == w[1] && int(r.End.Line) == w[2] && int(r.End.Character) == w[3] {
					match = true
				}
			}
		}
		switch q.Kind {
		case 0:
			verifReach("local")
			if !match {
				if len(locs) == 0 {
					verifViolation(q.Class, "identifier bound to a local declaration: the definition request finds nothing")
				} else {
					verifViolation(q.Class, "identifier bound to a local declaration: the definition request answers another location")
				}
			}
		case 1:
			verifReach("global")
			if !match {
				if len(locs) == 0 {
					verifViolation(q.Class, "global identifier: the definition request finds nothing")
				} else {
					verifViolation(q.Class, "global identifier: the definition request answers a location that is not an assignment defining it")
				}
			}
		case 2:
			verifReach("unbound")
			if len(locs) != 0 {
				verifViolation(q.Class, "unbound identifier: the definition request answers a location")
			}
		}
	}
	verifReach("done")
}
