//gosx:package langserver/check
package check

import (
	"strconv"
	"luahelper-lsp/langserver/check/common"
	"luahelper-lsp/langserver/check/compiler/lexer"
	"luahelper-lsp/langserver/check/results"
)

// C05-b: go-to-definition on every identifier occurrence of every template instance equals the
// declaration the reference binder computes (Lua lexical scoping).

func vpSkipName(n string) bool { return n == "pairs" || n == "self" || n == "require" || n == "_G" }

func c05class(r *rbT, o *rbOcc) string {
	// known defect classes on the unchanged tree (see known_findings.txt)
	if o.ctxKind == 1 && o.inCtxOf(o.name) && !o.ctxSafe {
		return "C05-initialiser"
	}
	if o.ctxKind == 2 && o.inCtxOf(o.name) {
		return "C05-forbounds"
	}
	if o.ctxKind == 4 && o.inCtxOf(o.name) && o.ctxRisky {
		return "C05-self-assign"
	}
	if o.ctxKind == 3 && o.inCtxOf(o.name) {
		return "C05-forin-header"
	}
	return ""
}

func c05check(p *AllProject, r *rbT, files []string, srcs [][]byte, oi int) {
	o := &r.occs[oi]
	if vpSkipName(o.name) || o.loc.StartLine == 0 {
		return
	}
	src := srcs[o.file]
	ls := vpLineStarts(src)
	for _, col := range []int{o.loc.StartColumn, o.loc.EndColumn} {
		off := ls[o.loc.StartLine-1] + col
		if off > len(src) {
			continue
		}
		vs := GetVarStruct(src, off, uint32(o.loc.StartLine-1), uint32(col))
		var d []DefineStruct
		if vs.ValidFlag && len(vs.StrVec) > 0 {
			d = p.FindVarDefineInfo(files[o.file], &vs)
		}
		class := c05class(r, o)
		if class == "" && col == o.loc.StartColumn && off >= 1+len(o.name) && src[off-1] == '=' && string(src[off-1-len(o.name):off-1]) == o.name {
			// known defect: `{name=name}` written without blanks, cursor at the start of the value
			class = "C05-unspaced-field-value"
		}
		verifObserve("query", o.name+" at "+strconv.Itoa(o.loc.StartLine)+":"+strconv.Itoa(col)+" decl "+strconv.Itoa(o.decl)+" answers "+strconv.Itoa(len(d)))
		if o.decl >= 0 {
			want := r.decls[o.decl]
			verifReach("local")
			if len(d) != 1 || d[0].StrFile != files[want.file] || !locEq(d[0].Loc, want.loc) {
				if len(d) == 0 {
					verifViolation(class, "identifier bound to a local declaration: go-to-definition finds nothing")
				} else {
					verifViolation(class, "identifier bound to a local declaration: go-to-definition answers another location")
				}
			}
			continue
		}
		defs := r.globalDefs(o.name)
		if len(defs) == 0 {
			verifReach("unbound")
			if len(d) != 0 {
				verifViolation(class, "unbound identifier: go-to-definition answers a location")
			}
			continue
		}
		verifReach("global")
		ok := false
		for _, di := range defs {
			g := &r.occs[di]
			if len(d) == 1 && d[0].StrFile == files[g.file] && locEq(d[0].Loc, g.loc) {
				ok = true
			}
		}
		if !ok {
			if len(d) == 0 {
				verifViolation(class, "global identifier: go-to-definition finds nothing")
			} else {
				verifViolation(class, "global identifier: go-to-definition answers a location that is not an assignment defining it")
			}
		}
	}
}

func VerifRun_C05b() {
	lo, hi := verifParam("TMIN"), verifParam("TMAX")
	ti := verifConcretize(verifRange("template", lo, hi))
	t := vpTemplates[ti]
	if verifParam("LAYOUTS") > 1 && verifConcretize(verifRange("layout", 0, 1)) == 1 {
		t = vpOneLine(t)
	}
	files := []string{"/w/a.lua"}
	srcs := [][]byte{vpInstantiate(t, "n")}
	p, fs := vpProject(files, srcs)
	for _, ce := range fs[0].FileResult.CheckErrVec {
		if ce.ErrType == common.CheckErrorSyntax {
			verifViolation("", "harness: template has a syntax error")
		}
	}
	r := rbBind(fs)
	for oi := range r.occs {
		c05check(p, r, files, srcs, oi)
	}
	verifReach("done")
}

// VpC05Query is one go-to-definition question of the reference binder, in protocol coordinates (for the
// handler-level job of package langserver).
type VpC05Query struct {
	Name      string
	Line, Col int      // cursor (0-based line, byte column)
	Kind      int      // 0 bound to a local declaration, 1 global with defining assignments, 2 unbound
	Want      [][4]int // accepted answers: start line (0-based), start column, end line, end column
	Class     string
}

// VpC05Queries lists, for a single analysed file, both cursor ends of every identifier occurrence with
// the declaration Lua's scoping binds it to.
func VpC05Queries(f *results.FileStruct, src []byte) []VpC05Query {
	r := rbBind([]*results.FileStruct{f})
	var out []VpC05Query
	for oi := range r.occs {
		o := &r.occs[oi]
		if vpSkipName(o.name) || o.loc.StartLine == 0 {
			continue
		}
		conv := func(l lexer.Location) [4]int {
			return [4]int{l.StartLine - 1, l.StartColumn, l.EndLine - 1, l.EndColumn}
		}
		ls := vpLineStarts(src)
		for _, col := range []int{o.loc.StartColumn, o.loc.EndColumn} {
			off := ls[o.loc.StartLine-1] + col
			if off > len(src) {
				continue
			}
			q := VpC05Query{Name: o.name, Line: o.loc.StartLine - 1, Col: col, Class: c05class(r, o)}
			if q.Class == "" && col == o.loc.StartColumn && off >= 1+len(o.name) && src[off-1] == '=' && string(src[off-1-len(o.name):off-1]) == o.name {
				q.Class = "C05-unspaced-field-value"
			}
			if o.decl >= 0 {
				q.Kind = 0
				q.Want = [][4]int{conv(r.decls[o.decl].loc)}
			} else if defs := r.globalDefs(o.name); len(defs) > 0 {
				q.Kind = 1
				for _, di := range defs {
					q.Want = append(q.Want, conv(r.occs[di].loc))
				}
			} else {
				q.Kind = 2
			}
			out = append(out, q)
		}
	}
	return out
}

var _ = lexer.Location{}
