//gosx:package langserver
package langserver

import (
	"context"
	lsp "luahelper-lsp/langserver/protocol"
)

// C14-c: identifier prefixes that happen to spell a reserved word. Names like `format`, `done`, `ifEmpty`,
// `endpoint`, `index`, `notify`, `order`, `thenable` start with - and while being typed pass through - a
// keyword; with exactly the keyword typed, the visible local and the global that start with it are still
// offered. Through the real didChange / completion handlers.
var c14cWords = []string{"for", "do", "if", "else", "elseif", "while", "repeat", "function", "end", "in", "or", "not", "nil", "and", "local", "return", "then", "true", "until", "goto", "break", "false"}

func VerifRun_C14c() {
	root := verifVFSRoot()
	w := c14cWords[verifConcretize(verifRange("word", 0, len(c14cWords)-1))]
	loc, glob := w+"Loc", w+"Glob"
	src := glob + " = 1\nlocal " + loc + " = 2\n"
	line := "q = " + w
	file := root + "/a.lua"
	verifVFSPut(file, []byte(src))
	c08view = map[string]string{}
	l := c08eServer(root, []string{file})
	ctx := context.Background()
	uri := lsp.DocumentURI("file://" + file)
	_ = l.TextDocumentDidOpen(ctx, lsp.DidOpenTextDocumentParams{TextDocument: lsp.TextDocumentItem{URI: uri, Text: src}})
	_ = l.TextDocumentDidChange(ctx, lsp.DidChangeTextDocumentParams{
		TextDocument:   lsp.VersionedTextDocumentIdentifier{TextDocumentIdentifier: lsp.TextDocumentIdentifier{URI: uri}},
		ContentChanges: []lsp.TextDocumentContentChangeEvent{{Text: src + line + "\n"}}})
	ret, _ := l.TextDocumentComplete(ctx, lsp.CompletionParams{TextDocumentPositionParams: lsp.TextDocumentPositionParams{
		TextDocument: lsp.TextDocumentIdentifier{URI: uri}, Position: lsp.Position{Line: 2, Character: uint32(len(line))}}})
	verifReach("asked")
	res, _ := ret.(CompletionListTmp)
	hasL, hasG := false, false
	for k := range res.Items {
		if res.Items[k].Label == loc {
			hasL = true
		}
		if res.Items[k].Label == glob {
			hasG = true
		}
	}
	class := ""
	if w == "then" {
		class = "" // (was a defect, fixed in /repo)
	}
	if !hasL {
		verifViolation(class, "a visible local whose name starts with the typed text is not offered when that text spells a reserved word")
	}
	if !hasG {
		verifViolation(class, "a global whose name starts with the typed text is not offered when that text spells a reserved word")
	}
}
