//gosx:package langserver
package langserver

import (
	"luahelper-lsp/langserver/check"
	"luahelper-lsp/langserver/check/common"
	"strconv"
)

// C14-b: "every global of the workspace" follows the workspace: after any history of watched-file events
// (files with globals created, rewritten, deleted and re-created next to the file of the request), the
// bare prefix `v` completed in a.lua offers every global that a file now on disk defines. Files live in the
// virtual file system, the event handler and its worker pools are the real ones.
func VerifRun_C14b() {
	root := verifVFSRoot()
	dm := common.GConfig.GetDirManager()
	dm.SetVSRootDir(root)
	dm.InitMainDir()
	a, b, c := root+"/a.lua", root+"/b.lua", root+"/sub/c.lua"
	verifVFSPut(a, []byte("va = 1\nq = v\n"))
	p := check.CreateAllProject([]string{a}, nil, nil)
	p.HandleCheck()
	// what each file currently defines ("" when it is not on disk)
	bDef, cDef := "", ""
	for k := 0; k < verifParam("STEPS"); k++ {
		switch verifConcretize(verifRange("act"+strconv.Itoa(k), 0, 5)) {
		case 0: // b created with a global variable and a global function
			verifVFSPut(b, []byte("vp = 1\nfunction vq() end\nlocal vt = 1\n"))
			bDef = "pq"
			p.HandleFileEventChanges([]check.FileEventStruct{{StrFile: b, Type: check.FileEventCreated}})
		case 1: // b rewritten on disk: other globals
			if bDef == "" {
				return
			}
			verifVFSPut(b, []byte("vr = 1\n_G.vs = 2\n"))
			bDef = "rs"
			p.HandleFileEventChanges([]check.FileEventStruct{{StrFile: b, Type: check.FileEventChanged}})
		case 2: // b deleted
			if bDef == "" {
				return
			}
			verifVFSDel(b)
			bDef = ""
			p.HandleFileEventChanges([]check.FileEventStruct{{StrFile: b, Type: check.FileEventDeleted}})
		case 3: // c created in a sub-directory
			verifVFSPut(c, []byte("vx = function() end\n"))
			cDef = "x"
			p.HandleFileEventChanges([]check.FileEventStruct{{StrFile: c, Type: check.FileEventCreated}})
		case 4: // b and c created in one batch
			verifVFSPut(b, []byte("vp = 1\nfunction vq() end\nlocal vt = 1\n"))
			verifVFSPut(c, []byte("vx = function() end\n"))
			bDef, cDef = "pq", "x"
			p.HandleFileEventChanges([]check.FileEventStruct{{StrFile: c, Type: check.FileEventCreated}, {StrFile: b, Type: check.FileEventCreated}})
		case 5: // a itself touched
			p.HandleFileEventChanges([]check.FileEventStruct{{StrFile: a, Type: check.FileEventChanged}})
		}
	}
	cv, ok := getComplelteStruct("v", 1, 5)
	if !ok {
		verifViolation("", "harness: completion request not accepted")
		return
	}
	p.ClearCompleteCache()
	p.CodeComplete(a, cv)
	items := p.GetCompleteCacheItems()
	var labels []string
	for i := range items {
		labels = append(labels, items[i].Label)
	}
	verifReach("completed")
	verifObserve("state", bDef+"|"+cDef)
	want := "a" + bDef + cDef
	for i := 0; i < len(want); i++ {
		if !c14has(labels, "v"+want[i:i+1]) {
			verifViolation("", "a global defined by a file that a watched-file event announced is not offered")
			break
		}
	}
	if c14has(labels, "vt") {
		verifViolation("", "a local of another file is offered")
	}
}
