//gosx:package langserver
package langserver

import "luahelper-lsp/langserver/check"

// C14: completing the bare prefix "v" at an insertion point offers every visible local / parameter /
// loop variable and every workspace global starting with it, and no local that is declared later or in
// a block that does not enclose the cursor. Byte 0x0f marks expression positions (initialisers, loop
// headers): chosen -> `v`, otherwise `0`.
//
// Templates: bytes 1..9 are name holes (each declared name is "v" + one symbolic byte over {a,b,c}:
// equal names create shadowing); byte 0x0e marks candidate insertion points: the chosen one becomes the
// statement `q = v` (a valid program: the cursor sits right after the v), the others vanish.
var c14Templates = []string{
	/* 0 */ "\x0e\nlocal v\x01 = 1\n\x0e\nlocal v\x02 = 2\n\x0e\n",
	/* 1 */ "local v\x01 = 1\ndo\n \x0e\n local v\x02 = 2\n \x0e\nend\n\x0e\n",
	/* 2 */ "local function v\x01(v\x02, v\x03)\n \x0e\n local v\x04 = 1\n \x0e\nend\n\x0e\n",
	/* 3 */ "for v\x01 = 1, 2 do\n \x0e\nend\n\x0e\nfor v\x02, v\x03 in pairs(t) do\n \x0e\nend\n\x0e\n",
	/* 4 */ "v\x01 = 1\nlocal v\x02 = 1\nif k then\n local v\x03 = 1\n \x0e\nelse\n local v\x04 = 1\n \x0e\nend\n\x0e\n",
	/* 5 */ "local v\x01 = 1\nlocal f = function(v\x02)\n return function()\n  \x0e\n end\nend\n\x0e\nv\x03 = 2\n",
	/* 6 */ "do local v\x01 = 1 \x0e end do local v\x02 = 2 \x0e end \x0e\n",
	/* 7 */ "repeat\n local v\x01 = 1\n \x0e\nuntil k\n\x0e\nwhile k do\n local v\x02 = 1\n \x0e\nend\n\x0e\n",
	/* 8 */ "local v\x01 = 1\nlocal v\x02 = \x0f\nlocal v\x03 = 2\n",
	/* 9 */ "local v\x01 = 1\nfor v\x02 = \x0f, 2 do\n \x0e\nend\n",
	/* 10 */ "local v\x01 = 1\nfor v\x02, v\x03 in pairs(\x0f) do\n \x0e\nend\n",
	/* 11 */ "local v\x01 = 1\nlocal function v\x02(v\x03)\n return \x0f\nend\nlocal v\x04 = function(v\x05) return \x0f end\n",
	// globals defined through the explicit global table, in the file of the request
	/* 12 */ "_G.v\x01 = 1\nfunction _G.v\x02() end\n\x0e\nlocal v\x03 = 1\n\x0e\nfunction f()\n \x0e\nend\n",
	/* 13 */ "\x0e\nv\x01 = 1\n_G.v\x02 = 2\n\x0e\n",
	// the until condition sees the locals of the repeat body (also from a closure written in the condition)
	/* 14 */ "local v\x01 = 0\nrepeat\n local v\x02 = 1\nuntil \x0f\n\x0e\n",
	/* 15 */ "repeat local v\x01 = 1 until \x0f\n",
	/* 16 */ "local v\x01 = 0\nrepeat\n local v\x02 = 1\nuntil (function(v\x03) return \x0f end)()\n",
	// callbacks in a call chain written over several lines (one in the prefix call, one in the arguments)
	/* 17 */ "local v\x01 = 0\nlocal r = o:map(function(v\x02)\n local v\x03 = 1\n \x0e\nend):filter(function(v\x04)\n \x0e\nend)\n\x0e\n",
	/* 18 */ "return mk(function(v\x01, v\x02)\n if k then\n  local v\x03 = 1\n  \x0e\n end\nend)(function(v\x04)\n \x0e\nend)\n",
	// function values in a table constructor: under a name, a computed key, an index and a string key
	/* 19 */ "local v\x01 = 0\nlocal h = {\n on = function(v\x02)\n  return \x0f\n end,\n [E.OPEN] = function(v\x02, v\x03)\n  local v\x04 = 1\n  return \x0f\n end,\n [k + 1] = function(v\x03) return \x0f end,\n [\"s\"] = function(v\x04) return \x0f end,\n}\nlocal z = \x0f\n",
}

// a second file of the workspace: plain and _G-qualified globals (all must be offered) and a local (never)
const c14other = "vp = 1\n_G.vq = 2\nfunction _G.vr() end\nfunction vs() end\nlocal vt = 3\nlocal function vu() end\n"


// expression contexts the prefix is typed in: the text between `q = ` and the prefix, and the text after
// the cursor that closes it. None of them changes which names are visible.
var c14Contexts = [][2]string{
	{"", ""},
	{"f(", ")"},
	{"f(1, ", ")"},
	{"\"x\"..", ""},
	{"\"x\" .. ", ""},
	{"{}..", ""},
	{"w ..", ""},
	{"w..", ""},
	{"f(x)..", ""},
	{"1 + ", ""},
	{"1+", ""},
	{"-", ""},
	{"not ", ""},
	{"#", ""},
	{"(", ")"},
	{"{", "}"},
	{"{ k = ", " }"},
	{"{ 1,", "}"},
	{"t[", "]"},
	{"w and ", ""},
	{"w == ", ""},
	{"w<", ""},
	{"w or(", ")"},
	{"2^", ""},
	{"1 //", ""},
	{"w~=", ""},
	// text that looks like a comment opener or a long bracket inside a string earlier on the line
	{"\"--\" .. ", ""},
	{"f(\"a--b\", ", ")"},
	{"'[[' .. ", ""},
}

func c14has(list []string, n string) bool {
	for _, x := range list {
		if x == n {
			return true
		}
	}
	return false
}

func VerifRun_C14() {
	ti := verifConcretize(verifRange("template", verifParam("TMIN"), verifParam("TMAX")))
	t := []byte(c14Templates[ti])
	npoints := 0
	for _, c := range t {
		if c == 0x0e || c == 0x0f {
			npoints++
		}
	}
	pick := verifConcretize(verifRange("point", 0, npoints-1))
	var src []byte
	var names [10]byte
	var have [10]bool
	k := 0
	cursor := -1
	inExp := false
	for _, c := range t {
		switch {
		case c == 0x0e:
			if k == pick {
				ci := 0
				if nctx := verifParam("CTX"); nctx > 1 {
					ci = verifConcretize(verifRange("ctx", 0, nctx-1))
				}
				src = append(src, []byte("q = "+c14Contexts[ci][0]+"v")...)
				cursor = len(src)
				src = append(src, []byte(c14Contexts[ci][1])...)
			}
			k++
		case c == 0x0f: // expression position
			if k == pick {
				src = append(src, 'v')
				cursor = len(src)
				inExp = true
			} else {
				src = append(src, '0')
			}
			k++
		case c >= 1 && c <= 9:
			if !have[c] {
				names[c] = verifByteIn("n"+string([]byte{'0' + c}), "abc")
				have[c] = true
			}
			src = append(src, names[c])
		default:
			src = append(src, c)
		}
	}
	line, col := 0, 0
	for i := 0; i < cursor; i++ {
		if src[i] == '\n' {
			line++
			col = 0
		} else {
			col++
		}
	}
	file := "/w/a.lua"
	files := []string{file}
	srcs := [][]byte{src}
	if verifParam("OTHER") == 1 {
		files = append(files, "/w/b.lua")
		srcs = append(srcs, []byte(c14other))
	}
	p := check.VpProject(files, srcs)
	visible, allLocals, globals, ownStmt, found := check.VpScopeAt(p, []string{file}, "v")
	// globals defined as _G.<name> (the reference binder only sees bare names)
	for i := 0; i+4 < len(src); i++ {
		if src[i] == '_' && src[i+1] == 'G' && src[i+2] == '.' && src[i+3] == 'v' {
			globals = append(globals, string(src[i+3:i+5]))
		}
	}
	if verifParam("OTHER") == 1 {
		globals = append(globals, "vp", "vq", "vr", "vs")
	}
	if !found {
		verifViolation("", "harness: probe identifier not found by the reference binder")
		return
	}
	pre, split := getCompeletePreStr(src, cursor)
	if pre != "v" {
		verifViolation("", "the completion prefix extracted at the cursor is not the typed identifier")
		return
	}
	cv, ok := getComplelteStruct(pre, line, col)
	if !ok {
		verifViolation("", "the typed identifier prefix is not accepted as a completion request")
		return
	}
	cv.SplitByte = split
	p.ClearCompleteCache()
	p.CodeComplete(file, cv)
	items := p.GetCompleteCacheItems()
	var labels []string
	for i := range items {
		labels = append(labels, items[i].Label)
	}
	verifReach("completed")
	for _, n := range visible {
		if len(n) == 2 && n[0] == 'v' && !c14has(labels, n) {
			verifViolation("", "a local / parameter / loop variable visible at the cursor is not offered")
			break
		}
	}
	for _, g := range globals {
		if len(g) == 2 && g[0] == 'v' && !c14has(labels, g) {
			verifViolation("", "a workspace global with the typed prefix is not offered")
			break
		}
	}
	if verifParam("OTHER") == 1 && (c14has(labels, "vt") || c14has(labels, "vu")) {
		verifViolation("", "a local of another file is offered")
	}
	for _, n := range allLocals {
		if len(n) == 2 && n[0] == 'v' && !c14has(visible, n) && !c14has(globals, n) && c14has(labels, n) {
			class := ""
			if inExp && c14has(ownStmt, n) {
				class = "C14-own-statement"
			}
			verifViolation(class, "a local that is declared later or in a block that does not enclose the cursor is offered")
			break
		}
	}
}

func VerifSetup_C14() { check.VerifSetup_Pipe() }
