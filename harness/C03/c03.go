//gosx:package langserver/check/compiler/parser
package parser

import "luahelper-lsp/langserver/check/compiler/lexer"

// C03: the real lexer+parser report at least one syntax error exactly when the reference recogniser
// (ref.go) rejects the text.

func c03class(f *rxFeatures, refOK bool, gotErr bool) string {
	switch {
	case f.hexNoDigit && !refOK && !gotErr:
		return "C03-hex-no-digit"
	case f.gluedNumeral && !refOK && !gotErr:
		return "C03-numeral-glued"
	case f.badEscape && !refOK && !gotErr:
		return "C03-bad-escape"
	}
	return ""
}

func c03compare(src []byte) {
	var f rxFeatures
	refOK := rxValid(src, &f)
	_, _, errs := CreateParser(src, "x.lua").BeginAnalyze()
	gotErr := len(errs) > 0
	if refOK {
		verifReach("valid")
	} else {
		verifReach("invalid")
	}
	if refOK && gotErr {
		verifViolation(c03class(&f, refOK, gotErr), "valid Lua is flagged with a syntax error")
	}
	if !refOK && !gotErr {
		verifViolation(c03class(&f, refOK, gotErr), "invalid Lua is reported clean")
	}
}

// d: whole bytes
func VerifRun_C03d() {
	c03compare(verifBytes("src", verifParam("N")))
}

// b: numerals — `a=` followed by N bytes over the numeral alphabet
func VerifRun_C03b() {
	body := verifBytesIn("num", verifParam("N"), "019aefxXpPE.+-uUlL_g")
	src := append([]byte("a="), body...)
	src = append(src, '\n')
	c03compare(src)
}

// c: strings and comments — `a=` followed by N bytes over the string/comment alphabet
func VerifRun_C03c() {
	body := verifBytesIn("str", verifParam("N"), "\"'\\nzx1a[]=-\n\r")
	// in expression position (strings), after a complete statement (comments between tokens), or inside a
	// short string after a backslash
	prefix := "a="
	suffix := ""
	switch verifConcretize(verifRange("context", 0, 3)) {
	case 1:
		prefix = "a=1 "
	case 2:
		prefix = "a=\"\\" // inside a short string, right after a backslash (escapes, line continuations)
	case 3:
		// right after `--[` (a long comment only if a level and a second bracket follow), with an index
		// expression further down in the file
		prefix, suffix = "a=1 --[", "\nb=t[1]\n"
	}
	src := append(append([]byte(prefix), body...), []byte(suffix)...)
	c03compare(src)
}

// e: the last token of the file - operators, `...` and `::` made of several characters must be recognised
// when they are the final bytes of the text
var c03ePrefixes = []string{"return ", "::a", "x=a", "local function f(...) return a", "x=1 goto a ::a"}

func VerifRun_C03e() {
	pi := verifConcretize(verifRange("prefix", 0, len(c03ePrefixes)-1))
	tail := verifBytesIn("tail", verifParam("N"), ".:a=~<>/ \n")
	c03compare(append([]byte(c03ePrefixes[pi]), tail...))
}

// f: local attributes - every combination of <const>, <close>, no attribute and an unknown attribute over a
// three-name local statement (at most one <close> per statement, in any position)
func VerifRun_C03f() {
	attrs := []string{"", " <const>", " <close>", " <cons>", "<const>", "<close >"}
	src := "local"
	for i := 0; i < 3; i++ {
		if i > 0 {
			src += ","
		}
		src += " v" + string([]byte{'a' + byte(i)}) + attrs[verifConcretize(verifRange("attr", 0, len(attrs)-1))]
	}
	switch verifConcretize(verifRange("tail", 0, 2)) {
	case 0:
		src += " = 1, 2, f()\n"
	case 1:
		src += "\n"
	case 2:
		src += " = io.open(p)\nlocal z <close> = nil\n"
	}
	c03compare([]byte(src))
}

var _ = lexer.TkEOF

// a: token level — K symbolic token kinds served to the real parser (lexer overridden), compared with
// the reference parser on the same kinds.
func VerifRun_C03a() {
	k := verifParam("K")
	toks := make([]lexer.TkKind, k)
	ref := make([]rxTok, k)
	for i := range toks {
		v := verifRange("k", 2, 59) // every kind except ILLEGAL and EOF
		toks[i] = lexer.TkKind(v)
	}
	lexer.VerifTokens = toks
	lexer.VerifPos = 0
	p := CreateParser([]byte{}, "x.lua")
	_, _, errs := p.BeginAnalyze()
	for i := range toks {
		ref[i] = rxTok{k: toks[i], attr: i > 0 && toks[i-1] == lexer.TkOpLt}
	}
	var f rxFeatures
	refOK := rxParse(ref, &f)
	gotErr := len(errs) > 0
	if refOK {
		verifReach("valid")
	} else {
		verifReach("invalid")
	}
	if refOK && gotErr {
		verifViolation(c03class(&f, refOK, gotErr), "a valid token sequence is flagged with a syntax error")
	}
	if !refOK && !gotErr {
		verifViolation(c03class(&f, refOK, gotErr), "an invalid token sequence is reported clean")
	}
}

// a2: the same token-level comparison with the K symbolic kinds placed inside a syntactic context (the
// grammar's list constructs need more tokens than job a can afford around them): parameter lists, table
// constructors, call arguments, for headers, local statements, if blocks, return lists, method definitions,
// the target list of a multiple assignment.
var c03ctx = [][2][]lexer.TkKind{
	{{lexer.TkKwFunction, lexer.TkIdentifier, lexer.TkSepLparen}, {lexer.TkSepRparen, lexer.TkKwEnd}},
	{{lexer.TkIdentifier, lexer.TkOpAssign, lexer.TkSepLcurly}, {lexer.TkSepRcurly}},
	{{lexer.TkIdentifier, lexer.TkSepLparen}, {lexer.TkSepRparen}},
	{{lexer.TkKwFor}, {lexer.TkKwDo, lexer.TkKwEnd}},
	{{lexer.TkKwLocal}, {}},
	{{lexer.TkKwIf, lexer.TkIdentifier, lexer.TkKwThen}, {lexer.TkKwEnd}},
	{{lexer.TkKwReturn}, {}},
	{{lexer.TkKwFunction, lexer.TkIdentifier}, {lexer.TkSepLparen, lexer.TkSepRparen, lexer.TkKwEnd}},
	{{lexer.TkIdentifier, lexer.TkOpAssign, lexer.TkKwFunction, lexer.TkSepLparen, lexer.TkIdentifier}, {lexer.TkSepRparen, lexer.TkKwEnd}},
	// the later targets of a multiple assignment
	{{lexer.TkIdentifier, lexer.TkSepComma}, {lexer.TkOpAssign, lexer.TkNumber}},
}

func VerifRun_C03a2() {
	k := verifParam("K")
	ci := verifConcretize(verifRange("ctx", 0, len(c03ctx)-1))
	toks := append([]lexer.TkKind{}, c03ctx[ci][0]...)
	for i := 0; i < k; i++ {
		toks = append(toks, lexer.TkKind(verifRange("k", 2, 59)))
	}
	toks = append(toks, c03ctx[ci][1]...)
	lexer.VerifTokens = toks
	lexer.VerifPos = 0
	p := CreateParser([]byte{}, "x.lua")
	_, _, errs := p.BeginAnalyze()
	ref := make([]rxTok, len(toks))
	for i := range toks {
		ref[i] = rxTok{k: toks[i], attr: i > 0 && toks[i-1] == lexer.TkOpLt}
	}
	var f rxFeatures
	refOK := rxParse(ref, &f)
	gotErr := len(errs) > 0
	if refOK {
		verifReach("valid")
	} else {
		verifReach("invalid")
	}
	if refOK && gotErr {
		verifViolation(c03class(&f, refOK, gotErr), "a valid token sequence is flagged with a syntax error")
	}
	if !refOK && !gotErr {
		verifViolation(c03class(&f, refOK, gotErr), "an invalid token sequence is reported clean")
	}
}
