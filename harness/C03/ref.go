//gosx:package langserver/check/compiler/parser
package parser

import "luahelper-lsp/langserver/check/compiler/lexer"

// Reference recogniser for Lua 5.3/5.4 (+ LuaJIT LL/ULL numerals), written from the reference manual
// (sections 3.1 and 9) — independent of LuaHelper's lexer and parser. Only the numbering of the token
// kinds is shared (lexer.TkKind) so that the token-level harness needs no mapping.
//
// rxLex turns bytes into token kinds (ok=false on a lexical error); rxParse decides whether a token
// sequence is a chunk. Feature flags record constructs that the known-finding classes are defined on.

type rxFeatures struct {
	parenAssign  bool // an assignment target is a parenthesised expression: (a) = 1
	badEscape    bool // a short string contains an invalid escape sequence
	hugeFloat    bool // a decimal float whose exponent has 3 or more digits
	attrib       bool // a local attribute <name>
	gotoOrLabel  bool
	gluedNumeral bool // a malformed numeral candidate of which a proper prefix is a valid numeral directly followed by a letter or underscore (1x, 2_, 3g): Lua reads it as one malformed number
	hexNoDigit   bool // numeral with a 0x prefix and no hex digit at all (0x. 0xp 0xl ...)
	callAssign   bool // an assignment target is a call: f() = 1
	intDivOrBit  bool // //, &, |, ~, <<, >> operators
}

type rxTok struct {
	k    lexer.TkKind
	attr bool // for identifiers: spelled "const" or "close"
	clos bool // for identifiers: spelled "close"
}

func rxIsSpace(c byte) bool { return c == ' ' || c == '\t' || c == '\n' || c == '\r' || c == '\v' || c == '\f' }
func rxIsDigit(c byte) bool { return c >= '0' && c <= '9' }
func rxIsHex(c byte) bool   { return rxIsDigit(c) || (c >= 'a' && c <= 'f') || (c >= 'A' && c <= 'F') }
func rxIsAlpha(c byte) bool { return (c >= 'a' && c <= 'z') || (c >= 'A' && c <= 'Z') || c == '_' }

var rxKeywords = map[string]lexer.TkKind{
	"and": lexer.TkOpAnd, "break": lexer.TkKwBreak, "do": lexer.TkKwDo, "else": lexer.TkKwElse, "elseif": lexer.TkKwElseif,
	"end": lexer.TkKwEnd, "false": lexer.TkKwFalse, "for": lexer.TkKwFor, "function": lexer.TkKwFunction, "goto": lexer.TkKwGoto,
	"if": lexer.TkKwIf, "in": lexer.TkKwIn, "local": lexer.TkKwLocal, "nil": lexer.TkKwNil, "not": lexer.TkOpNot, "or": lexer.TkOpOr,
	"repeat": lexer.TkKwRepeat, "return": lexer.TkKwReturn, "then": lexer.TkKwThen, "true": lexer.TkKwTrue, "until": lexer.TkKwUntil,
	"while": lexer.TkKwWhile,
}

// rxLongBracket: at s[i] == '[', returns the level and the index after the opening bracket, or -1.
func rxLongBracket(s []byte, i int) (level int, next int) {
	j := i + 1
	for j < len(s) && s[j] == '=' {
		j++
	}
	if j < len(s) && s[j] == '[' {
		return j - i - 1, j + 1
	}
	return -1, i
}

// rxSkipLong skips to after the closing bracket of the given level; ok=false if unterminated.
func rxSkipLong(s []byte, i int, level int) (int, bool) {
	for i < len(s) {
		if s[i] == ']' {
			j := i + 1
			n := 0
			for j < len(s) && s[j] == '=' {
				j++
				n++
			}
			if n == level && j < len(s) && s[j] == ']' {
				return j + 1, true
			}
		}
		i++
	}
	return i, false
}

// rxNumeral validates a numeral candidate (maximal run already cut by the caller).
func rxNumeral(t []byte, f *rxFeatures) bool {
	n := len(t)
	// LuaJIT integer suffixes
	low := func(c byte) byte {
		if c >= 'A' && c <= 'Z' {
			return c + 32
		}
		return c
	}
	hex := n >= 2 && t[0] == '0' && low(t[1]) == 'x'
	body := t
	suffix := 0
	if n >= 3 && low(t[n-1]) == 'l' && low(t[n-2]) == 'l' {
		suffix = 2
		if n >= 4 && low(t[n-3]) == 'u' {
			suffix = 3
		}
		body = t[:n-suffix]
	}
	i := 0
	if hex {
		i = 2
		nd := 0
		for i < len(body) && rxIsHex(body[i]) {
			i++
			nd++
		}
		if suffix > 0 {
			if nd == 0 {
				f.hexNoDigit = true
			}
			return nd > 0 && i == len(body)
		}
		if i < len(body) && body[i] == '.' {
			i++
			for i < len(body) && rxIsHex(body[i]) {
				i++
				nd++
			}
		}
		if nd == 0 {
			f.hexNoDigit = true
			return false
		}
		if i < len(body) && low(body[i]) == 'p' {
			i++
			if i < len(body) && (body[i] == '+' || body[i] == '-') {
				i++
			}
			ne := 0
			for i < len(body) && rxIsDigit(body[i]) {
				i++
				ne++
			}
			if ne == 0 {
				return false
			}
		}
		return i == len(body)
	}
	nd := 0
	for i < len(body) && rxIsDigit(body[i]) {
		i++
		nd++
	}
	if suffix > 0 {
		return nd > 0 && i == len(body)
	}
	if i < len(body) && body[i] == '.' {
		i++
		for i < len(body) && rxIsDigit(body[i]) {
			i++
			nd++
		}
	}
	if nd == 0 {
		return false
	}
	if i < len(body) && low(body[i]) == 'e' {
		i++
		if i < len(body) && (body[i] == '+' || body[i] == '-') {
			i++
		}
		ne := 0
		for i < len(body) && rxIsDigit(body[i]) {
			i++
			ne++
		}
		if ne == 0 {
			return false
		}
		if ne >= 3 {
			f.hugeFloat = true
		}
	}
	return i == len(body)
}

// rxLex tokenises s; ok=false on a lexical error.
func rxLex(s []byte, f *rxFeatures) (toks []rxTok, ok bool) {
	i := 0
	// a UTF-8 byte order mark at the very beginning is skipped (luaL_loadfilex: skipBOM)
	if len(s) >= 3 && s[0] == 0xEF && s[1] == 0xBB && s[2] == 0xBF {
		i = 3
	}
	// a first line starting with '#' is skipped (shebang); the line ends at LF or CR
	if i < len(s) && s[i] == '#' {
		for i < len(s) && s[i] != '\n' && s[i] != '\r' {
			i++
		}
	}
	for i < len(s) {
		c := s[i]
		switch {
		case rxIsSpace(c):
			i++
		case c == '-' && i+1 < len(s) && s[i+1] == '-':
			i += 2
			if i < len(s) && s[i] == '[' {
				if lv, nx := rxLongBracket(s, i); lv >= 0 {
					var okc bool
					i, okc = rxSkipLong(s, nx, lv)
					if !okc {
						return nil, false
					}
					continue
				}
			}
			for i < len(s) && s[i] != '\n' && s[i] != '\r' {
				i++
			}
		case rxIsAlpha(c):
			j := i
			for j < len(s) && (rxIsAlpha(s[j]) || rxIsDigit(s[j])) {
				j++
			}
			w := string(s[i:j])
			if k, isKw := rxKeywords[w]; isKw {
				toks = append(toks, rxTok{k: k})
			} else {
				toks = append(toks, rxTok{k: lexer.TkIdentifier, attr: w == "const" || w == "close", clos: w == "close"})
			}
			i = j
		case rxIsDigit(c) || (c == '.' && i+1 < len(s) && rxIsDigit(s[i+1])):
			j := i
			hex := c == '0' && i+1 < len(s) && (s[i+1] == 'x' || s[i+1] == 'X')
			for j < len(s) {
				d := s[j]
				if rxIsAlpha(d) || rxIsDigit(d) || d == '.' {
					j++
					continue
				}
				if (d == '+' || d == '-') && j > i {
					p := s[j-1]
					if (!hex && (p == 'e' || p == 'E')) || (hex && (p == 'p' || p == 'P')) {
						j++
						continue
					}
				}
				break
			}
			if !rxNumeral(s[i:j], f) {
				// class predicate: some proper prefix is a valid numeral and is immediately followed by a letter or underscore
				for k := i + 1; k < j; k++ {
					var scratch rxFeatures
					if rxIsAlpha(s[k]) && rxNumeral(s[i:k], &scratch) {
						f.gluedNumeral = true
					}
				}
				return nil, false
			}
			toks = append(toks, rxTok{k: lexer.TkNumber})
			i = j
		case c == '"' || c == '\'':
			j := i + 1
			closed := false
			for j < len(s) {
				d := s[j]
				if d == c {
					closed = true
					j++
					break
				}
				if d == '\n' || d == '\r' {
					break
				}
				if d != '\\' {
					j++
					continue
				}
				j++
				if j >= len(s) {
					break
				}
				e := s[j]
				switch {
				case e == 'a' || e == 'b' || e == 'f' || e == 'n' || e == 'r' || e == 't' || e == 'v' || e == '\\' || e == '"' || e == '\'':
					j++
				case e == '\n' || e == '\r':
					j++
					if j < len(s) && (s[j] == '\n' || s[j] == '\r') && s[j] != e {
						j++
					}
				case e == 'z':
					j++
					for j < len(s) && rxIsSpace(s[j]) {
						j++
					}
				case e == 'x':
					if j+2 < len(s) && rxIsHex(s[j+1]) && rxIsHex(s[j+2]) {
						j += 3
					} else {
						f.badEscape = true
						j++
					}
				case rxIsDigit(e):
					n := 0
					for n < 3 && j < len(s) && rxIsDigit(s[j]) {
						j++
						n++
					}
				case e == 'u':
					// \u{XXX}
					k := j + 1
					if k < len(s) && s[k] == '{' {
						k++
						nd := 0
						for k < len(s) && rxIsHex(s[k]) {
							k++
							nd++
						}
						if nd > 0 && k < len(s) && s[k] == '}' {
							j = k + 1
							continue
						}
					}
					f.badEscape = true
					j++
				default:
					f.badEscape = true
					j++
				}
			}
			if !closed || f.badEscape {
				return nil, false
			}
			toks = append(toks, rxTok{k: lexer.TkString})
			i = j
		case c == '[':
			if lv, nx := rxLongBracket(s, i); lv >= 0 {
				var okc bool
				i, okc = rxSkipLong(s, nx, lv)
				if !okc {
					return nil, false
				}
				toks = append(toks, rxTok{k: lexer.TkString})
				continue
			}
			toks = append(toks, rxTok{k: lexer.TkSepLbrack})
			i++
		default:
			two := byte(0)
			if i+1 < len(s) {
				two = s[i+1]
			}
			k := lexer.IKIllegal
			n := 1
			switch c {
			case '+':
				k = lexer.TkOpAdd
			case '-':
				k = lexer.TkOpMinus
			case '*':
				k = lexer.TkOpMul
			case '/':
				k = lexer.TkOpDiv
				if two == '/' {
					k, n = lexer.TkOpIdiv, 2
				}
			case '%':
				k = lexer.TkOpMod
			case '^':
				k = lexer.TkOpPow
			case '#':
				k = lexer.TkOpNen
			case '&':
				k = lexer.TkOpBand
			case '|':
				k = lexer.TkOpBor
			case '~':
				k = lexer.TkOpWave
				if two == '=' {
					k, n = lexer.TkOpNe, 2
				}
			case '<':
				k = lexer.TkOpLt
				if two == '=' {
					k, n = lexer.TkOpLe, 2
				} else if two == '<' {
					k, n = lexer.TkOpShl, 2
				}
			case '>':
				k = lexer.TkOpGt
				if two == '=' {
					k, n = lexer.TkOpGe, 2
				} else if two == '>' {
					k, n = lexer.TkOpShr, 2
				}
			case '=':
				k = lexer.TkOpAssign
				if two == '=' {
					k, n = lexer.TkOpEq, 2
				}
			case '(':
				k = lexer.TkSepLparen
			case ')':
				k = lexer.TkSepRparen
			case '{':
				k = lexer.TkSepLcurly
			case '}':
				k = lexer.TkSepRcurly
			case ']':
				k = lexer.TkSepRbrack
			case ';':
				k = lexer.TkSepSemi
			case ':':
				k = lexer.TkSepColon
				if two == ':' {
					k, n = lexer.TkSepLabel, 2
				}
			case ',':
				k = lexer.TkSepComma
			case '.':
				k = lexer.TkSepDot
				if two == '.' {
					k, n = lexer.TkOpConcat, 2
					if i+2 < len(s) && s[i+2] == '.' {
						k, n = lexer.TkVararg, 3
					}
				}
			}
			if k == lexer.IKIllegal {
				return nil, false
			}
			toks = append(toks, rxTok{k: k})
			i += n
		}
	}
	return toks, true
}

// ---------------------------------------------------------------- parser

type rxP struct {
	t   []rxTok
	i   int
	bad bool
	f   *rxFeatures
}

func (p *rxP) peek() lexer.TkKind {
	if p.i < len(p.t) {
		return p.t[p.i].k
	}
	return lexer.TkEOF
}

func (p *rxP) next() { p.i++ }

func (p *rxP) accept(k lexer.TkKind) bool {
	if p.peek() == k {
		p.i++
		return true
	}
	return false
}

func (p *rxP) expect(k lexer.TkKind) {
	if !p.accept(k) {
		p.bad = true
	}
}

func rxBlockEnd(k lexer.TkKind) bool {
	return k == lexer.TkEOF || k == lexer.TkKwEnd || k == lexer.TkKwElse || k == lexer.TkKwElseif || k == lexer.TkKwUntil
}

func (p *rxP) block() {
	for !p.bad && !rxBlockEnd(p.peek()) {
		if p.peek() == lexer.TkKwReturn {
			p.next()
			if !rxBlockEnd(p.peek()) && p.peek() != lexer.TkSepSemi {
				p.explist()
			}
			p.accept(lexer.TkSepSemi)
			if !rxBlockEnd(p.peek()) {
				p.bad = true
			}
			return
		}
		p.stat()
	}
}

func (p *rxP) stat() {
	switch p.peek() {
	case lexer.TkSepSemi:
		p.next()
	case lexer.TkKwBreak:
		p.next()
	case lexer.TkSepLabel:
		p.f.gotoOrLabel = true
		p.next()
		p.expect(lexer.TkIdentifier)
		p.expect(lexer.TkSepLabel)
	case lexer.TkKwGoto:
		p.f.gotoOrLabel = true
		p.next()
		p.expect(lexer.TkIdentifier)
	case lexer.TkKwDo:
		p.next()
		p.block()
		p.expect(lexer.TkKwEnd)
	case lexer.TkKwWhile:
		p.next()
		p.exp()
		p.expect(lexer.TkKwDo)
		p.block()
		p.expect(lexer.TkKwEnd)
	case lexer.TkKwRepeat:
		p.next()
		p.block()
		p.expect(lexer.TkKwUntil)
		p.exp()
	case lexer.TkKwIf:
		p.next()
		p.exp()
		p.expect(lexer.TkKwThen)
		p.block()
		for !p.bad && p.peek() == lexer.TkKwElseif {
			p.next()
			p.exp()
			p.expect(lexer.TkKwThen)
			p.block()
		}
		if p.accept(lexer.TkKwElse) {
			p.block()
		}
		p.expect(lexer.TkKwEnd)
	case lexer.TkKwFor:
		p.next()
		p.expect(lexer.TkIdentifier)
		if p.accept(lexer.TkOpAssign) {
			p.exp()
			p.expect(lexer.TkSepComma)
			p.exp()
			if p.accept(lexer.TkSepComma) {
				p.exp()
			}
		} else {
			for !p.bad && p.accept(lexer.TkSepComma) {
				p.expect(lexer.TkIdentifier)
			}
			p.expect(lexer.TkKwIn)
			p.explist()
		}
		p.expect(lexer.TkKwDo)
		p.block()
		p.expect(lexer.TkKwEnd)
	case lexer.TkKwFunction:
		p.next()
		p.expect(lexer.TkIdentifier)
		for !p.bad && p.accept(lexer.TkSepDot) {
			p.expect(lexer.TkIdentifier)
		}
		if p.accept(lexer.TkSepColon) {
			p.expect(lexer.TkIdentifier)
		}
		p.funcbody()
	case lexer.TkKwLocal:
		p.next()
		if p.accept(lexer.TkKwFunction) {
			p.expect(lexer.TkIdentifier)
			p.funcbody()
			return
		}
		closes := 0
		for {
			p.expect(lexer.TkIdentifier)
			if p.accept(lexer.TkOpLt) {
				p.f.attrib = true
				if p.i < len(p.t) && p.t[p.i].k == lexer.TkIdentifier && !p.t[p.i].attr {
					p.bad = true // only <const> and <close> exist
				}
				if p.i < len(p.t) && p.t[p.i].clos {
					closes++
					if closes > 1 {
						p.bad = true // "multiple to-be-closed variables in local list"
					}
				}
				p.expect(lexer.TkIdentifier)
				p.expect(lexer.TkOpGt)
			}
			if p.bad || !p.accept(lexer.TkSepComma) {
				break
			}
		}
		if p.accept(lexer.TkOpAssign) {
			p.explist()
		}
	default:
		// varlist '=' explist | functioncall
		kind := p.suffixedexp()
		if p.bad {
			return
		}
		if p.peek() == lexer.TkOpAssign || p.peek() == lexer.TkSepComma {
			for {
				if kind == rxParen {
					p.f.parenAssign = true
					p.bad = true
				} else if kind == rxCall {
					p.f.callAssign = true
					p.bad = true
				}
				if !p.accept(lexer.TkSepComma) {
					break
				}
				kind = p.suffixedexp()
				if p.bad {
					return
				}
			}
			p.expect(lexer.TkOpAssign)
			p.explist()
		} else if kind != rxCall {
			p.bad = true // an expression statement must be a call
		}
	}
}

const (
	rxVar = iota
	rxCall
	rxParen
)

// suffixedexp parses primaryexp { '.' Name | '[' exp ']' | ':' Name args | args } and tells its last form.
func (p *rxP) suffixedexp() int {
	kind := rxVar
	switch p.peek() {
	case lexer.TkIdentifier:
		p.next()
	case lexer.TkSepLparen:
		p.next()
		p.exp()
		p.expect(lexer.TkSepRparen)
		kind = rxParen
	default:
		p.bad = true
		return kind
	}
	for !p.bad {
		switch p.peek() {
		case lexer.TkSepDot:
			p.next()
			p.expect(lexer.TkIdentifier)
			kind = rxVar
		case lexer.TkSepLbrack:
			p.next()
			p.exp()
			p.expect(lexer.TkSepRbrack)
			kind = rxVar
		case lexer.TkSepColon:
			p.next()
			p.expect(lexer.TkIdentifier)
			p.args()
			kind = rxCall
		case lexer.TkSepLparen, lexer.TkString, lexer.TkSepLcurly:
			p.args()
			kind = rxCall
		default:
			return kind
		}
	}
	return kind
}

func (p *rxP) args() {
	switch p.peek() {
	case lexer.TkString:
		p.next()
	case lexer.TkSepLcurly:
		p.table()
	case lexer.TkSepLparen:
		p.next()
		if p.peek() != lexer.TkSepRparen {
			p.explist()
		}
		p.expect(lexer.TkSepRparen)
	default:
		p.bad = true
	}
}

func (p *rxP) funcbody() {
	p.expect(lexer.TkSepLparen)
	if p.peek() != lexer.TkSepRparen {
		for !p.bad {
			if p.accept(lexer.TkVararg) {
				break
			}
			p.expect(lexer.TkIdentifier)
			if !p.accept(lexer.TkSepComma) {
				break
			}
		}
	}
	p.expect(lexer.TkSepRparen)
	p.block()
	p.expect(lexer.TkKwEnd)
}

func (p *rxP) table() {
	p.expect(lexer.TkSepLcurly)
	for !p.bad && p.peek() != lexer.TkSepRcurly {
		if p.peek() == lexer.TkSepLbrack {
			p.next()
			p.exp()
			p.expect(lexer.TkSepRbrack)
			p.expect(lexer.TkOpAssign)
			p.exp()
		} else if p.peek() == lexer.TkIdentifier && p.i+1 < len(p.t) && p.t[p.i+1].k == lexer.TkOpAssign {
			p.next()
			p.next()
			p.exp()
		} else {
			p.exp()
		}
		if !p.accept(lexer.TkSepComma) && !p.accept(lexer.TkSepSemi) {
			break
		}
	}
	p.expect(lexer.TkSepRcurly)
}

func (p *rxP) explist() {
	p.exp()
	for !p.bad && p.accept(lexer.TkSepComma) {
		p.exp()
	}
}

func rxIsBinop(k lexer.TkKind) bool {
	switch k {
	case lexer.TkOpAdd, lexer.TkOpMinus, lexer.TkOpMul, lexer.TkOpDiv, lexer.TkOpIdiv, lexer.TkOpPow, lexer.TkOpMod, lexer.TkOpBand,
		lexer.TkOpWave, lexer.TkOpBor, lexer.TkOpShr, lexer.TkOpShl, lexer.TkOpConcat, lexer.TkOpLt, lexer.TkOpLe, lexer.TkOpGt,
		lexer.TkOpGe, lexer.TkOpEq, lexer.TkOpNe, lexer.TkOpAnd, lexer.TkOpOr:
		return true
	}
	return false
}

// exp: precedence does not matter for acceptance: unop* simpleexp { binop exp }
func (p *rxP) exp() {
	if p.bad {
		return
	}
	for p.peek() == lexer.TkOpNot || p.peek() == lexer.TkOpMinus || p.peek() == lexer.TkOpNen || p.peek() == lexer.TkOpWave {
		if p.peek() == lexer.TkOpWave {
			p.f.intDivOrBit = true
		}
		p.next()
	}
	switch p.peek() {
	case lexer.TkKwNil, lexer.TkKwTrue, lexer.TkKwFalse, lexer.TkNumber, lexer.TkString, lexer.TkVararg:
		p.next()
	case lexer.TkSepLcurly:
		p.table()
	case lexer.TkKwFunction:
		p.next()
		p.funcbody()
	default:
		p.suffixedexp()
	}
	if !p.bad && rxIsBinop(p.peek()) {
		switch p.peek() {
		case lexer.TkOpIdiv, lexer.TkOpBand, lexer.TkOpWave, lexer.TkOpBor, lexer.TkOpShr, lexer.TkOpShl:
			p.f.intDivOrBit = true
		}
		p.next()
		p.exp()
	}
}

// rxParse: is the token sequence a chunk?
func rxParse(toks []rxTok, f *rxFeatures) bool {
	p := &rxP{t: toks, f: f}
	p.block()
	return !p.bad && p.peek() == lexer.TkEOF
}

// rxValid: is the text a syntactically valid chunk?
func rxValid(src []byte, f *rxFeatures) bool {
	toks, ok := rxLex(src, f)
	if !ok {
		return false
	}
	return rxParse(toks, f)
}
