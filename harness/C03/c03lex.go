//gosx:package langserver/check/compiler/lexer
package lexer

// Token-level source for the parser harnesses. In the jobs that list the overrides (see spec.json) the
// lexer serves the token kinds of VerifTokens (each with a representative text) instead of scanning bytes.
var VerifTokens []TkKind
var VerifPos int

func (l *Lexer) verifNextTokenStruct() {
	if l.aheadToken.valid {
		l.preToken = l.nowToken
		l.nowToken = l.aheadToken
		l.aheadToken.valid = false
		return
	}
	l.tokenStartPos = l.currentPos
	if VerifPos >= len(VerifTokens) {
		l.setNowToken(TkEOF, "EOF")
		return
	}
	k := VerifTokens[VerifPos]
	txt := "?"
	if k == TkIdentifier {
		txt = "a"
		if VerifPos > 0 && VerifTokens[VerifPos-1] == TkOpLt {
			txt = "const"
		}
	} else if k == TkNumber {
		txt = "1"
	} else if k == TkString {
		txt = "s"
	}
	VerifPos++
	l.currentPos += 2
	l.setNowToken(k, txt)
}

func verifKindString(k TkKind) string {
	return "?"
}
