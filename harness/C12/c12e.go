//gosx:package langserver
package langserver

import (
	"context"
	"luahelper-lsp/langserver/check"
	"luahelper-lsp/langserver/check/common"
	lsp "luahelper-lsp/langserver/protocol"
	"strings"
)

// C12-e: the agreement of definition, references, highlight, hover (and rename, C11) asked through the
// real request handlers on a document opened through the real didOpen handler: each handler has its own
// front end (cursor-to-offset conversion, end-of-buffer guard, "is this a require / an annotation line"
// dispatch) in front of the shared resolver, so the features can disagree at a position although the
// resolver is consistent. Endings as in C05-d: as written, no final newline, a trailing ---@type comment or
// an ordinary trailing comment on a solver-chosen line.

func c12eTail(t string, tail int) (string, bool) {
	switch tail {
	case 1:
		for len(t) > 0 && t[len(t)-1] == '\n' {
			t = t[:len(t)-1]
		}
	case 2, 3:
		nl := 0
		for i := 0; i < len(t); i++ {
			if t[i] == '\n' {
				nl++
			}
		}
		if nl == 0 {
			return t, false
		}
		at := verifConcretize(verifRange("commentLine", 0, nl-1))
		add := " ---@type number"
		if tail == 3 {
			add = " -- note"
		}
		k := 0
		for i := 0; i < len(t); i++ {
			if t[i] == '\n' {
				if k == at {
					t = t[:i] + add + t[i:]
					break
				}
				k++
			}
		}
	}
	return t, true
}

func c12eSameLocs(a, b []lsp.Location) bool {
	if len(a) != len(b) {
		return false
	}
	for i := range a {
		if a[i].URI != b[i].URI || a[i].Range != b[i].Range {
			return false
		}
	}
	return true
}

func VerifRun_C12e() {
	lo, hi := verifParam("TMIN"), verifParam("TMAX")
	ti := verifConcretize(verifRange("template", lo, hi))
	if ti == verifParamOr("TSKIP", -1) {
		return // (a template that only another property's range includes: see known_findings.txt, C05-unspaced-field-value)
	}
	t := check.VpTemplateText(ti)
	tail := verifConcretize(verifRange("tail", 0, verifParam("TAILS")-1))
	t, ok := c12eTail(t, tail)
	if !ok {
		return
	}
	var src []byte
	if verifParam("SYMNAMES") == 1 {
		src = check.VpInstantiate(t, "n")
	} else {
		src = []byte(t)
		for i, c := range src {
			if c >= 1 && c <= 9 {
				src[i] = "abc"[(c-1)%3]
			}
		}
	}
	root := verifVFSRoot()
	file := root + "/a.lua"
	verifVFSPut(file, src)
	c08view = map[string]string{}
	l := c08eServer(root, []string{file})
	ctx := context.Background()
	uri := lsp.DocumentURI("file://" + file)
	_ = l.TextDocumentDidOpen(ctx, lsp.DidOpenTextDocumentParams{TextDocument: lsp.TextDocumentItem{URI: uri, Text: string(src)}})
	f, okf := l.project.GetFirstFileStuct(file)
	if !okf || f == nil || f.FileResult == nil {
		verifViolation("", "harness: the opened file has no analysis result")
		return
	}
	for _, ce := range f.FileResult.CheckErrVec {
		if ce.ErrType == common.CheckErrorSyntax {
			verifViolation("", "harness: template has a syntax error")
			return
		}
	}
	at := func(line, col int) lsp.TextDocumentPositionParams {
		return lsp.TextDocumentPositionParams{TextDocument: lsp.TextDocumentIdentifier{URI: uri}, Position: lsp.Position{Line: uint32(line), Character: uint32(col)}}
	}
	rename := verifParam("RENAME") >= 1
	renameOnly := verifParam("RENAME") == 2 // (registered under C11: only the rename rule)
	l.colorTime = -100                      // (highlight is throttled for three seconds after a change; the questions are asked after that)
	for _, q := range check.VpC12Queries(f) {
		def, _ := l.TextDocumentDefine(ctx, at(q.Line, q.Col))
		refs, _ := l.TextDocumentReferences(ctx, lsp.ReferenceParams{TextDocumentPositionParams: at(q.Line, q.Col)})
		high, _ := l.TextDocumentHighlight(ctx, at(q.Line, q.Col))
		verifReach("position")
		n := 0
		for _, rf := range refs {
			if rf.URI == uri {
				n++
			}
		}
		if !renameOnly {
			c12eAgree(l, ctx, uri, q, def, refs, high, at)
		}
		// (5) C11: the rename edit covers exactly what the references request lists
		if rename {
			edit, err := l.TextDocumentRename(ctx, lsp.RenameParams{TextDocument: lsp.TextDocumentIdentifier{URI: uri}, Position: lsp.Position{Line: uint32(q.Line), Character: uint32(q.Col)}, NewName: "zz"})
			if err == nil {
				verifReach("renamed")
				es := edit.Changes[string(uri)]
				okr := len(es) == n
				for _, e := range es {
					has := false
					for _, rf := range refs {
						if rf.URI == uri && rf.Range == e.Range {
							has = true
						}
					}
					if !has || e.NewText != "zz" {
						okr = false
					}
				}
				if !okr {
					verifViolation(q.Class, "the rename edit differs from the occurrences the references request lists")
				}
			} else if n > 0 && q.Local {
				verifViolation(q.Class, "rename of a local variable with references fails")
			}
		}
	}
	verifReach("done")
}

func c12eAgree(l *LspServer, ctx context.Context, uri lsp.DocumentURI, q check.VpC12Query, def []lsp.Location, refs []lsp.Location, high []lsp.DocumentHighlight, at func(int, int) lsp.TextDocumentPositionParams) {
	{
		// (1) every reference resolves to the same definition as the query position
		for _, rf := range refs {
			if rf.URI != uri {
				continue
			}
			d2, _ := l.TextDocumentDefine(ctx, at(int(rf.Range.Start.Line), int(rf.Range.Start.Character)))
			if !c12eSameLocs(d2, def) {
				verifViolation(q.Class, "a location returned by the references request resolves, via the definition request, to a different declaration than the query position")
				break
			}
		}
		// (2) the query position is among the references of its own declaration
		if len(def) == 1 && def[0].URI == uri {
			rd, _ := l.TextDocumentReferences(ctx, lsp.ReferenceParams{TextDocumentPositionParams: at(int(def[0].Range.Start.Line), int(def[0].Range.Start.Character))})
			found := false
			for _, x := range rd {
				if x.URI == uri && int(x.Range.Start.Line) == q.Line && int(x.Range.Start.Character) == q.Start && int(x.Range.End.Character) == q.Start+q.Width {
					found = true
				}
			}
			if !found {
				verifViolation(q.Class, "the query position is not among the references (request) of its own definition")
			}
		}
		// (3) highlight == references in this file
		n, same := 0, true
		_ = n
		for _, rf := range refs {
			if rf.URI != uri {
				continue
			}
			n++
			has := false
			for _, h := range high {
				if h.Range == rf.Range {
					has = true
				}
			}
			if !has {
				same = false
			}
		}
		if n != len(high) || !same {
			verifObserve("counts", q.Name+" "+itoa12(q.Line)+":"+itoa12(q.Col)+" refs "+itoa12(n)+" high "+itoa12(len(high)))
			verifViolation(q.Class, "the highlight request differs from the references request in the same file")
		}
		// (4) hover names the identifier whenever the definition request finds its declaration, and the
		// features agree on whether there is anything at the position at all
		res, _ := l.TextDocumentHover(ctx, at(q.Line, q.Col))
		h, isHover := res.(MarkupHover)
		if len(def) == 1 {
			verifReach("hover")
			if !isHover || !strings.Contains(h.Contents.Value, q.Name) {
				verifViolation(q.Class, "the hover request does not name the identifier whose declaration the definition request finds")
			} else if strings.HasPrefix(h.Contents.Value, "```lua\nlocal ") != q.Local && q.Class == "" {
				verifViolation(q.Class, "the hover request says local although the identifier is not bound to a local declaration, or the reverse")
			}
		}
		if len(def) == 0 && isHover && strings.HasPrefix(h.Contents.Value, "```lua\nlocal ") {
			verifViolation(q.Class, "the hover request presents a local declaration, the definition request finds nothing at the same position")
		}
		if len(def) == 0 && len(refs) > 0 && q.Local {
			verifViolation(q.Class, "the references request answers for an identifier bound to a local declaration, the definition request finds nothing")
		}
	}
}

func itoa12(n int) string {
	if n == 0 {
		return "0"
	}
	s := ""
	for n > 0 {
		s = string(rune('0'+n%10)) + s
		n /= 10
	}
	return s
}
