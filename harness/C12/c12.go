//gosx:package langserver/check
package check

import (
	"luahelper-lsp/langserver/check/common"
	"luahelper-lsp/langserver/check/results"
	"strings"
)

// C12: definition, references, highlight and hover agree with each other (no external oracle:
// the features are compared with one another on every identifier position).

func c12query(src []byte, line, col int) (common.DefineVarStruct, bool) {
	ls := vpLineStarts(src)
	off := ls[line-1] + col
	vs := GetVarStruct(src, off, uint32(line-1), uint32(col))
	return vs, vs.ValidFlag && len(vs.StrVec) > 0
}

func c12sameDefs(a, b []DefineStruct) bool {
	if len(a) != len(b) {
		return false
	}
	for i := range a {
		if a[i].StrFile != b[i].StrFile || !locEq(a[i].Loc, b[i].Loc) {
			return false
		}
	}
	return true
}

func c12has(v []DefineStruct, file string, line, sc, ec int) bool {
	for _, d := range v {
		if d.StrFile == file && d.Loc.StartLine == line && d.Loc.StartColumn == sc && d.Loc.EndColumn == ec {
			return true
		}
	}
	return false
}

func c12check(p *AllProject, r *rbT, file string, src []byte, oi int, end int) {
	o := &r.occs[oi]
	if vpSkipName(o.name) || o.loc.StartLine == 0 {
		return
	}
	col := o.loc.StartColumn
	if end == 1 {
		col = o.loc.EndColumn
	}
	class := ""
	if c06tainted(r, o.name) {
		class = "C12-inherits-C05"
	} else if o.decl < 0 && r.globalMixedDepth(o.name) {
		class = "C12-global-mixed-depth"
	} else if r.isColonReceiver(o.name) {
		class = "C12-self-receiver"
	}
	vs, ok := c12query(src, o.loc.StartLine, col)
	if !ok {
		return
	}
	vs1, vs2, vs3, vs4 := vpCopyVS(vs), vpCopyVS(vs), vpCopyVS(vs), vpCopyVS(vs)
	def := p.FindVarDefineInfo(file, &vs1)
	refs := p.FindReferences(file, &vs2, common.CRSReference)
	high := p.FindReferences(file, &vs3, common.CRSHighlight)
	verifReach("position")
	// (1) every reference resolves to the same definition as p
	for _, rf := range refs {
		if rf.StrFile != file {
			continue
		}
		q, okq := c12query(src, rf.Loc.StartLine, rf.Loc.StartColumn)
		if !okq {
			verifViolation(class, "a location returned by references is not an identifier position")
			continue
		}
		dq := p.FindVarDefineInfo(file, &q)
		if !c12sameDefs(dq, def) {
			verifViolation(class, "a location returned by references resolves to a different definition than the query position")
			break
		}
	}
	// (2) p is among the references of its own declaration
	if len(def) == 1 && def[0].StrFile == file {
		q, okq := c12query(src, def[0].Loc.StartLine, def[0].Loc.StartColumn)
		if okq {
			rd := p.FindReferences(file, &q, common.CRSReference)
			if !c12has(rd, file, o.loc.StartLine, o.loc.StartColumn, o.loc.EndColumn) {
				verifViolation(class, "the query position is not among the references of its own definition")
			}
		}
	}
	// (3) highlight == references restricted to this file
	same := true
	n := 0
	for _, rf := range refs {
		if rf.StrFile == file {
			n++
			if !c12has(high, file, rf.Loc.StartLine, rf.Loc.StartColumn, rf.Loc.EndColumn) {
				same = false
			}
		}
	}
	if n != len(high) {
		same = false
	}
	if !same {
		verifViolation(class, "document highlight differs from the references in the same file")
	}
	// (4) hover names the identifier and says local exactly when the definition is a local declaration
	label, _, _ := p.GetLspHoverVarStr(file, &vs4)
	if len(def) == 1 {
		verifReach("hover")
		if !strings.Contains(label, o.name) {
			verifViolation(class, "hover label does not contain the identifier under the cursor")
		}
		isLocalDecl := false
		for di := range r.decls {
			if locEq(r.decls[di].loc, def[0].Loc) {
				isLocalDecl = true
			}
		}
		saysLocal := strings.HasPrefix(label, "local ")
		if saysLocal != isLocalDecl {
			verifViolation(class, "hover says local exactly when the definition is a local declaration: violated")
		}
	}
}

func VerifRun_C12() {
	lo, hi := verifParam("TMIN"), verifParam("TMAX")
	ti := verifConcretize(verifRange("template", lo, hi))
	if ti == verifParamOr("TSKIP", -1) {
		return // (a template that only another property's range includes: see known_findings.txt, C05-unspaced-field-value)
	}
	t := vpTemplates[ti]
	if verifParam("LAYOUTS") > 1 && verifConcretize(verifRange("layout", 0, 1)) == 1 {
		t = vpOneLine(t)
	}
	files := []string{"/w/a.lua"}
	srcs := [][]byte{vpInstantiate(t, "n")}
	p, fs := vpProject(files, srcs)
	r := rbBind(fs)
	for oi := range r.occs {
		c12check(p, r, files[0], srcs[0], oi, 0)
		c12check(p, r, files[0], srcs[0], oi, 1)
	}
	verifReach("done")
}

// VpC12Query is one identifier position of a single analysed file, in protocol coordinates, with the
// known-defect class of the unchanged tree its name falls in (for the handler-level job C12-e).
type VpC12Query struct {
	Name                    string
	Line, Col, Start, Width int
	Local                   bool // bound to a local declaration by Lua's scoping
	Class                   string
}

func VpC12Queries(f *results.FileStruct) []VpC12Query {
	r := rbBind([]*results.FileStruct{f})
	var out []VpC12Query
	for oi := range r.occs {
		o := &r.occs[oi]
		if vpSkipName(o.name) || o.loc.StartLine == 0 {
			continue
		}
		class := ""
		if c06tainted(r, o.name) {
			class = "C12-inherits-C05"
		} else if o.decl < 0 && r.globalMixedDepth(o.name) {
			class = "C12-global-mixed-depth"
		} else if r.isColonReceiver(o.name) {
			class = "C12-self-receiver"
		}
		for _, col := range []int{o.loc.StartColumn, o.loc.EndColumn} {
			out = append(out, VpC12Query{Name: o.name, Line: o.loc.StartLine - 1, Col: col, Start: o.loc.StartColumn,
				Width: o.loc.EndColumn - o.loc.StartColumn, Local: o.decl >= 0, Class: class})
		}
	}
	return out
}
