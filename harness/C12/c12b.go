//gosx:package langserver/check
package check

import (
	"luahelper-lsp/langserver/check/common"
	"luahelper-lsp/langserver/pathpre"
	"strings"
)

func pathpreInit() {
	pathpre.InitialRootURIAndPath("file:///w", "/w")
	dm := common.GConfig.GetDirManager()
	dm.SetVSRootDir("/w")
	dm.InitMainDir()
}

// C12-b: the same agreement at identifier positions written with the explicit global prefix (`_G.x`),
// with and without a same-named local / parameter / loop variable in scope (names over {a,b}: equal
// names make the local shadow the global for bare uses, but never for `_G.x`).
var c12gTemplates = []string{
	/* 0 */ "\x01 = 10\nlocal \x02 = 1\n_G.\x01 = _G.\x01 + \x02\n",
	/* 1 */ "\x02 = 1\nfunction f(\x01)\n _G.\x02 = \x01\nend\n",
	/* 2 */ "\x02 = 3\nfor \x01 = 1, 2 do\n _G.\x02 = \x01\nend\nq = _G.\x02\n",
	/* 3 */ "\x02 = 2\nlocal \x01 = 1\nq = _G.\x02\nr = \x01\n",
	/* 4 */ "\x02 = 2\nlocal function \x01() end\nq = _G.\x02\n",
	/* 5 */ "_G.\x02 = 2\nlocal \x01 = _G.\x02\nq = _G.\x02 + \x01\n",
}

func VerifRun_C12b() {
	ti := verifConcretize(verifRange("template", verifParam("TMIN"), verifParam("TMAX")))
	t := c12gTemplates[ti]
	if verifParam("LAYOUTS") > 1 && verifConcretize(verifRange("layout", 0, 1)) == 1 {
		t = vpOneLine(t)
	}
	src := []byte(t)
	var names [10]byte
	var have [10]bool
	for i, c := range src {
		if c >= 1 && c <= 9 {
			if !have[c] {
				names[c] = verifByteIn("n"+string([]byte{'0' + c}), "ab")
				have[c] = true
			}
			src[i] = names[c]
		}
	}
	file := "/w/a.lua"
	p, fs := vpProject([]string{file}, [][]byte{src})
	r := rbBind(fs)
	line, col := 1, 0
	for i := 0; i+3 < len(src); i++ {
		if i >= 3 && t[i-3] == '_' && t[i-2] == 'G' && t[i-1] == '.' {
			for end := 0; end <= 1; end++ {
				c12qualified(p, r, file, src, line, col+end, string(src[i:i+1]))
			}
		}
		if src[i] == '\n' {
			line++
			col = 0
		} else {
			col++
		}
	}
	verifReach("done")
}

func c12qualified(p *AllProject, r *rbT, file string, src []byte, line, col int, name string) {
	vs, ok := c12query(src, line, col)
	if !ok {
		verifViolation("", "an identifier position after _G. is not accepted as a query")
		return
	}
	vs1, vs2, vs3, vs4 := vpCopyVS(vs), vpCopyVS(vs), vpCopyVS(vs), vpCopyVS(vs)
	def := p.FindVarDefineInfo(file, &vs1)
	refs := p.FindReferences(file, &vs2, common.CRSReference)
	high := p.FindReferences(file, &vs3, common.CRSHighlight)
	verifReach("position")
	for _, rf := range refs {
		if rf.StrFile != file {
			continue
		}
		q, okq := c12query(src, rf.Loc.StartLine, rf.Loc.StartColumn)
		if !okq {
			verifViolation("", "a location returned by references is not an identifier position")
			continue
		}
		dq := p.FindVarDefineInfo(file, &q)
		if !c12sameDefs(dq, def) {
			verifViolation("", "a location returned by references of _G.x resolves to a different definition than the query position")
			break
		}
	}
	same := true
	n := 0
	for _, rf := range refs {
		if rf.StrFile == file {
			n++
			if !c12has(high, file, rf.Loc.StartLine, rf.Loc.StartColumn, rf.Loc.EndColumn) {
				same = false
			}
		}
	}
	if n != len(high) {
		same = false
	}
	if !same {
		verifViolation("", "document highlight of _G.x differs from the references in the same file")
	}
	label, _, _ := p.GetLspHoverVarStr(file, &vs4)
	if len(def) == 1 {
		verifReach("hover")
		if !strings.Contains(label, name) {
			verifViolation("", "hover label does not contain the identifier under the cursor")
		}
		isLocalDecl := false
		for di := range r.decls {
			if locEq(r.decls[di].loc, def[0].Loc) {
				isLocalDecl = true
			}
		}
		if strings.HasPrefix(label, "local ") != isLocalDecl {
			verifViolation("", "hover on _G.x says local although its definition is the global (or the reverse)")
		}
	}
}

// C12-c: the same agreement at the keys of member chains (t.a.k): tables nested in constructors or built
// by assignments, two sub-tables carrying the same final key, key names over {a,b} (equal names make the
// two chains the same member).
var c12mTemplates = []string{
	/* 0 */ "local t = { \x01 = { k = 1 }, \x02 = { k = 2 } }\nq = t.\x01.k\nr = t.\x02.k\n",
	/* 1 */ "g = {}\ng.\x01 = {}\ng.\x02 = {}\ng.\x01.k = 1\ng.\x02.k = 2\nq = g.\x01.k\nr = g.\x02.k\n",
	/* 2 */ "local t = { \x01 = { \x03 = { k = 1 } }, \x02 = { \x03 = { k = 2 } } }\nq = t.\x01.\x03.k\nr = t.\x02.\x03.k\n",
	/* 3 */ "local t = {}\nt.\x01 = 1\nt.\x02 = 2\nq = t.\x01 + t.\x02\n",
	/* 4 */ "local t = { \x01 = 1 }\nlocal u = { \x02 = 2 }\nq = t.\x01 + u.\x02\n",
	// constructor keys as query positions (marked by 0x0b), the inner table opened on the line of its parent
	// key and continued on later lines further to the left
	/* 5 */ "local t = { \x0b\x01 = {\n    \x0b\x02 = 1,\n}, z = 2 }\nq = t.\x01.\x02\n",
	/* 6 */ "g = { \x0b\x01 = {\n  \x0b\x02 = 1, \x0by = 2,\n},\n  \x0bz = 3 }\nq = g.\x01.\x02 + g.z + g.\x01.y\n",
}

func VerifRun_C12c() {
	ti := verifConcretize(verifRange("template", verifParam("TMIN"), verifParam("TMAX")))
	t := c12mTemplates[ti]
	if verifParam("LAYOUTS") > 1 && verifConcretize(verifRange("layout", 0, 1)) == 1 {
		t = vpOneLine(t)
	}
	// strip the query-position markers (0x0b) and remember where they were
	marked := map[int]bool{}
	{
		var clean []byte
		for i := 0; i < len(t); i++ {
			if t[i] == 0x0b {
				marked[len(clean)] = true
				continue
			}
			clean = append(clean, t[i])
		}
		t = string(clean)
	}
	src := []byte(t)
	var names [10]byte
	var have [10]bool
	for i, c := range src {
		if c >= 1 && c <= 9 {
			if !have[c] {
				names[c] = verifByteIn("n"+string([]byte{'0' + c}), "ab")
				have[c] = true
			}
			src[i] = names[c]
		}
	}
	if ti == 0 || ti == 2 {
		verifAssume(names[1] != names[2]) // a constructor with a duplicate key has no single declaration of that key
	}

	file := "/w/a.lua"
	p, _ := vpProject([]string{file}, [][]byte{src})
	line, col := 1, 0
	for i := 0; i < len(src); i++ {
		// a member key: one letter directly after a dot
		if (i >= 1 && t[i-1] == '.') || marked[i] {
			for end := 0; end <= 1; end++ {
				c12member(p, file, src, line, col+end, string(src[i:i+1]))
			}
		}
		if src[i] == '\n' {
			line++
			col = 0
		} else {
			col++
		}
	}
	verifReach("done")
}

// c12braceDepth: how many table constructors enclose the position (1-based line, 0-based column)
func c12braceDepth(src []byte, line, col int) int {
	ls := vpLineStarts(src)
	if line < 1 || line > len(ls) {
		return 0
	}
	d := 0
	for i := 0; i < ls[line-1]+col && i < len(src); i++ {
		if src[i] == '{' {
			d++
		} else if src[i] == '}' {
			d--
		}
	}
	return d
}

func c12member(p *AllProject, file string, src []byte, line, col int, name string) {
	vs, ok := c12query(src, line, col)
	if !ok {
		verifViolation("", "a member key position is not accepted as a query")
		return
	}
	vs1, vs2, vs3, vs4 := vpCopyVS(vs), vpCopyVS(vs), vpCopyVS(vs), vpCopyVS(vs)
	def := p.FindVarDefineInfo(file, &vs1)
	refs := p.FindReferences(file, &vs2, common.CRSReference)
	high := p.FindReferences(file, &vs3, common.CRSHighlight)
	verifReach("position")
	for _, rf := range refs {
		if rf.StrFile != file {
			continue
		}
		q, okq := c12query(src, rf.Loc.StartLine, rf.Loc.StartColumn)
		if !okq {
			verifViolation("", "a location returned by references is not an identifier position")
			continue
		}
		dq := p.FindVarDefineInfo(file, &q)
		if !c12sameDefs(dq, def) {
			class := ""
			if len(dq) == 0 && c12braceDepth(src, rf.Loc.StartLine, rf.Loc.StartColumn) >= 3 {
				class = "C12-deep-constructor-key"
			}
			verifViolation(class, "a location returned by references of a member resolves to a different definition than the query position")
			break
		}
	}
	if len(def) == 1 && def[0].StrFile == file {
		q, okq := c12query(src, def[0].Loc.StartLine, def[0].Loc.StartColumn)
		if okq {
			rd := p.FindReferences(file, &q, common.CRSReference)
			if !c12has(rd, file, line, col, col+1) && !c12has(rd, file, line, col-1, col) {
				class := ""
				if len(rd) == 0 && c12braceDepth(src, def[0].Loc.StartLine, def[0].Loc.StartColumn) >= 3 {
					class = "C12-deep-constructor-key"
				}
				verifViolation(class, "a member position is not among the references of its own definition")
			}
		}
	}
	same := true
	n := 0
	for _, rf := range refs {
		if rf.StrFile == file {
			n++
			if !c12has(high, file, rf.Loc.StartLine, rf.Loc.StartColumn, rf.Loc.EndColumn) {
				same = false
			}
		}
	}
	if n != len(high) {
		same = false
	}
	if !same {
		verifViolation("", "document highlight of a member differs from its references in the same file")
	}
	label, _, _ := p.GetLspHoverVarStr(file, &vs4)
	if len(def) == 1 {
		verifReach("hover")
		if !strings.Contains(label, name) {
			verifViolation("", "hover label does not contain the member under the cursor")
		}
	}
}

// C12-d: the same agreement across files: a module table returned by its file and used through
// `local m = require("mod")` with dot and colon calls; also a global table with methods defined in
// another file. Query positions: the member names at the call sites and at their definitions.
type c12xf struct {
	files []string
	srcs  []string
	// query positions: file index, 1-based line, 0-based column of a one-letter-suffixed member name, its length
	pos [][4]int
}

var c12xTemplates = []c12xf{
	{[]string{"mod.lua", "user.lua"},
		[]string{"local M = {}\nfunction M:ba\x01(x) return x end\nfunction M.fo\x02(x) return x end\nM.cn\x03 = 1\nreturn M\n",
			"local m = require(\"mod\")\nm:ba\x01(2)\nm.fo\x02(1)\nq = m.cn\x03\n"},
		[][4]int{{1, 2, 2, 3}, {1, 3, 2, 3}, {1, 4, 6, 3}, {0, 2, 11, 3}, {0, 3, 11, 3}, {0, 4, 2, 3}}},
	{[]string{"glob.lua", "use.lua"},
		[]string{"GT = {}\nfunction GT:ba\x01(x) return x end\nfunction GT.fo\x02(x) return x end\n",
			"GT:ba\x01(2)\nGT.fo\x02(1)\nlocal k = GT\nk:ba\x01(3)\n"},
		[][4]int{{1, 1, 3, 3}, {1, 2, 3, 3}, {0, 2, 12, 3}, {0, 3, 12, 3}}},
	// the table is declared in one file, its members in another, both are used in a third
	{[]string{"tbl.lua", "net.lua", "use.lua"},
		[]string{"GT = {}\n",
			"function GT.ba\x01(x) return x end\nfunction GT:ki\x02(y) end\nGT.ba\x01(1)\n",
			"GT.ba\x01(2)\nGT:ki\x02(3)\n"},
		[][4]int{{1, 1, 12, 3}, {1, 2, 12, 3}, {1, 3, 3, 3}, {2, 1, 3, 3}, {2, 2, 3, 3}}},
	// more files than the reference search has workers (3 with one CPU): a global function used in five files
	{[]string{"lib.lua", "u1.lua", "u2.lua", "u3.lua", "u4.lua", "u5.lua"},
		[]string{"function Fo\x01(n) return n end\n",
			"Fo\x01(1)\n", "\nFo\x01(2)\n", "\n\n Fo\x01(3)\n", "local r = Fo\x01(4)\n", "print(Fo\x01(5))\n"},
		[][4]int{{0, 1, 9, 3}, {1, 1, 0, 3}, {2, 2, 0, 3}, {3, 3, 1, 3}, {4, 1, 10, 3}, {5, 1, 6, 3}}},
	// a use at the line and column at which another file declares the global
	{[]string{"tbl.lua", "net.lua"},
		[]string{"Cf\x01 = {}\n", "Cf\x01.y = 2\nq = Cf\x01\n"},
		[][4]int{{0, 1, 0, 3}, {1, 1, 0, 3}, {1, 2, 4, 3}}},
}

func VerifRun_C12d() {
	ti := verifConcretize(verifRange("template", 0, len(c12xTemplates)-1))
	t := c12xTemplates[ti]
	var names [10]byte
	var have [10]bool
	files := make([]string, len(t.files))
	srcs := make([][]byte, len(t.files))
	for k := range t.files {
		files[k] = "/w/" + t.files[k]
		b := []byte(t.srcs[k])
		for i, c := range b {
			if c >= 1 && c <= 9 {
				if !have[c] {
					names[c] = verifByteIn("n"+string([]byte{'0' + c}), "ab")
					have[c] = true
				}
				b[i] = names[c]
			}
		}
		srcs[k] = b
	}
	pathpreInit()
	p, _ := vpProject(files, srcs)
	for _, q := range t.pos {
		for end := 0; end <= 1; end++ {
			col := q[2]
			if end == 1 {
				col += q[3]
			}
			c12xfile(p, files, srcs, q[0], q[1], col, q[2], q[3])
		}
	}
	verifReach("done")
}

func c12xfile(p *AllProject, files []string, srcs [][]byte, fi, line, col, startCol, n int) {
	src := srcs[fi]
	vs, ok := c12query(src, line, col)
	if !ok {
		verifViolation("", "a member name position is not accepted as a query")
		return
	}
	vs1, vs2, vs3 := vpCopyVS(vs), vpCopyVS(vs), vpCopyVS(vs)
	def := p.FindVarDefineInfo(files[fi], &vs1)
	refs := p.FindReferences(files[fi], &vs2, common.CRSReference)
	high := p.FindReferences(files[fi], &vs3, common.CRSHighlight)
	verifReach("position")
	srcOf := func(f string) []byte {
		for k := range files {
			if files[k] == f {
				return srcs[k]
			}
		}
		return nil
	}
	for _, rf := range refs {
		s := srcOf(rf.StrFile)
		if s == nil {
			continue
		}
		q, okq := c12query(s, rf.Loc.StartLine, rf.Loc.StartColumn)
		if !okq {
			verifViolation("", "a location returned by references is not an identifier position")
			continue
		}
		dq := p.FindVarDefineInfo(rf.StrFile, &q)
		if !c12sameDefs(dq, def) {
			verifViolation("", "a location returned by references of a cross-file member resolves to a different definition than the query position")
			break
		}
	}
	if len(def) == 1 {
		verifReach("defined")
		if s := srcOf(def[0].StrFile); s != nil {
			q, okq := c12query(s, def[0].Loc.StartLine, def[0].Loc.StartColumn)
			if okq {
				rd := p.FindReferences(def[0].StrFile, &q, common.CRSReference)
				if !c12has(rd, files[fi], line, startCol, startCol+n) {
					verifViolation("", "a cross-file member position is not among the references of its own definition")
				}
			}
		}
	}
	same := true
	cnt := 0
	for _, rf := range refs {
		if rf.StrFile == files[fi] {
			cnt++
			if !c12has(high, files[fi], rf.Loc.StartLine, rf.Loc.StartColumn, rf.Loc.EndColumn) {
				same = false
			}
		}
	}
	if cnt != len(high) {
		same = false
	}
	if !same {
		verifViolation("", "document highlight of a cross-file member differs from its references in the same file")
	}
}

func itoa(n int) string {
	if n == 0 {
		return "0"
	}
	s := ""
	neg := n < 0
	if neg {
		n = -n
	}
	for n > 0 {
		s = string([]byte{byte('0' + n%10)}) + s
		n /= 10
	}
	if neg {
		s = "-" + s
	}
	return s
}
