//gosx:package langserver/check
package check

import "strconv"

// C08-g: annotation diagnostics survive histories too. A file with annotation lines of three kinds - valid,
// valid but naming a type nobody declares (its own warning), malformed (a syntax warning produced only when
// the file itself is parsed) - in a solver-chosen order; another file declares or does not declare the
// missing type and is rewritten by watched-file events (so that the cross-file annotation results change and
// are recomputed while the first file is not re-parsed). After every event the diagnostics of all files equal
// those of a fresh start on the same files.
func VerifRun_C08g() {
	root := verifVFSRoot()
	c08workspace(root)
	model, types, mainF := root+"/model.lua", root+"/types.lua", root+"/main.lua"
	good := "---@field weapon Weapon\n"
	bad := []string{"---@field damage number |\n", "---@field name\n"}[verifConcretize(verifRange("bad", 0, 1))]
	src := "---@class Player\n"
	if verifBool("badFirst") {
		src += bad + good
	} else {
		src += good + bad
	}
	src += "---@field hp number\nlocal Player = {}\nreturn Player\n"
	versTypes := []string{"---@class Weapon\nlocal W = {}\nreturn W\n", "---@class Sword\nlocal W = {}\nreturn W\n", "local W = {}\nreturn W\n"}
	versMain := []string{"local P = require(\"model\")\nprint(P)\n", "local P = require(\"model\")\nprint(P, 1)\n"}
	cur := []int{verifConcretize(verifRange("types0", 0, 2)), 0}
	verifVFSPut(model, []byte(src))
	verifVFSPut(types, []byte(versTypes[cur[0]]))
	verifVFSPut(mainF, []byte(versMain[0]))
	files := []string{model, types, mainF}
	p := CreateAllProject(files, nil, nil)
	p.HandleCheck()
	for k := 0; k < verifParam("EVENTS"); k++ {
		if verifBool("touchMain" + strconv.Itoa(k)) {
			cur[1] = 1 - cur[1]
			verifVFSPut(mainF, []byte(versMain[cur[1]]))
			p.HandleFileEventChanges([]FileEventStruct{{StrFile: mainF, Type: FileEventChanged}})
		} else {
			cur[0] = verifConcretize(verifRange("types"+strconv.Itoa(k+1), 0, 2))
			verifVFSPut(types, []byte(versTypes[cur[0]]))
			p.HandleFileEventChanges([]FileEventStruct{{StrFile: types, Type: FileEventChanged}})
		}
		got := c08diag(p, files)
		fresh := CreateAllProject(files, nil, nil)
		fresh.HandleCheck()
		want := c08diag(fresh, files)
		verifReach("compared")
		if got != want {
			verifObserve("got", got)
			verifObserve("want", want)
			verifViolation("", "after a watched-file event the diagnostics (annotation warnings included) differ from those of a fresh start")
			return
		}
	}
}
