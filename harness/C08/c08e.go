//gosx:package langserver
package langserver

import (
	"context"
	"luahelper-lsp/langserver/check"
	"luahelper-lsp/langserver/check/common"
	"luahelper-lsp/langserver/pathpre"
	lsp "luahelper-lsp/langserver/protocol"
	"strconv"

	"github.com/yinfei8/jrpc2"
	"github.com/yinfei8/jrpc2/handler"
)

// C08-e: the CLIENT'S VIEW of the diagnostics (the last publishDiagnostics per URI) after a history of
// didChange / didSave / didChangeWatchedFiles notifications, once nothing is unsaved, equals the view a
// freshly started server publishes on the same files. sendDiagnostics is overridden (per job) by a
// recorder; everything else is the real server: handlers, diagnostics manager, analysis, worker pools.

var c08view map[string]string

func (l *LspServer) verifSendDiagnostics(ctx context.Context, d lsp.PublishDiagnosticsParams) {
	if c08view == nil {
		c08view = map[string]string{}
	}
	var items []string
	for _, x := range d.Diagnostics {
		items = append(items, strconv.Itoa(int(x.Range.Start.Line))+":"+strconv.Itoa(int(x.Range.Start.Character))+" "+x.Message)
	}
	for i := range items {
		for j := i + 1; j < len(items); j++ {
			if items[j] < items[i] {
				items[i], items[j] = items[j], items[i]
			}
		}
	}
	s := ""
	for _, it := range items {
		s += it + "; "
	}
	c08view[string(d.URI)] = s
}

func c08eServer(root string, files []string) *LspServer {
	pathpre.InitialRootURIAndPath("file://"+root, root)
	dm := common.GConfig.GetDirManager()
	dm.SetVSRootDir(root)
	dm.InitMainDir()
	l := CreateLspServer()
	l.server = jrpc2.NewServer(handler.Map{}, &jrpc2.ServerOptions{AllowPush: false, Concurrency: 1})
	l.project = check.CreateAllProject(files, nil, nil)
	l.project.HandleCheck()
	l.GetAllDiagnostics(context.Background()) // what Initialized does
	return l
}

func c08eViewOf(files []string) string {
	out := ""
	for _, f := range files {
		out += "[" + f[len(f)-5:] + ": " + c08view["file://"+f] + "]"
	}
	return out
}

func VerifSetup_C08e() { check.VerifSetup_Pipe() }

func VerifRun_C08e() {
	root := verifVFSRoot()
	a, b := root+"/a.lua", root+"/b.lua"
	files := []string{a, b}
	// versions of the two files (valid programs with different diagnostics, and one with a syntax error)
	// (the fourth version of a is the second one below two blank lines, with a trailing blank: the same
	// diagnostics on other lines; the fifth is the empty file)
	versA := []string{"x = 1\n", "y = 1\nlocal u = 2\n", "x = \n", "\n\ny = 1\nlocal u = 2\n \n", ""}
	// (the third version of b reads a name nobody defines: going from "y" to "z" changes a diagnostic only in its text)
	versB := []string{"local r = x\nq = r\n", "local r = y\nq = r\n", "local r = z\nq = r\n"}
	cur := []string{versA[0], versB[0]}
	disk := []string{versA[0], versB[0]} // what the file holds on disk
	verifVFSPut(a, []byte(cur[0]))
	verifVFSPut(b, []byte(cur[1]))
	c08view = map[string]string{}
	l := c08eServer(root, files)
	ctx := context.Background()
	unsaved := []bool{false, false}
	gone := []bool{false, false}
	for k := 0; k < verifParam("STEPS"); k++ {
		fi := verifConcretize(verifRange("file", 0, 1))
		f := files[fi]
		op := verifConcretize(verifRange("op", 0, 5))
		if gone[fi] && op != 4 {
			verifAssume(false) // nothing else happens to a file that does not exist
		}
		uri := lsp.DocumentURI("file://" + f)
		switch op {
		case 0: // the user types: full-text didChange to another version (may be syntactically broken)
			var txt string
			if fi == 0 {
				txt = versA[verifConcretize(verifRange("ver", 0, 4))]
			} else {
				txt = versB[verifConcretize(verifRange("ver", 0, 2))]
			}
			if !unsaved[fi] {
				_ = l.TextDocumentDidOpen(ctx, lsp.DidOpenTextDocumentParams{TextDocument: lsp.TextDocumentItem{URI: uri, Text: cur[fi]}})
			}
			_ = l.TextDocumentDidChange(ctx, lsp.DidChangeTextDocumentParams{
				TextDocument:   lsp.VersionedTextDocumentIdentifier{TextDocumentIdentifier: lsp.TextDocumentIdentifier{URI: uri}},
				ContentChanges: []lsp.TextDocumentContentChangeEvent{{Text: txt}}})
			cur[fi] = txt
			unsaved[fi] = true
		case 1: // the user saves
			txt := cur[fi]
			verifVFSPut(f, []byte(txt))
			disk[fi] = txt
			_ = l.TextDocumentDidSave(ctx, lsp.DidSaveTextDocumentParams{TextDocument: lsp.TextDocumentIdentifier{URI: uri}, Text: &txt})
			unsaved[fi] = false
		case 2: // the file changes on disk behind the editor (e.g. git checkout) and the watcher reports it
			if unsaved[fi] {
				verifAssume(false) // keep histories simple: external changes only to files without unsaved edits
			}
			var txt string
			if fi == 0 {
				txt = versA[verifConcretize(verifRange("ver", 0, 4))]
			} else {
				txt = versB[verifConcretize(verifRange("ver", 0, 2))]
			}
			cur[fi] = txt
			disk[fi] = txt
			verifVFSPut(f, []byte(txt))
			_ = l.WorkspaceChangeWatchedFiles(ctx, lsp.DidChangeWatchedFilesParams{Changes: []lsp.FileEvent{{URI: uri, Type: lsp.Changed}}})
		case 4: // the file is deleted outside the editor / comes back (e.g. a branch switch), reported by the watcher
			if unsaved[fi] {
				verifAssume(false)
			}
			if gone[fi] {
				verifVFSPut(f, []byte(cur[fi]))
				_ = l.WorkspaceChangeWatchedFiles(ctx, lsp.DidChangeWatchedFilesParams{Changes: []lsp.FileEvent{{URI: uri, Type: lsp.Created}}})
			} else {
				verifVFSDel(f)
				_ = l.WorkspaceChangeWatchedFiles(ctx, lsp.DidChangeWatchedFilesParams{Changes: []lsp.FileEvent{{URI: uri, Type: lsp.Deleted}}})
			}
			gone[fi] = !gone[fi]
		case 5: // the user closes the document and discards the unsaved edits: the file on disk is what counts again
			if !unsaved[fi] {
				verifAssume(false)
			}
			_ = l.TextDocumentDidClose(ctx, lsp.DidCloseTextDocumentParams{TextDocument: lsp.TextDocumentIdentifier{URI: uri}})
			cur[fi] = disk[fi]
			unsaved[fi] = false
		case 3: // the user closes the (saved) document and opens it again
			if unsaved[fi] {
				verifAssume(false)
			}
			_ = l.TextDocumentDidClose(ctx, lsp.DidCloseTextDocumentParams{TextDocument: lsp.TextDocumentIdentifier{URI: uri}})
			_ = l.TextDocumentDidOpen(ctx, lsp.DidOpenTextDocumentParams{TextDocument: lsp.TextDocumentItem{URI: uri, Text: cur[fi]}})
		}
	}
	// bring the workspace to a state without unsaved edits
	for fi, f := range files {
		if unsaved[fi] && cur[fi] == disk[fi] {
			continue // typed and undone: the buffer equals the file again, there is nothing to save
		}
		if unsaved[fi] {
			txt := cur[fi]
			verifVFSPut(f, []byte(txt))
			_ = l.TextDocumentDidSave(ctx, lsp.DidSaveTextDocumentParams{TextDocument: lsp.TextDocumentIdentifier{URI: lsp.DocumentURI("file://" + f)}, Text: &txt})
		}
	}
	got := c08eViewOf(files)
	c08view = map[string]string{}
	var existing []string
	for fi, f := range files {
		if !gone[fi] {
			existing = append(existing, f)
		}
	}
	_ = c08eServer(root, existing)
	want := c08eViewOf(files)
	verifObserve("view", got)
	verifReach("compared")
	if got != want {
		verifViolation("", "the client's view of the diagnostics after a history of notifications differs from what a fresh start publishes")
	}
}
