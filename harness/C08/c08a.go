//gosx:package langserver/check/common
package common

// C08-a: the file index after any short history of create/delete events answers every query exactly
// like an index built from scratch on the resulting file set.

func c08seg(tag string) string {
	return string([]byte{verifByteIn(tag, "ab")})
}

func c08sameKeys(x, y map[string]string) bool {
	if len(x) != len(y) {
		return false
	}
	for k, v := range x {
		w, ok := y[k]
		if !ok || w != v {
			return false
		}
	}
	return true
}

func VerifRun_C08a() {
	nf, ne := verifParam("FILES"), verifParam("EVENTS")
	paths := make([]string, nf)
	for i := range paths {
		paths[i] = "/w/" + c08seg("d") + "/" + c08seg("n") + ".lua"
		for j := 0; j < i; j++ {
			verifAssume(paths[i] != paths[j])
		}
	}
	idx := CreateFileIndexInfo()
	present := make([]bool, nf)
	for k := 0; k < ne; k++ {
		f := verifRange("file", 0, nf-1)
		f = verifConcretize(f)
		if verifBool("create") {
			idx.InsertOneFile(paths[f])
			present[f] = true
		} else {
			idx.RemoveOneFile(paths[f])
			present[f] = false
		}
	}
	fresh := CreateFileIndexInfo()
	for i, p := range paths {
		if present[i] {
			fresh.InsertOneFile(p)
		}
	}
	verifReach("compared")
	for _, n := range []string{"a", "b"} {
		if !c08sameKeys(idx.GetPreFileNameMap(n), fresh.GetPreFileNameMap(n)) {
			verifViolation("", "file index after a create/delete history differs from a fresh index (lookup by name without suffix)")
		}
		if !c08sameKeys(idx.GetFileNameMap(n+".lua"), fresh.GetFileNameMap(n+".lua")) {
			verifViolation("", "file index after a create/delete history differs from a fresh index (lookup by file name)")
		}
	}
}
