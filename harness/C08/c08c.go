//gosx:package langserver/check
package check

import (
	"luahelper-lsp/langserver/check/common"
	"strconv"
)

// C08-c: after a batch of watched-file "changed" events, the diagnostics the project reports equal
// those of a freshly started project on the same files. The real worker pools run (cooperative
// goroutines; the arrival order of worker results is explored), files live in the virtual file system.

func c08diag(p *AllProject, files []string) string {
	m := p.GetAllFileErrorInfo()
	out := ""
	for _, f := range files {
		errs := m[f]
		// order-insensitive digest: selection sort of the rendered entries
		var items []string
		for _, e := range errs {
			items = append(items, strconv.Itoa(int(e.ErrType))+"@"+strconv.Itoa(e.Loc.StartLine)+":"+strconv.Itoa(e.Loc.StartColumn)+"-"+strconv.Itoa(e.Loc.EndColumn))
		}
		for i := range items {
			for j := i + 1; j < len(items); j++ {
				if items[j] < items[i] {
					items[i], items[j] = items[j], items[i]
				}
			}
		}
		out += "[" + f[len(f)-5:] + ":"
		for _, it := range items {
			out += " " + it
		}
		out += "]"
	}
	return out
}

func c08workspace(root string) {
	dm := common.GConfig.GetDirManager()
	dm.SetVSRootDir(root)
	dm.InitMainDir()
}

func VerifRun_C08c() {
	root := verifVFSRoot()
	c08workspace(root)
	nf := verifParam("FILES")
	files := make([]string, nf)
	for i := range files {
		files[i] = root + "/" + string([]byte{'a' + byte(i)}) + ".lua"
	}
	// file 0 defines a global, the others read a global and declare an unused local
	n1 := verifByteIn("n1", "xy")
	n2 := verifByteIn("n2", "xy")
	n3 := verifByteIn("n3", "xy")
	def0 := []byte("? = 1\n")
	def0[0] = n1
	def1 := []byte("? = 1\nlocal u = 2\n")
	def1[0] = n3
	use := []byte("local r = ?\nq = r\n")
	use[10] = n2
	contents := make([][]byte, nf)
	contents[0] = def0
	for i := 1; i < nf; i++ {
		contents[i] = use
	}
	for i := range files {
		verifVFSPut(files[i], contents[i])
	}
	p := CreateAllProject(files, nil, nil)
	p.HandleCheck()
	verifObserve("initial", c08diag(p, files))
	// BATCHES batches of "changed" events, each over a symbolic subset of the files; before each batch file 0
	// is rewritten with one of its two versions (so it may be really modified or byte-identical)
	prevMod := false
	for b := 0; b < verifParam("BATCHES"); b++ {
		mod := verifBool("modify0")
		really := mod != prevMod // the file on disk really differs from what was last announced
		prevMod = mod
		if mod {
			contents[0] = def1
		} else {
			contents[0] = def0
		}
		verifVFSPut(files[0], contents[0])
		var events []FileEventStruct
		for i := range files {
			if verifBool("touch") || (i == 0 && really) {
				events = append(events, FileEventStruct{StrFile: files[i], Type: FileEventChanged})
			}
		}
		if len(events) > 0 {
			p.HandleFileEventChanges(events)
		}
	}
	// the client view is only required to be current for files whose change was announced: announce file 0 if its
	// last version was never announced
	_ = n3
	got := c08diag(p, files)
	fresh := CreateAllProject(files, nil, nil)
	fresh.HandleCheck()
	want := c08diag(fresh, files)
	verifObserve("after", got)
	verifReach("compared")
	if got != want {
		verifViolation("", "diagnostics after a batch of watched-file change events differ from those of a fresh start on the same files")
	}
}

// C08-d: create/delete events of a required module file: afterwards the diagnostics equal a fresh start.
func VerifRun_C08d() {
	root := verifVFSRoot()
	c08workspace(root)
	d1 := string([]byte{byte(verifConcretize(int(verifByteIn("d1", "ab"))))})
	p1 := string(verifBytesIn("p1", 1, "ab"))
	f1 := root + "/" + d1 + "/x.lua"
	mainF := root + "/m.lua"
	sep := "."
	if verifBool("slash") {
		sep = "/"
	}
	verifVFSPut(mainF, []byte("local r = require(\""+p1+sep+"x\")\nq = r\n"))
	present := verifBool("present")
	files := []string{mainF}
	if present {
		verifVFSPut(f1, []byte("return 1\n"))
		files = append(files, f1)
	}
	p := CreateAllProject(files, nil, nil)
	p.HandleCheck()
	all := []string{mainF, f1}
	// a short history of create/delete events of the module file
	for k := 0; k < verifParam("EVENTS"); k++ {
		if present {
			verifVFSDel(f1)
			p.HandleFileEventChanges([]FileEventStruct{{StrFile: f1, Type: FileEventDeleted}})
		} else {
			verifVFSPut(f1, []byte("return 1\n"))
			p.HandleFileEventChanges([]FileEventStruct{{StrFile: f1, Type: FileEventCreated}})
		}
		present = !present
		now := []string{mainF}
		if present {
			now = append(now, f1)
		}
		fresh := CreateAllProject(now, nil, nil)
		fresh.HandleCheck()
		verifReach("compared")
		if c08diag(p, all) != c08diag(fresh, all) {
			verifViolation("", "diagnostics after a create/delete event of a required file differ from those of a fresh start")
			return
		}
	}
}

// C08-f: batches mixing "changed", "created" and "deleted" events (also delete-only batches): afterwards the
// diagnostics equal those of a fresh start on the files that now exist. File 0 defines the global the
// other files read, so deleting or re-creating it changes *their* diagnostics.
func VerifRun_C08f() {
	root := verifVFSRoot()
	c08workspace(root)
	nf := verifParam("FILES")
	files := make([]string, nf)
	for i := range files {
		files[i] = root + "/" + string([]byte{'a' + byte(i)}) + ".lua"
	}
	n1 := verifByteIn("n1", "xy")
	n2 := verifByteIn("n2", "xy")
	def0 := []byte("? = 1\n")
	def0[0] = n1
	def1 := []byte("? = 1\nlocal u = 2\nprint(zz)\n")
	def1[0] = n1
	use := []byte("local r = ?\nq = r\n")
	use[10] = n2
	contents := make([][]byte, nf)
	present := make([]bool, nf)
	contents[0] = def0
	for i := 1; i < nf; i++ {
		contents[i] = use
	}
	var initial []string
	for i := range files {
		present[i] = i > 0 || verifBool("present0")
		if present[i] {
			verifVFSPut(files[i], contents[i])
			initial = append(initial, files[i])
		}
	}
	p := CreateAllProject(initial, nil, nil)
	p.HandleCheck()
	for b := 0; b < verifParam("BATCHES"); b++ {
		var events []FileEventStruct
		for i := range files {
			switch verifConcretize(verifRange("ev", 0, 2)) {
			case 1: // changed (file 0 alternates between its two versions, the others are only touched)
				if !present[i] {
					continue
				}
				if i == 0 {
					if len(contents[0]) == len(def0) {
						contents[0] = def1
					} else {
						contents[0] = def0
					}
					verifVFSPut(files[0], contents[0])
				}
				events = append(events, FileEventStruct{StrFile: files[i], Type: FileEventChanged})
			case 2: // deleted / created
				if present[i] {
					verifVFSDel(files[i])
					events = append(events, FileEventStruct{StrFile: files[i], Type: FileEventDeleted})
				} else {
					verifVFSPut(files[i], contents[i])
					events = append(events, FileEventStruct{StrFile: files[i], Type: FileEventCreated})
				}
				present[i] = !present[i]
			}
		}
		if len(events) > 0 {
			p.HandleFileEventChanges(events)
		}
	}
	var now []string
	for i := range files {
		if present[i] {
			now = append(now, files[i])
		}
	}
	got := c08diag(p, files)
	fresh := CreateAllProject(now, nil, nil)
	fresh.HandleCheck()
	want := c08diag(fresh, files)
	verifObserve("after", got)
	verifReach("compared")
	if got != want {
		verifViolation("", "diagnostics after batches of create / change / delete events differ from those of a fresh start on the files that exist")
	}
}

// C08-i: project mode (an entry file in luahelper.json's ProjectFiles): the entry requires "util", which is
// resolved by the closest file of that name. Files named util.lua appear and disappear next to the entry and
// in a shared folder; one of them defines the global the entry reads. After every event the diagnostics equal
// those of a fresh start on the files that now exist (the project's membership follows the re-resolved
// require).
func VerifRun_C08i() {
	root := verifVFSRoot()
	c08workspace(root)
	mainF := root + "/game/main.lua"
	cands := []string{root + "/game/util.lua", root + "/common/util.lua", root + "/common/lib/util.lua"}
	texts := []string{"MAX_HP = 100\nreturn {}\n", "function clamp(v) return v end\nreturn {}\n", "LIMIT = 1\nreturn {}\n"}
	verifVFSPut(mainF, []byte("local u = require(\"util\")\nq = MAX_HP\nr = clamp\ns = LIMIT\nt = u\n"))
	on := make([]bool, len(cands))
	files := []string{mainF}
	for i := range cands {
		on[i] = verifBool("present")
		if on[i] {
			verifVFSPut(cands[i], []byte(texts[i]))
			files = append(files, cands[i])
		}
	}
	entries := []string{mainF}
	p := CreateAllProject(files, entries, nil)
	p.HandleCheck()
	all := append([]string{mainF}, cands...)
	for k := 0; k < verifParam("EVENTS"); k++ {
		i := verifConcretize(verifRange("which", 0, len(cands)-1))
		if on[i] {
			verifVFSDel(cands[i])
			p.HandleFileEventChanges([]FileEventStruct{{StrFile: cands[i], Type: FileEventDeleted}})
		} else {
			verifVFSPut(cands[i], []byte(texts[i]))
			p.HandleFileEventChanges([]FileEventStruct{{StrFile: cands[i], Type: FileEventCreated}})
		}
		on[i] = !on[i]
		now := []string{mainF}
		for j := range cands {
			if on[j] {
				now = append(now, cands[j])
			}
		}
		fresh := CreateAllProject(now, entries, nil)
		fresh.HandleCheck()
		verifReach("compared")
		if c08diag(p, all) != c08diag(fresh, all) {
			verifObserve("history", c08diag(p, all))
			verifObserve("fresh", c08diag(fresh, all))
			verifViolation("", "project mode: diagnostics after a create/delete event of a required file differ from those of a fresh start")
			return
		}
	}
}
