//gosx:package langserver
package langserver

import (
	"context"
	"luahelper-lsp/langserver/check"
	"luahelper-lsp/langserver/check/common"
	"luahelper-lsp/langserver/pathpre"
	lsp "luahelper-lsp/langserver/protocol"
	"sync"

	"github.com/yinfei8/jrpc2"
	"github.com/yinfei8/jrpc2/handler"
)

// C10-d: pairs of *requests* (which the transport runs concurrently) on documents whose queries reach
// deeper into the analysis state than job a's three-line file: a member resolved through
// setmetatable(namedVar, {__index = T}) (the lookup merges T's members into namedVar's shared member
// map), a member of an annotated class, and a member of a required module table.
type c10doc struct {
	a, b       string
	line, char int // the queried member in a.lua
	query      string
}

var c10docs = []c10doc{
	{"local Base = { f1 = 1 }\nlocal named = { own = 0 }\nlocal Derived = setmetatable(named, { __index = Base })\nlocal v = Derived.f1\n", "hh = 1\n", 3, 18, "Base"},
	{"Base = { f1 = 1 }\nnamed = {}\nDerived = setmetatable(named, { __index = Base })\nprint(Derived.f1)\n", "hh = Derived.f1\n", 3, 14, "Derived"},
	{"---@class K\n---@field kf number\n\n---@type K\nlocal kv = {}\nprint(kv.kf)\n", "---@class K2 : K\n---@field k2 number\n", 5, 9, "K"},
	{"local m = require(\"b\")\nprint(m.hh)\n", "local M = {}\nM.hh = 1\nreturn M\n", 1, 8, "hh"},
}

func c10dServer(root string, d c10doc) (*LspServer, string) {
	pathpre.InitialRootURIAndPath("file://"+root, root)
	dm := common.GConfig.GetDirManager()
	dm.SetVSRootDir(root)
	dm.InitMainDir()
	l := CreateLspServer()
	l.server = jrpc2.NewServer(handler.Map{}, &jrpc2.ServerOptions{AllowPush: false, Concurrency: 1})
	a, b := root+"/a.lua", root+"/b.lua"
	verifVFSPut(a, []byte(d.a))
	verifVFSPut(b, []byte(d.b))
	l.project = check.CreateAllProject([]string{a, b}, nil, nil)
	l.project.HandleCheck()
	l.fileCache.SetFileContent(a, []byte(d.a))
	return l, a
}

func c10dRun(l *LspServer, file string, d c10doc, m int) {
	ctx := context.Background()
	uri := lsp.DocumentURI("file://" + file)
	pos := lsp.TextDocumentPositionParams{TextDocument: lsp.TextDocumentIdentifier{URI: uri}, Position: lsp.Position{Line: uint32(d.line), Character: uint32(d.char)}}
	switch m {
	case c10Hover:
		_, _ = l.TextDocumentHover(ctx, pos)
	case c10Define:
		_, _ = l.TextDocumentDefine(ctx, pos)
	case c10References:
		_, _ = l.TextDocumentReferences(ctx, lsp.ReferenceParams{TextDocumentPositionParams: pos})
	case c10Rename:
		_, _ = l.TextDocumentRename(ctx, lsp.RenameParams{TextDocument: pos.TextDocument, Position: pos.Position, NewName: "zz"})
	case c10DocSymbol:
		_, _ = l.TextDocumentSymbol(ctx, lsp.DocumentSymbolParams{TextDocument: pos.TextDocument})
	case c10WsSymbol:
		_, _ = l.WorkspaceSymbolRequest(ctx, lsp.WorkspaceSymbolParams{Query: d.query})
	case c10Complete:
		_, _ = l.TextDocumentComplete(ctx, lsp.CompletionParams{TextDocumentPositionParams: pos})
	case c10Highlight:
		_, _ = l.TextDocumentHighlight(ctx, pos)
	case c10Color:
		_, _ = l.TextDocumentColor(ctx, lsp.DocumentColorParams{TextDocument: pos.TextDocument})
	case c10VarColor:
		_, _ = l.TextDocumentGetVarColor(ctx, GetColorParams{Uri: string(uri)})
	}
}

func VerifRun_C10d() {
	root := verifVFSRoot()
	d := c10docs[verifConcretize(verifRange("doc", 0, len(c10docs)-1))]
	l, file := c10dServer(root, d)
	a := verifConcretize(verifRange("msgA", 0, c10DidChange-1))
	b := verifConcretize(verifRange("msgB", 0, c10DidChange-1))
	verifObserve("pair", c10names[a]+" then "+c10names[b])
	if verifNative() {
		for k := 0; k < 30; k++ {
			var wg sync.WaitGroup
			wg.Add(2)
			go func() { defer wg.Done(); c10dRun(l, file, d, a) }()
			go func() { defer wg.Done(); c10dRun(l, file, d, b) }()
			wg.Wait()
		}
		verifReach("ran")
		return
	}
	verifTask("A:"+c10names[a], false)
	c10dRun(l, file, d, a)
	verifTask("B:"+c10names[b], false)
	c10dRun(l, file, d, b)
	verifTask("", false)
	verifReach("ran")
}
