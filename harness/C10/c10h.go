//gosx:package langserver
package langserver

import (
	"context"
	lsp "luahelper-lsp/langserver/protocol"
	"strconv"
)

// C10-h: an answer is encoded and sent after its handler has returned and released the request mutex - while
// the next request may already be running. What a handler returns must therefore not change when later
// requests are served: every list-valued answer (workspace/symbol, references, documentSymbol, completion,
// highlight, definition) is digested when its handler returns and again after another request of the same
// kind with other parameters and one of every other kind have been served.

func c10hPos(uri lsp.DocumentURI, line, ch int) lsp.TextDocumentPositionParams {
	return lsp.TextDocumentPositionParams{TextDocument: lsp.TextDocumentIdentifier{URI: uri}, Position: lsp.Position{Line: uint32(line), Character: uint32(ch)}}
}

func c10hRange(r lsp.Range) string {
	n := func(k uint32) string { return strconv.Itoa(int(k)) }
	return n(r.Start.Line) + ":" + n(r.Start.Character) + "-" + n(r.End.Line) + ":" + n(r.End.Character)
}

func c10hSyms(v []lsp.DocumentSymbol) string {
	s := ""
	for i := range v {
		s += v[i].Name + "@" + c10hRange(v[i].Range) + "[" + c10hSyms(v[i].Children) + "] "
	}
	return s
}

func VerifRun_C10h() {
	root := verifVFSRoot()
	l, file := c10server(root)
	ctx := context.Background()
	uri := lsp.DocumentURI("file://" + file)
	other := lsp.DocumentURI("file://" + root + "/b.lua")
	kind := verifConcretize(verifRange("kind", 0, 5))
	// the answer under test, its digest function, and a second request of the same kind with other parameters
	var digest func() string
	var again func()
	shared := false // the second answer lives in the same storage as the first
	switch kind {
	case 0:
		r, _ := l.WorkspaceSymbolRequest(ctx, lsp.WorkspaceSymbolParams{Query: "gg"})
		digest = func() string {
			s := ""
			for i := range r {
				s += r[i].Name + "@" + string(r[i].Location.URI) + c10hRange(r[i].Location.Range) + " "
			}
			return s
		}
		again = func() {
			r2, _ := l.WorkspaceSymbolRequest(ctx, lsp.WorkspaceSymbolParams{Query: "hh"})
			shared = len(r) > 0 && len(r2) > 0 && &r[0] == &r2[0]
		}
	case 1:
		r, _ := l.TextDocumentReferences(ctx, lsp.ReferenceParams{TextDocumentPositionParams: c10hPos(uri, 1, 0)})
		digest = func() string {
			s := ""
			for i := range r {
				s += string(r[i].URI) + c10hRange(r[i].Range) + " "
			}
			return s
		}
		again = func() {
			r2, _ := l.TextDocumentReferences(ctx, lsp.ReferenceParams{TextDocumentPositionParams: c10hPos(uri, 0, 6)})
			shared = len(r) > 0 && len(r2) > 0 && &r[0] == &r2[0]
		}
	case 2:
		r, _ := l.TextDocumentSymbol(ctx, lsp.DocumentSymbolParams{TextDocument: lsp.TextDocumentIdentifier{URI: uri}})
		digest = func() string { return c10hSyms(r) }
		again = func() {
			r2, _ := l.TextDocumentSymbol(ctx, lsp.DocumentSymbolParams{TextDocument: lsp.TextDocumentIdentifier{URI: other}})
			shared = len(r) > 0 && len(r2) > 0 && &r[0] == &r2[0]
		}
	case 3:
		ret, _ := l.TextDocumentComplete(ctx, lsp.CompletionParams{TextDocumentPositionParams: c10hPos(uri, 1, 2)})
		r, _ := ret.(CompletionListTmp)
		digest = func() string {
			s := ""
			for i := range r.Items {
				s += r.Items[i].Label + " "
			}
			return s
		}
		again = func() {
			ret2, _ := l.TextDocumentComplete(ctx, lsp.CompletionParams{TextDocumentPositionParams: c10hPos(uri, 2, 2)})
			r2, _ := ret2.(CompletionListTmp)
			// (a third request with a shorter answer: a reused buffer is only re-allocated when it is too small)
			ret3, _ := l.TextDocumentComplete(ctx, lsp.CompletionParams{TextDocumentPositionParams: c10hPos(uri, 1, 2)})
			r3, _ := ret3.(CompletionListTmp)
			alias := func(a, b []CompletionItemTmp) bool { return len(a) > 0 && len(b) > 0 && &a[0] == &b[0] }
			shared = alias(r.Items, r2.Items) || alias(r2.Items, r3.Items) || alias(r.Items, r3.Items)
		}
	case 4:
		r, _ := l.TextDocumentHighlight(ctx, c10hPos(uri, 1, 0))
		digest = func() string {
			s := ""
			for i := range r {
				s += c10hRange(r[i].Range) + " "
			}
			return s
		}
		again = func() {
			r2, _ := l.TextDocumentHighlight(ctx, c10hPos(uri, 0, 6))
			shared = len(r) > 0 && len(r2) > 0 && &r[0] == &r2[0]
		}
	case 5:
		r, _ := l.TextDocumentDefine(ctx, c10hPos(uri, 2, 6))
		digest = func() string {
			s := ""
			for i := range r {
				s += string(r[i].URI) + c10hRange(r[i].Range) + " "
			}
			return s
		}
		again = func() {
			r2, _ := l.TextDocumentDefine(ctx, c10hPos(other, 0, 5))
			shared = len(r) > 0 && len(r2) > 0 && &r[0] == &r2[0]
		}
	}
	before := digest()
	again()
	for m := 0; m < c10DidChange; m++ {
		c10run(l, file, m)
	}
	verifReach("served")
	if shared {
		verifViolation("", "two answers share their storage: the earlier reply, still to be encoded, is overwritten by the later request")
	}
	if digest() != before {
		verifViolation("", "an answer changes after its handler has returned, while later requests are served (the reply is encoded after the request mutex is released)")
	}
}
