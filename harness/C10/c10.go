//gosx:package langserver
package langserver

import (
	"context"
	"luahelper-lsp/langserver/check"
	"luahelper-lsp/langserver/check/common"
	"luahelper-lsp/langserver/pathpre"
	lsp "luahelper-lsp/langserver/protocol"
	"sync"

	"github.com/yinfei8/jrpc2"
	"github.com/yinfei8/jrpc2/handler"
)

// C10 (first half: no unsynchronised access): two messages A and B that the transport may run
// concurrently are executed on a real LspServer as two logical threads ("tasks"); the engine records
// every read/write of the server's maps with the mutexes held, and an SMT query decides for every
// conflicting pair whether the dispatcher (a notification that arrived earlier has returned before the
// next message starts; requests are otherwise unordered) and the mutexes admit a schedule in which the
// two accesses are adjacent. Natively (replay) the two handlers really run concurrently under the race
// detector.

const (
	c10Hover = iota
	c10Define
	c10References
	c10Rename
	c10DocSymbol
	c10WsSymbol
	c10Complete
	c10Highlight
	c10Color
	c10VarColor
	c10DidChange
	c10DidSave
	c10DidOpen
	c10DidClose
	c10Watched
	c10NMsg
)

var c10names = []string{"hover", "definition", "references", "rename", "documentSymbol", "workspaceSymbol", "completion", "highlight", "documentColor", "getVarColor",
	"didChange", "didSave", "didOpen", "didClose", "didChangeWatchedFiles"}

func c10isNotification(m int) bool { return m >= c10DidChange }

func c10server(root string) (*LspServer, string) {
	pathpre.InitialRootURIAndPath("file://"+root, root)
	dm := common.GConfig.GetDirManager()
	dm.SetVSRootDir(root)
	dm.InitMainDir()
	l := CreateLspServer()
	l.server = jrpc2.NewServer(handler.Map{}, &jrpc2.ServerOptions{AllowPush: false, Concurrency: 1})
	a, b := root+"/a.lua", root+"/b.lua"
	srcA := []byte("local x = 1\ngg = x\nprint(gg)\n")
	srcB := []byte("hh = gg\n")
	verifVFSPut(a, srcA)
	verifVFSPut(b, srcB)
	l.project = check.CreateAllProject([]string{a, b}, nil, nil)
	l.project.HandleCheck()
	l.fileCache.SetFileContent(a, srcA)
	return l, a
}

func c10run(l *LspServer, file string, m int) {
	ctx := context.Background()
	uri := lsp.DocumentURI("file://" + file)
	pos := lsp.TextDocumentPositionParams{TextDocument: lsp.TextDocumentIdentifier{URI: uri}, Position: lsp.Position{Line: 1, Character: 0}}
	switch m {
	case c10Hover:
		_, _ = l.TextDocumentHover(ctx, pos)
	case c10Define:
		_, _ = l.TextDocumentDefine(ctx, pos)
	case c10References:
		_, _ = l.TextDocumentReferences(ctx, lsp.ReferenceParams{TextDocumentPositionParams: pos})
	case c10Rename:
		_, _ = l.TextDocumentRename(ctx, lsp.RenameParams{TextDocument: pos.TextDocument, Position: pos.Position, NewName: "zz"})
	case c10DocSymbol:
		_, _ = l.TextDocumentSymbol(ctx, lsp.DocumentSymbolParams{TextDocument: pos.TextDocument})
	case c10WsSymbol:
		_, _ = l.WorkspaceSymbolRequest(ctx, lsp.WorkspaceSymbolParams{Query: "gg"})
	case c10Complete:
		_, _ = l.TextDocumentComplete(ctx, lsp.CompletionParams{TextDocumentPositionParams: lsp.TextDocumentPositionParams{TextDocument: pos.TextDocument, Position: lsp.Position{Line: 1, Character: 2}}})
	case c10Highlight:
		_, _ = l.TextDocumentHighlight(ctx, pos)
	case c10Color:
		_, _ = l.TextDocumentColor(ctx, lsp.DocumentColorParams{TextDocument: pos.TextDocument})
	case c10VarColor:
		_, _ = l.TextDocumentGetVarColor(ctx, GetColorParams{Uri: string(uri)})
	case c10DidChange:
		_ = l.TextDocumentDidChange(ctx, lsp.DidChangeTextDocumentParams{
			TextDocument:   lsp.VersionedTextDocumentIdentifier{TextDocumentIdentifier: lsp.TextDocumentIdentifier{URI: uri}},
			ContentChanges: []lsp.TextDocumentContentChangeEvent{{Text: "local x = 2\ngg = x\nprint(gg)\n"}}})
	case c10DidSave:
		txt := "local x = 1\ngg = x\nprint(gg)\n" // the server registers save with includeText, so a conformant client sends the text
		_ = l.TextDocumentDidSave(ctx, lsp.DidSaveTextDocumentParams{TextDocument: lsp.TextDocumentIdentifier{URI: uri}, Text: &txt})
	case c10DidOpen:
		_ = l.TextDocumentDidOpen(ctx, lsp.DidOpenTextDocumentParams{TextDocument: lsp.TextDocumentItem{URI: uri, Text: "local x = 1\ngg = x\nprint(gg)\n"}})
	case c10DidClose:
		_ = l.TextDocumentDidClose(ctx, lsp.DidCloseTextDocumentParams{TextDocument: lsp.TextDocumentIdentifier{URI: uri}})
	case c10Watched:
		_ = l.WorkspaceChangeWatchedFiles(ctx, lsp.DidChangeWatchedFilesParams{Changes: []lsp.FileEvent{{URI: uri, Type: lsp.Changed}}})
	}
}

func VerifSetup_C10() { check.VerifSetup_Pipe() }

func VerifRun_C10() {
	root := verifVFSRoot()
	l, file := c10server(root)
	a := verifConcretize(verifRange("msgA", 0, c10NMsg-1))
	b := verifConcretize(verifRange("msgB", 0, c10NMsg-1))
	// a pair of queries cannot conflict (no writes to shared state are expected from them): skip read/read pairs cheaply
	verifObserve("pair", c10names[a]+" then "+c10names[b])
	if verifNative() {
		// really concurrent, repeated, under the race detector
		for k := 0; k < 30; k++ {
			var wg sync.WaitGroup
			wg.Add(2)
			go func() { defer wg.Done(); c10run(l, file, a) }()
			if !c10isNotification(a) {
				go func() { defer wg.Done(); c10run(l, file, b) }()
			} else {
				// the dispatcher does not start B before notification A has returned
				go func() { defer wg.Done() }()
				wg.Wait()
				c10run(l, file, b)
				continue
			}
			wg.Wait()
		}
		verifReach("ran")
		return
	}
	verifTask("A:"+c10names[a], c10isNotification(a))
	c10run(l, file, a)
	verifTask("B:"+c10names[b], c10isNotification(b))
	c10run(l, file, b)
	verifTask("", false)
	verifReach("ran")
}

// intra-handler: one watched-files batch through the real worker pools (the collector and the workers
// must not touch the first-pass result map without a common lock or a happens-before edge)
func VerifRun_C10pool() {
	root := verifVFSRoot()
	l, file := c10server(root)
	other := root + "/b.lua"
	verifVFSPut(file, []byte("local x = 3\ngg = x\nprint(gg)\n"))
	verifVFSPut(other, []byte("hh = gg\nii = 1\n"))
	ev := lsp.DidChangeWatchedFilesParams{Changes: []lsp.FileEvent{
		{URI: lsp.DocumentURI("file://" + file), Type: lsp.Changed}, {URI: lsp.DocumentURI("file://" + other), Type: lsp.Changed}}}
	reps := 1
	if verifNative() {
		reps = 20
	}
	for k := 0; k < reps; k++ {
		_ = l.WorkspaceChangeWatchedFiles(context.Background(), ev)
		if verifNative() {
			verifVFSPut(file, []byte("local x = "+string([]byte{'0' + byte(k%10)})+"\ngg = x\nprint(gg)\n"))
			verifVFSPut(other, []byte("hh = gg\nii = "+string([]byte{'0' + byte(k%10)})+"\n"))
		}
	}
	verifReach("ran")
}

// c: a find-references on a global while two files have unsaved, still-parsing edits: the reference worker
// pool consults the cache of last-good analyses concurrently from several workers.
func VerifRun_C10refs() {
	root := verifVFSRoot()
	l, file := c10server(root)
	other := root + "/b.lua"
	ctx := context.Background()
	for i, f := range []string{file, other} {
		uri := lsp.DocumentURI("file://" + f)
		txt := "local x = 5\ngg = x\nprint(gg)\n"
		if i == 1 {
			txt = "hh = gg\nkk = gg\n"
		}
		_ = l.TextDocumentDidOpen(ctx, lsp.DidOpenTextDocumentParams{TextDocument: lsp.TextDocumentItem{URI: uri, Text: txt}})
		_ = l.TextDocumentDidChange(ctx, lsp.DidChangeTextDocumentParams{
			TextDocument:   lsp.VersionedTextDocumentIdentifier{TextDocumentIdentifier: lsp.TextDocumentIdentifier{URI: uri}},
			ContentChanges: []lsp.TextDocumentContentChangeEvent{{Text: txt + "jj = 1\n"}}})
	}
	pos := lsp.TextDocumentPositionParams{TextDocument: lsp.TextDocumentIdentifier{URI: lsp.DocumentURI("file://" + file)}, Position: lsp.Position{Line: 1, Character: 0}}
	reps := 1
	if verifNative() {
		reps = 30
	}
	for k := 0; k < reps; k++ {
		verifTask("A:references", false)
		refs, _ := l.TextDocumentReferences(ctx, lsp.ReferenceParams{TextDocumentPositionParams: pos})
		if k == 0 {
			verifObserve("refs", string([]byte{'0' + byte(len(refs))}))
		}
		verifTask("B:rename", false)
		_, _ = l.TextDocumentRename(ctx, lsp.RenameParams{TextDocument: pos.TextDocument, Position: pos.Position, NewName: "zz"})
		verifTask("", false)
	}
	verifReach("ran")
}
