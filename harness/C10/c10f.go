//gosx:package langserver
package langserver

import (
	"context"
	lsp "luahelper-lsp/langserver/protocol"
	"time"
)

// C10-f: a request R is queued on the request mutex (an earlier request is still being answered) when a
// didChange arrives; the didChange handler is dispatched concurrently and asks for the mutex after R.
// R's answer must be its answer in one of the two sequential orders (before or after the edit) - never an
// answer computed from the new text with the old analysis or the other way round. In the engine R runs at
// the first Lock the didChange handler performs (verifOnLock); natively the harness holds the mutex,
// starts R, then the didChange, and releases the mutex.
func VerifRun_C10f() {
	root := verifVFSRoot()
	d := c10doc{"local speed = 10\nlocal name = \"car\"\nprint(speed, name)\n", "hh = 1\n", 2, 6, "speed"}
	edited := "local name = 5\nlocal zz = \"car\"\nprint(name, zz)\n" // a paste that changes which identifier sits at the cursor and what it is
	m := []int{c10Hover, c10Define, c10References, c10Complete}[verifConcretize(verifRange("msg", 0, 3))] // (highlight is throttled by wall-clock time after an edit)
	ctx := context.Background()
	change := func(l *LspServer, file string) {
		_ = l.TextDocumentDidChange(ctx, lsp.DidChangeTextDocumentParams{
			TextDocument:   lsp.VersionedTextDocumentIdentifier{TextDocumentIdentifier: lsp.TextDocumentIdentifier{URI: lsp.DocumentURI("file://" + file)}},
			ContentChanges: []lsp.TextDocumentContentChangeEvent{{Text: edited}}})
	}
	// the two sequential answers
	l0, file := c10dServer(root, d)
	before := c10eAnswer(l0, file, d, m)
	change(l0, file)
	after := c10eAnswer(l0, file, d, m)
	verifObserve("sequential", c10names[m]+": "+before+" / "+after)
	// the overlapped run on a fresh server
	l, file := c10dServer(root, d)
	got := ""
	if verifNative() {
		doneR := make(chan string, 1)
		doneC := make(chan bool, 1)
		l.requestMutex.Lock() // an earlier request is still being answered
		go func() { doneR <- c10eAnswer(l, file, d, m) }()
		time.Sleep(20 * time.Millisecond)
		go func() { change(l, file); doneC <- true }()
		time.Sleep(20 * time.Millisecond)
		l.requestMutex.Unlock()
		got = <-doneR
		<-doneC
	} else {
		verifOnLock(func() { got = c10eAnswer(l, file, d, m) })
		change(l, file)
	}
	verifReach("answered")
	if got != before && got != after {
		verifViolation("", "the answer to a request overlapped by a didChange is neither its answer before nor its answer after the edit")
	}
}
