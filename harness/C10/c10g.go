//gosx:package langserver
package langserver

import (
	"context"
	lsp "luahelper-lsp/langserver/protocol"
	"sync"
)

// C10-g: the remaining message kinds - signatureHelp, completionItem/resolve (which reads the completion
// cache a concurrent completion refills), workspace/didChangeConfiguration (applied: not the first one of the
// session) and workspace/didChangeWorkspaceFolders - paired with every other kind, as in job a.

const (
	c10SigHelp = c10NMsg + iota
	c10Resolve
	c10Config
	c10Folders
	c10NAll
)

var c10gNames = []string{"signatureHelp", "completionResolve", "didChangeConfiguration", "didChangeWorkspaceFolders"}

func c10gName(m int) string {
	if m < c10NMsg {
		return c10names[m]
	}
	return c10gNames[m-c10NMsg]
}

func c10gIsNotification(m int) bool {
	return (m < c10NMsg && c10isNotification(m)) || m == c10Config || m == c10Folders
}

func c10gRun(l *LspServer, root, file string, m int) {
	if m < c10NMsg {
		c10run(l, file, m)
		return
	}
	ctx := context.Background()
	uri := lsp.DocumentURI("file://" + file)
	switch m {
	case c10SigHelp:
		_, _ = l.TextDocumentSignatureHelp(ctx, lsp.TextDocumentPositionParams{TextDocument: lsp.TextDocumentIdentifier{URI: uri}, Position: lsp.Position{Line: 2, Character: 6}})
	case c10Resolve:
		_, _ = l.TextDocumentCompleteResolve(ctx, lsp.CompletionItem{Label: "gg", Data: float64(0)})
	case c10Config:
		vs := c17fParams(nil, nil)
		vs.Settings.Luahelper.Base.ReferenceMaxNum = 77
		vs.Settings.Luahelper.Base.ReferenceDefineFlag = true
		vs.Settings.Luahelper.Base.PreviewFieldsNum = 9
		_ = l.ChangeConfiguration(ctx, vs)
	case c10Folders:
		var p lsp.DidChangeWorkspaceFoldersParams
		p.Event.Added = []lsp.WorkspaceFolder{{URI: "file://" + root + "/extra", Name: "extra"}}
		_ = l.WorkspaceChangeWorkspaceFolders(ctx, p)
	}
}

func VerifRun_C10g() {
	root := verifVFSRoot()
	l, file := c10server(root)
	verifVFSPut(root+"/extra/e.lua", []byte("ee = gg\n"))
	l.changeConfFlag = true // the session's first configuration notification has been seen
	// a completion has been answered before (there is something to resolve)
	c10run(l, file, c10Complete)
	a := verifConcretize(verifRange("msgA", 0, c10NAll-1))
	b := verifConcretize(verifRange("msgB", 0, c10NAll-1))
	if a < c10NMsg && b < c10NMsg {
		return // job a
	}
	verifObserve("pair", c10gName(a)+" then "+c10gName(b))
	if verifNative() {
		for k := 0; k < 30; k++ {
			var wg sync.WaitGroup
			wg.Add(2)
			go func() { defer wg.Done(); c10gRun(l, root, file, a) }()
			if !c10gIsNotification(a) {
				go func() { defer wg.Done(); c10gRun(l, root, file, b) }()
			} else {
				go func() { defer wg.Done() }()
				wg.Wait()
				c10gRun(l, root, file, b)
				continue
			}
			wg.Wait()
		}
		verifReach("ran")
		return
	}
	verifTask("A:"+c10gName(a), c10gIsNotification(a))
	c10gRun(l, root, file, a)
	verifTask("B:"+c10gName(b), c10gIsNotification(b))
	c10gRun(l, root, file, b)
	verifTask("", false)
	verifReach("ran")
}
