//gosx:package langserver
package langserver

import (
	"context"
	lsp "luahelper-lsp/langserver/protocol"
	"strconv"
	"time"
)

// C10-e (second half of the property: answers are serialisable). A query R arrives while the handler of
// another read-only message still holds the request mutex. Every sequential order of the two messages
// gives R the same answer (the other message changes nothing), so R's answer must be that one. In the
// engine "another handler holds the mutex" is the intrinsic verifLockBusy (Lock waits, TryLock fails);
// natively the harness really holds the request mutex in another goroutine while R is dispatched.
func c10eAnswer(l *LspServer, file string, d c10doc, m int) string {
	ctx := context.Background()
	uri := lsp.DocumentURI("file://" + file)
	pos := lsp.TextDocumentPositionParams{TextDocument: lsp.TextDocumentIdentifier{URI: uri}, Position: lsp.Position{Line: uint32(d.line), Character: uint32(d.char)}}
	n := func(k int) string { return strconv.Itoa(k) }
	switch m {
	case c10Hover:
		r, _ := l.TextDocumentHover(ctx, pos)
		if h, ok := r.(MarkupHover); ok {
			return "hover:" + h.Contents.Value
		}
		return "hover:-"
	case c10Define:
		r, _ := l.TextDocumentDefine(ctx, pos)
		s := "def:" + n(len(r))
		for _, x := range r {
			s += " " + n(int(x.Range.Start.Line)) + ":" + n(int(x.Range.Start.Character))
		}
		return s
	case c10References:
		r, _ := l.TextDocumentReferences(ctx, lsp.ReferenceParams{TextDocumentPositionParams: pos})
		return "refs:" + n(len(r))
	case c10Rename:
		r, _ := l.TextDocumentRename(ctx, lsp.RenameParams{TextDocument: pos.TextDocument, Position: pos.Position, NewName: "zz"})
		k := 0
		for _, e := range r.Changes {
			k += len(e)
		}
		return "rename:" + n(k)
	case c10DocSymbol:
		r, _ := l.TextDocumentSymbol(ctx, lsp.DocumentSymbolParams{TextDocument: pos.TextDocument})
		return "outline:" + n(len(r))
	case c10WsSymbol:
		r, _ := l.WorkspaceSymbolRequest(ctx, lsp.WorkspaceSymbolParams{Query: d.query})
		return "wssym:" + n(len(r))
	case c10Complete:
		r, _ := l.TextDocumentComplete(ctx, lsp.CompletionParams{TextDocumentPositionParams: pos})
		if cl, ok := r.(CompletionListTmp); ok {
			return "complete:" + n(len(cl.Items))
		}
		return "complete:-"
	case c10Highlight:
		r, _ := l.TextDocumentHighlight(ctx, pos)
		return "highlight:" + n(len(r))
	case c10Color:
		r, _ := l.TextDocumentColor(ctx, lsp.DocumentColorParams{TextDocument: pos.TextDocument})
		return "color:" + n(len(r))
	case c10VarColor:
		r, _ := l.TextDocumentGetVarColor(ctx, GetColorParams{Uri: string(uri)})
		return "varcolor:" + n(len(r))
	}
	return "?"
}

func VerifRun_C10e() {
	root := verifVFSRoot()
	d := c10docs[verifConcretize(verifRange("doc", 0, len(c10docs)-1))]
	l, file := c10dServer(root, d)
	m := verifConcretize(verifRange("msg", 0, c10DidChange-1))
	want := c10eAnswer(l, file, d, m) // the answer in any sequential order (the other message is read-only)
	verifObserve("sequential", c10names[m]+" -> "+want)
	got := ""
	if verifNative() {
		done := make(chan string, 1)
		l.requestMutex.Lock() // another handler is running
		go func() { done <- c10eAnswer(l, file, d, m) }()
		time.Sleep(30 * time.Millisecond)
		l.requestMutex.Unlock()
		got = <-done
	} else {
		verifLockBusy(true)
		got = c10eAnswer(l, file, d, m)
		verifLockBusy(false)
	}
	verifReach("answered")
	if got != want {
		verifViolation("", "the answer to a request that arrives while another (read-only) handler runs differs from its answer in every sequential order")
	}
}
