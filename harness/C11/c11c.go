//gosx:package langserver
package langserver

import (
	"context"
	lsp "luahelper-lsp/langserver/protocol"
	"strconv"
)

// C11-c: rename through the real handler under client settings that limit what find-references DISPLAYS
// (ReferenceMaxNum, ReferenceIncudeDefine): the edit still covers every occurrence of the variable - a local
// with OCC uses and a global used in two files - and applying it leaves no occurrence under the old name.
func VerifRun_C11c() {
	root := verifVFSRoot()
	occ := verifParam("OCC")
	srcA := "local total = 0\ncount = 0\n"
	for i := 0; i < occ; i++ {
		srcA += "total = total + " + strconv.Itoa(i) + "\ncount = count + total\n"
	}
	srcA += "print(total, count)\n"
	srcB := "print(count)\nfunction show() return count + 1 end\n"
	a, b := root+"/a.lua", root+"/b.lua"
	verifVFSPut(a, []byte(srcA))
	verifVFSPut(b, []byte(srcB))
	c08view = map[string]string{}
	l := c08eServer(root, []string{a, b})
	ctx := context.Background()
	vs := c17fParams(nil, nil)
	vs.Settings.Luahelper.Base.ReferenceMaxNum = verifConcretize(verifRange("maxnum", 1, 3))
	vs.Settings.Luahelper.Base.ReferenceDefineFlag = verifBool("includeDefine")
	_ = l.ChangeConfiguration(ctx, vs)
	uri := lsp.DocumentURI("file://" + a)
	_ = l.TextDocumentDidOpen(ctx, lsp.DidOpenTextDocumentParams{TextDocument: lsp.TextDocumentItem{URI: uri, Text: srcA}})
	name, line, col := "total", 0, 6
	files := map[string]string{"file://" + a: srcA}
	if verifBool("global") {
		name, line, col = "count", 1, 0
		files["file://"+b] = srcB
	}
	edit, err := l.TextDocumentRename(ctx, lsp.RenameParams{TextDocument: lsp.TextDocumentIdentifier{URI: uri}, Position: lsp.Position{Line: uint32(line), Character: uint32(col)}, NewName: "zz"})
	verifReach("renamed")
	if err != nil {
		verifViolation("", "rename of a plain variable fails")
		return
	}
	// count the occurrences of the old name as whole words, and the edits per file
	want, got := 0, 0
	for _, text := range files {
		for i := 0; i+len(name) <= len(text); i++ {
			if text[i:i+len(name)] == name && (i == 0 || !c11cWord(text[i-1])) && (i+len(name) == len(text) || !c11cWord(text[i+len(name)])) {
				want++
			}
		}
	}
	for u, es := range edit.Changes {
		if _, ok := files[string(u)]; ok {
			got += len(es)
		}
	}
	if got != want {
		verifObserve("edits", strconv.Itoa(got)+" of "+strconv.Itoa(want))
		verifViolation("", "the rename edit does not cover every occurrence of the variable (display limits of find-references must not apply)")
	}
}

func c11cWord(c byte) bool {
	return c == '_' || (c >= '0' && c <= '9') || (c >= 'a' && c <= 'z') || (c >= 'A' && c <= 'Z')
}
