//gosx:package langserver/check
package check

import (
	"luahelper-lsp/langserver/check/common"
	"strconv"
)

// C17-h: luahelper.json mode: ignoring one diagnostic type through IgnoreErrorTypes removes exactly that
// type's diagnostics, also for the annotation family: 18 (annotation warnings) and 29 (duplicate value in an
// ---@enum section) are produced by the same scan of the comment blocks.
const c17hProg = "---@enum start @comment quality\nQUALITY_WHITE = 1\nQUALITY_GREEN = 2\nQUALITY_BLUE = 2\n---@enum end @comment quality\n\n---@type NoSuchType\nlocal v = 1\nlocal unused = 2\nprint(v, QUALITY_WHITE)\n"

var c17hTypes = []int{4, 18, 29}

func c17hRun(root string, ignore int) map[string]bool {
	vpInit()
	c08workspace(root)
	js := "{\n \"BaseDir\": \"./\",\n \"ShowWarnFlag\": 1,\n \"IgnoreErrorTypes\": ["
	if ignore > 0 {
		js += strconv.Itoa(ignore)
	}
	js += "]\n}\n"
	verifVFSPut(root+"/luahelper.json", []byte(js))
	if err := common.GConfig.ReadConfig(root, "luahelper.json", nil, nil, nil); err != nil {
		return nil
	}
	common.GConfig.InsertIngoreSystemAnnotateType() // (what start-up does after reading the configuration)
	common.GConfig.GetDirManager().InitMainDir()
	file := root + "/a.lua"
	p := CreateAllProject([]string{file}, nil, nil)
	p.HandleCheck()
	out := map[string]bool{}
	for _, e := range p.GetAllFileErrorInfo()[file] {
		out[strconv.Itoa(int(e.ErrType))+"@"+strconv.Itoa(e.Loc.StartLine)+":"+strconv.Itoa(e.Loc.StartColumn)] = true
	}
	return out
}

func VerifRun_C17h() {
	root := verifVFSRoot()
	verifVFSPut(root+"/a.lua", []byte(c17hProg))
	ti := verifConcretize(verifRange("ignored", 0, len(c17hTypes)-1))
	base := c17hRun(root, 0)
	got := c17hRun(root, c17hTypes[ti])
	verifReach("compared")
	if base == nil || got == nil {
		verifViolation("", "a well-formed luahelper.json is rejected")
		return
	}
	seen := map[int]bool{}
	for k := range base {
		t := 0
		for i := 0; i < len(k) && k[i] != '@'; i++ {
			t = t*10 + int(k[i]-'0')
		}
		seen[t] = true
		off := t == c17hTypes[ti]
		if off && got[k] {
			verifViolation("", "a diagnostic of an ignored type is still reported")
		}
		if !off && !got[k] {
			verifObserve("lost", k)
			verifViolation("", "ignoring one diagnostic type removed a diagnostic of another type")
		}
	}
	for k := range got {
		if !base[k] {
			verifViolation("", "ignoring a diagnostic type produced a diagnostic that is absent otherwise")
		}
	}
	for _, t := range c17hTypes {
		if !seen[t] {
			verifObserve("missing-type", strconv.Itoa(t))
			verifViolation("", "harness: the program no longer produces a diagnostic of every listed type")
		}
	}
}
