//gosx:package langserver
package langserver

import "luahelper-lsp/langserver/check/common"

// C17-b: each NAMED client switch silences exactly the diagnostic type it names. The name -> type table
// below is typed from the documentation (config.md: type numbers; package.json/README: switch names),
// independently of the positional list the server builds. Both entry points are exercised: the
// initialize options and the later configuration-change parameters.

type c17named struct {
	typ   int
	setIO func(o *InitializationOptions, v bool)
	setWP func(o *WarnParams, v bool)
}

var c17table = []c17named{
	{1, func(o *InitializationOptions, v bool) { o.CheckSyntax = v }, func(o *WarnParams, v bool) { o.CheckSyntax = v }},
	{2, func(o *InitializationOptions, v bool) { o.CheckNoDefine = v }, func(o *WarnParams, v bool) { o.CheckNoDefine = v }},
	{3, func(o *InitializationOptions, v bool) { o.CheckAfterDefine = v }, func(o *WarnParams, v bool) { o.CheckAfterDefine = v }},
	{4, func(o *InitializationOptions, v bool) { o.CheckLocalNoUse = v }, func(o *WarnParams, v bool) { o.CheckLocalNoUse = v }},
	{5, func(o *InitializationOptions, v bool) { o.CheckTableDuplicateKey = v }, func(o *WarnParams, v bool) { o.CheckTableDuplicateKey = v }},
	{6, func(o *InitializationOptions, v bool) { o.CheckReferNoFile = v }, func(o *WarnParams, v bool) { o.CheckReferNoFile = v }},
	{7, func(o *InitializationOptions, v bool) { o.CheckAssignParamNum = v }, func(o *WarnParams, v bool) { o.CheckAssignParamNum = v }},
	{8, func(o *InitializationOptions, v bool) { o.CheckLocalDefineParamNum = v }, func(o *WarnParams, v bool) { o.CheckLocalDefineParamNum = v }},
	{9, func(o *InitializationOptions, v bool) { o.CheckGotoLable = v }, func(o *WarnParams, v bool) { o.CheckGotoLable = v }},
	{10, func(o *InitializationOptions, v bool) { o.CheckFuncParam = v }, func(o *WarnParams, v bool) { o.CheckFuncParam = v }},
	{11, func(o *InitializationOptions, v bool) { o.CheckImportModuleVar = v }, func(o *WarnParams, v bool) { o.CheckImportModuleVar = v }},
	{12, func(o *InitializationOptions, v bool) { o.CheckIfNotVar = v }, func(o *WarnParams, v bool) { o.CheckIfNotVar = v }},
	{13, func(o *InitializationOptions, v bool) { o.CheckFunctionDuplicateParam = v }, func(o *WarnParams, v bool) { o.CheckFunctionDuplicateParam = v }},
	{14, func(o *InitializationOptions, v bool) { o.CheckBinaryExpressionDuplicate = v }, func(o *WarnParams, v bool) { o.CheckBinaryExpressionDuplicate = v }},
	{15, func(o *InitializationOptions, v bool) { o.CheckErrorOrAlwaysTrue = v }, func(o *WarnParams, v bool) { o.CheckErrorOrAlwaysTrue = v }},
	{16, func(o *InitializationOptions, v bool) { o.CheckErrorAndAlwaysFalse = v }, func(o *WarnParams, v bool) { o.CheckErrorAndAlwaysFalse = v }},
	{17, func(o *InitializationOptions, v bool) { o.CheckNoUseAssign = v }, func(o *WarnParams, v bool) { o.CheckNoUseAssign = v }},
	{18, func(o *InitializationOptions, v bool) { o.CheckAnnotateType = v }, func(o *WarnParams, v bool) { o.CheckAnnotateType = v }},
	{19, func(o *InitializationOptions, v bool) { o.CheckDuplicateIf = v }, func(o *WarnParams, v bool) { o.CheckDuplicateIf = v }},
	{20, func(o *InitializationOptions, v bool) { o.CheckSelfAssign = v }, func(o *WarnParams, v bool) { o.CheckSelfAssign = v }},
	{21, func(o *InitializationOptions, v bool) { o.CheckFloatEq = v }, func(o *WarnParams, v bool) { o.CheckFloatEq = v }},
	{22, func(o *InitializationOptions, v bool) { o.CheckClassField = v }, func(o *WarnParams, v bool) { o.CheckClassField = v }},
	{23, func(o *InitializationOptions, v bool) { o.CheckConstAssign = v }, func(o *WarnParams, v bool) { o.CheckConstAssign = v }},
	{24, func(o *InitializationOptions, v bool) { o.CheckFuncParamType = v }, func(o *WarnParams, v bool) { o.CheckFuncParamType = v }},
	{25, func(o *InitializationOptions, v bool) { o.CheckFuncReturnType = v }, func(o *WarnParams, v bool) { o.CheckFuncReturnType = v }},
}

func VerifSetup_C17b() {
	common.GlobalConfigDefautInit()
	common.GConfig.IntialGlobalVar()
}

func VerifRun_C17b() {
	k := verifParam("K")
	on := make([]bool, 26) // on[t] for t = 1..25, on[0] = AllEnable
	nfalse := 0
	for i := range on {
		on[i] = verifBool("sw")
		if !on[i] {
			nfalse++
		}
		verifAssume(nfalse <= k)
	}
	var flags []bool
	if verifBool("viaConfigurationChange") {
		wp := &WarnParams{AllEnable: on[0]}
		for _, e := range c17table {
			e.setWP(wp, on[e.typ])
		}
		flags = getWarnCheckList(wp)
	} else {
		io := &InitializationOptions{AllEnable: on[0]}
		for _, e := range c17table {
			e.setIO(io, on[e.typ])
		}
		flags = getCheckFlagList(io)
	}
	common.GConfig.HandleChangeCheckList(flags, nil, nil)
	t := verifConcretize(verifRange("t", 1, 29))
	got := common.GConfig.IsIgnoreErrorFile("/w/x.lua", common.CheckErrorType(t))
	want := !on[0] || t > 25 || !on[t]
	verifReach("checked")
	if got != want {
		verifViolation("", "a named switch silences a diagnostic type other than the one it names (or fails to silence its own)")
	}
	// the cross-file analyses only run when one of their types is enabled
	special := common.GConfig.IsSpecialCheck()
	_ = special
}
