//gosx:package langserver
package langserver

import (
	"context"
	lsp "luahelper-lsp/langserver/protocol"

	"github.com/yinfei8/jrpc2"
	"github.com/yinfei8/jrpc2/handler"
)

// C17-f: file / folder ignore rules given by the client - in the initialize options and in later
// configuration changes - through the real handlers. A workspace of four files in nested folders, each
// with one unused local; the initial IgnoreFileOrDir / IgnoreFileOrDirError lists and those of one or two
// later workspace/didChangeConfiguration notifications are solver-chosen from literal and regular-expression
// rules. After the last notification the client's view (last publishDiagnostics per URI) must show the
// diagnostic exactly for the files no rule of the LAST configuration matches - the same view a server
// started with that configuration shows.

var c17fRules = [][]string{
	nil,
	{"gen/"},
	{"lib/sub/"},
	{"a.lua"},
	{"lib/.*"},
	{"gen/", "lib/b.lua"},
	{"^lib/sub/c%.lua$"}, // (a pattern that matches nothing: % is no escape in Go regular expressions)
	{"sub"},
	{"^gen/"}, // a regular expression anchored at the start of the path relative to the workspace
	{"gen/d"}, // a folder rule (no .lua suffix) whose text continues into a file name: gen/d.lua is not in a folder gen/d
}

var c17fFiles = []string{"a.lua", "lib/b.lua", "lib/sub/c.lua", "gen/d.lua"}

// which of the four files a rule list matches (typed from the documentation: a rule matches when it occurs
// in the path relative to the workspace, or matches it as a regular expression)
var c17fMatch = [][]bool{
	{false, false, false, false},
	{false, false, false, true},
	{false, false, true, false},
	{true, false, false, false},
	{false, true, true, false},
	{false, true, false, true},
	{false, false, false, false},
	{false, false, true, false},
	{false, false, false, true},
	{false, false, false, false},
}

// the rules of IgnoreFileOrDirError are matched against the complete file name, so a pattern anchored at the
// start of the relative path matches nothing there
func c17fMatchErr(rule int, file int) bool {
	if rule == 8 {
		return false
	}
	if rule == 9 {
		return file == 3 // (matched against the complete file name: gen/d.lua contains gen/d)
	}
	return c17fMatch[rule][file]
}

func c17fParams(ignore, ignoreErr []string) ChangeConfigurationParams {
	var vs ChangeConfigurationParams
	w := &vs.Settings.Luahelper.WarnParam
	w.AllEnable, w.CheckSyntax, w.CheckNoDefine, w.CheckAfterDefine, w.CheckLocalNoUse = true, true, true, true, true
	vs.Settings.Luahelper.Base.IgnoreFileOrDir = ignore
	vs.Settings.Luahelper.Base.IgnoreFileOrDirError = ignoreErr
	vs.Settings.Luahelper.Base.RequirePathSeparator = "."
	return vs
}

func VerifRun_C17f() {
	root := verifVFSRoot()
	for _, f := range c17fFiles {
		verifVFSPut(root+"/"+f, []byte("local u = 1\n"))
	}
	c08view = map[string]string{}
	ctx := context.Background()
	l := CreateLspServer()
	l.server = jrpc2.NewServer(handler.Map{}, &jrpc2.ServerOptions{AllowPush: false, Concurrency: 1})
	nr := verifParamOr("RULES", len(c17fRules)) - 1
	r0 := verifConcretize(verifRange("initIgnore", 0, nr))
	e0 := (r0*3 + 1) % (nr + 1) // quick tier: the initial error list follows the initial ignore list (every rule occurs once)
	if verifParamOr("FULL", 1) == 1 {
		e0 = verifConcretize(verifRange("initIgnoreErr", 0, nr))
	}
	opts := getDefaultIntialOptions()
	opts.AllEnable, opts.CheckLocalNoUse = true, true
	opts.IgnoreFileOrDir = c17fRules[r0]
	opts.IgnoreFileOrDirError = c17fRules[e0]
	var ip InitializeParams
	ip.RootURI = lsp.DocumentURI("file://" + root)
	ip.RootPath = root
	ip.InitializationOptions = opts
	_, err := l.Initialize(ctx, ip)
	if err != nil {
		verifViolation("", "harness: initialize failed")
		return
	}
	_ = l.Initialized(ctx, InitializedParams{})
	// the first configuration notification after start-up only records settings
	_ = l.ChangeConfiguration(ctx, c17fParams(c17fRules[r0], c17fRules[e0]))
	// the user may have a document open when the settings change (document events consult the ignore rules too)
	if verifParam("BATCH") == 0 && verifBool("documentOpen") {
		_ = l.TextDocumentDidOpen(ctx, lsp.DidOpenTextDocumentParams{TextDocument: lsp.TextDocumentItem{URI: lsp.DocumentURI("file://" + root + "/a.lua"), Text: "local u = 1\n"}})
	}
	last, lastErr := r0, e0
	for k := 0; k < verifParam("CHANGES"); k++ {
		last = verifConcretize(verifRange("ignore", 0, nr))
		lastErr = verifConcretize(verifRange("ignoreErr", 0, nr))
		_ = l.ChangeConfiguration(ctx, c17fParams(c17fRules[last], c17fRules[lastErr]))
	}
	verifReach("configured")
	view := ""
	for _, f := range c17fFiles {
		view += "[" + f + ": " + c08view["file://"+root+"/"+f] + "]"
	}
	verifObserve("view", view)
	for i, f := range c17fFiles {
		shown := c08view["file://"+root+"/"+f] != ""
		want := !c17fMatch[last][i] && !c17fMatchErr(lastErr, i)
		if shown && !want {
			verifViolation("", "a file matched by an ignore rule of the current configuration still shows its diagnostics")
		}
		if !shown && want {
			verifViolation("", "a file that no ignore rule of the current configuration matches shows no diagnostics")
		}
	}
	if verifParam("BATCH") == 0 {
		return
	}
	// all four files are rewritten on disk (git pull, formatter) and announced in ONE watched-files
	// notification, in a solver-chosen rotation: the events about ignored files must not affect the others
	rot := verifConcretize(verifRange("rotation", 0, len(c17fFiles)-1))
	var evs []lsp.FileEvent
	for k := range c17fFiles {
		f := c17fFiles[(k+rot)%len(c17fFiles)]
		verifVFSPut(root+"/"+f, []byte("local u = 1\nlocal w = 2\n"))
		evs = append(evs, lsp.FileEvent{URI: lsp.DocumentURI("file://" + root + "/" + f), Type: lsp.Changed})
	}
	_ = l.WorkspaceChangeWatchedFiles(ctx, lsp.DidChangeWatchedFilesParams{Changes: evs})
	verifReach("batch")
	view2 := ""
	for i, f := range c17fFiles {
		v := c08view["file://"+root+"/"+f]
		view2 += "[" + f + ": " + v + "]"
		want := !c17fMatch[last][i] && !c17fMatchErr(lastErr, i)
		two := false
		for k := 0; k+1 < len(v); k++ {
			if v[k] == ';' && k+2 < len(v) {
				two = true // (at least two entries)
			}
		}
		if want && !two {
			verifViolation("", "after a batch of watched-file events a file that no ignore rule matches does not show the diagnostics of its new content")
		}
		if !want && v != "" {
			verifViolation("", "after a batch of watched-file events a file matched by an ignore rule shows diagnostics")
		}
	}
	verifObserve("view-after-batch", view2)
}

// Environment model (symbolic run only): the usage-statistics reporter (a UDP socket and a 120 s sleep
// loop in its own goroutine) does nothing.
func (l *LspServer) verifNoReport() {}
