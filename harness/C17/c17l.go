//gosx:package langserver
package langserver

import (
	"context"
	lsp "luahelper-lsp/langserver/protocol"

	"github.com/yinfei8/jrpc2"
	"github.com/yinfei8/jrpc2/handler"
)

// C17-l: project mode configured in luahelper.json (ProjectFiles) with the file-not-found check (type 6) ignored
// or not - globally or by a per-file rule. The entry file requires a module that does not exist at start-up and
// is created afterwards (watched-file event); the module defines the globals the entry file uses. Ignoring
// type 6 removes exactly the type-6 diagnostic: before and after the module appears, the other diagnostics of the
// entry file are those of the run with nothing ignored.
func c17lRun(root string, cfg int) (before, after string, ok bool) {
	ignore := ""
	switch cfg {
	case 1:
		ignore = ",\n \"IgnoreErrorTypes\": [6]"
	case 2:
		ignore = ",\n \"IgnoreFileErrTypes\": [{\"File\": \"main.lua\", \"Types\": [6]}]"
	}
	verifVFSPut(root+"/luahelper.json", []byte("{\n \"BaseDir\": \"./\",\n \"ShowWarnFlag\": 1,\n \"ProjectFiles\": [\"main.lua\"]"+ignore+"\n}\n"))
	verifVFSPut(root+"/main.lua", []byte("require(\"session\")\n\nlocal function run()\n    local s = Session_new(\"gate\")\n    Session_send(s, \"hello\")\nend\n\nrun()\nlocal unused = 2\n"))
	verifVFSPut(root+"/other.lua", []byte("other_global = 1\n"))
	verifVFSDel(root + "/net/session.lua")
	c08view = map[string]string{}
	ctx := context.Background()
	l := CreateLspServer()
	l.server = jrpc2.NewServer(handler.Map{}, &jrpc2.ServerOptions{AllowPush: false, Concurrency: 1})
	var ip InitializeParams
	ip.RootURI = lsp.DocumentURI("file://" + root)
	ip.RootPath = root
	ip.InitializationOptions = getDefaultIntialOptions()
	if _, err := l.Initialize(ctx, ip); err != nil {
		return "", "", false
	}
	_ = l.Initialized(ctx, InitializedParams{})
	um := "file://" + root + "/main.lua"
	before = c17lWithout6(c08view[um])
	verifVFSPut(root+"/net/session.lua", []byte("function Session_new() return {} end\nfunction Session_send(s, x) end\n"))
	_ = l.WorkspaceChangeWatchedFiles(ctx, lsp.DidChangeWatchedFilesParams{Changes: []lsp.FileEvent{{URI: lsp.DocumentURI("file://" + root + "/net/session.lua"), Type: lsp.Created}}})
	after = c17lWithout6(c08view[um])
	return before, after, true
}

// c17lWithout6 drops the file-not-found entries from a rendered view ("line:col message; ...")
func c17lWithout6(v string) string {
	out := ""
	for len(v) > 0 {
		k := 0
		for k+1 < len(v) && !(v[k] == ';' && v[k+1] == ' ') {
			k++
		}
		item := v
		if k+1 < len(v) {
			item, v = v[:k], v[k+2:]
		} else {
			v = ""
		}
		is6 := false
		for i := 0; i+13 <= len(item); i++ {
			if item[i:i+13] == "not find file" {
				is6 = true
			}
		}
		if !is6 && item != "" {
			out += item + "; "
		}
	}
	return out
}

func VerifRun_C17l() {
	root := verifVFSRoot()
	cfg := verifConcretize(verifRange("ignored", 1, 2))
	b0, a0, ok0 := c17lRun(root, 0)
	b1, a1, ok1 := c17lRun(root, cfg)
	verifReach("compared")
	if !ok0 || !ok1 {
		verifViolation("", "a well-formed luahelper.json is rejected")
		return
	}
	if b0 != b1 {
		verifObserve("before", b0+" / "+b1)
		verifViolation("", "ignoring the file-not-found check changes other diagnostics of the entry file at start-up")
	}
	if a0 != a1 {
		verifObserve("after", a0+" / "+a1)
		verifViolation("", "ignoring the file-not-found check changes other diagnostics of the entry file after the required module was created")
	}
}
