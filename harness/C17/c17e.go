//gosx:package langserver/check/common
package common

import "strconv"

// C17-e: the same rules given by luahelper.json. The file text is generated from solver-chosen values
// (master switch, one globally ignored type, an ignored file, two per-file type rules with independent
// type lists), read by the real ReadConfig, and the effect on every (file, type) pair is compared with
// the documented meaning: a diagnostic of type t in file f is silenced iff warnings are off, or t is in
// IgnoreErrorTypes, or f is in IgnoreFileErr, or some IgnoreFileErrTypes rule for f lists t.
func VerifRun_C17e() {
	root := verifVFSRoot()
	types3 := []int{4, 5, 20}
	show := verifBool("show")
	tg := verifConcretize(verifRange("tg", 0, 3)) // 0: nothing ignored globally
	ta := verifConcretize(verifRange("ta", 0, 2))
	tb := verifConcretize(verifRange("tb", 0, 2))
	tb2 := verifConcretize(verifRange("tb2", 0, 3)) // optional second type of rule b
	ignC := verifBool("ignoreC")
	js := "{\n \"BaseDir\": \"./\",\n \"ShowWarnFlag\": "
	if show {
		js += "1"
	} else {
		js += "0"
	}
	js += ",\n \"IgnoreErrorTypes\": ["
	if tg > 0 {
		js += strconv.Itoa(types3[tg-1])
	}
	js += "],\n \"IgnoreFileErr\": ["
	if ignC {
		js += "\"c.lua\""
	}
	js += "],\n \"IgnoreFileErrTypes\": [\n  {\"File\": \"a.lua\", \"Types\": [" + strconv.Itoa(types3[ta]) + "]},\n  {\"File\": \"b.lua\", \"Types\": [" + strconv.Itoa(types3[tb])
	if tb2 > 0 {
		js += ", " + strconv.Itoa(types3[tb2-1])
	}
	js += "]}\n ]\n}\n"
	verifVFSPut(root+"/luahelper.json", []byte(js))
	verifObserve("json", js)
	GConfig.dirManager.SetVSRootDir(root)
	GConfig.dirManager.InitMainDir()
	if err := GConfig.ReadConfig(root, "luahelper.json", nil, nil, nil); err != nil {
		verifViolation("", "a well-formed luahelper.json is rejected")
		return
	}
	verifReach("read")
	for _, f := range []string{"a.lua", "b.lua", "c.lua", "d.lua"} {
		for _, t := range types3 {
			want := !show || (tg > 0 && t == types3[tg-1]) || (ignC && f == "c.lua") ||
				(f == "a.lua" && t == types3[ta]) || (f == "b.lua" && (t == types3[tb] || (tb2 > 0 && t == types3[tb2-1])))
			got := GConfig.IsIgnoreErrorFile(root+"/"+f, CheckErrorType(t))
			if got && !want {
				verifViolation("", "luahelper.json: a diagnostic type is silenced in a file although no rule covers it")
			}
			if !got && want {
				verifViolation("", "luahelper.json: a diagnostic the configuration excludes is still shown")
			}
		}
	}
}
