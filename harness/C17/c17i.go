//gosx:package langserver/check
package check

import (
	"luahelper-lsp/langserver/check/common"
	"strconv"
)

// C17-i: luahelper.json mode with the opt-in checks (OpenErrorTypes 22..28) switched on: ignoring one type
// through IgnoreErrorTypes removes exactly that type's diagnostics. Several of these checks hang off the
// code path of another check (argument types are checked where argument counts are), so a switch can take a
// neighbour with it.
const c17iProg = "---@class Pt\n---@field x number\nlocal Pt = {}\n" +
	"---@param fmt string\nlocal function trace(fmt, ...) return fmt end\ntrace(\"a\")\ntrace(1, nil, {})\ntrace({})\n" +
	"---@param a number\n---@param b string\n---@return number, string\nfunction pair(a, b) if a then return 1 end return 1, \"s\", 3 end\npair(1, \"s\")\npair(\"s\", 2)\npair(1, \"s\", 3)\n" +
	"---@param a number\n---@return number\nlocal function one(a) return \"s\" end\none(\"x\")\none(true)\nlocal function caller() one({}) pair(true, true) end\ncaller()\n" +
	"---@type Pt\nlocal p = { x = 1, y = 2 }\np.z = 3\n" +
	"---@type const number\nlocal K = 1\nK = 2\n" +
	"local k <const> = 1\nk = 2\nlocal s = \"a\" + 1\nlocal s2 = true * 2\nlocal s3 = 1 - {}\n---@type string\nlocal str = \"x\"\nlocal s4 = str + 1\nlocal n = 1\nn = \"str\"\nlocal function unused() end\nlocal idle = 1\nprint(p, k, s, s2, s3, s4, n, Pt, K, undefinedName)\n"

var c17iTypes = []int{2, 4, 10, 22, 23, 24, 26, 27, 28}

func c17iRun(root string, ignore int, ignoreList string) map[string]bool {
	vpInit()
	c08workspace(root)
	js := "{\n \"BaseDir\": \"./\",\n \"ShowWarnFlag\": 1,\n \"OpenErrorTypes\": [22, 23, 24, 25, 26, 27, 28],\n \"IgnoreErrorTypes\": ["
	if ignore > 0 {
		js += strconv.Itoa(ignore)
	}
	js += ignoreList + "]\n}\n"
	verifVFSPut(root+"/luahelper.json", []byte(js))
	if err := common.GConfig.ReadConfig(root, "luahelper.json", nil, nil, nil); err != nil {
		return nil
	}
	common.GConfig.InsertIngoreSystemAnnotateType()
	common.GConfig.GetDirManager().InitMainDir()
	file := root + "/a.lua"
	p := CreateAllProject([]string{file}, nil, nil)
	p.HandleCheck()
	out := map[string]bool{}
	for _, e := range p.GetAllFileErrorInfo()[file] {
		out[strconv.Itoa(int(e.ErrType))+"@"+strconv.Itoa(e.Loc.StartLine)+":"+strconv.Itoa(e.Loc.StartColumn)] = true
	}
	return out
}

func VerifRun_C17i() {
	root := verifVFSRoot()
	verifVFSPut(root+"/a.lua", []byte(c17iProg))
	// one type ignored, or (last choice) all the types that need the cross-file passes at once
	ti := verifConcretize(verifRange("ignored", 0, len(c17iTypes)-1+verifParamOr("ALLSPECIAL", 1)))
	base := c17iRun(root, 0, "")
	offSet := map[int]bool{}
	var got map[string]bool
	if ti == len(c17iTypes) {
		for _, t := range []int{2, 3, 9, 10, 11, 12} {
			offSet[t] = true
		}
		got = c17iRun(root, 0, "2, 3, 9, 10, 11, 12")
	} else {
		offSet[c17iTypes[ti]] = true
		got = c17iRun(root, c17iTypes[ti], "")
	}
	verifReach("compared")
	if base == nil || got == nil {
		verifViolation("", "a well-formed luahelper.json is rejected")
		return
	}
	seen := map[int]bool{}
	for k := range base {
		t := 0
		for i := 0; i < len(k) && k[i] != '@'; i++ {
			t = t*10 + int(k[i]-'0')
		}
		seen[t] = true
		off := offSet[t]
		if off && got[k] {
			verifViolation("", "a diagnostic of an ignored type is still reported")
		}
		if !off && !got[k] {
			verifObserve("lost", k)
			verifViolation("", "ignoring one diagnostic type removed a diagnostic of another type")
		}
	}
	for k := range got {
		if !base[k] {
			verifObserve("extra", k)
			verifViolation("", "ignoring a diagnostic type produced a diagnostic that is absent otherwise")
		}
	}
	for _, t := range c17iTypes {
		if !seen[t] {
			verifObserve("missing-type", strconv.Itoa(t))
			for k := range base {
				verifObserve("have", k)
			}
			verifViolation("", "harness: the program no longer produces a diagnostic of every listed type")
		}
	}
}
