//gosx:package langserver
package langserver

import (
	"context"
	lsp "luahelper-lsp/langserver/protocol"

	"github.com/yinfei8/jrpc2"
	"github.com/yinfei8/jrpc2/handler"
)

// C17-j: the master switch and a single check switched by LATER settings changes, followed by ordinary
// activity. Two files with one unused local each; the server starts with everything on; CHANGES
// workspace/didChangeConfiguration notifications choose AllEnable and CheckLocalNoUse; then the user opens
// a.lua, types a second unused local and saves (which re-publishes diagnostics). At each point the client's
// view must be the one the last configuration prescribes: nothing while the master switch or the check is
// off, otherwise one diagnostic per unused local of the current texts - for the saved file and for the file
// nobody touched.
func c17jCount(v string) int {
	n := 0
	for k := 0; k < len(v); k++ {
		if v[k] == ';' {
			n++
		}
	}
	return n
}

func VerifRun_C17j() {
	root := verifVFSRoot()
	a, b := root+"/a.lua", root+"/util.lua"
	verifVFSPut(a, []byte("local u = 1\n"))
	verifVFSPut(b, []byte("local w = 1\nlocal x = 2\n"))
	// a file that only uses the standard library: clean under every configuration, at start-up as after a
	// settings change (the server runs without the editor plug-in's library stubs, as the default options say)
	lib := root + "/lib.lua"
	verifVFSPut(lib, []byte("local t = math.floor(1.5)\nprint(t, string.format(\"x\"), os.time(), table.concat({}), unpack({1}), bit)\n"))
	c08view = map[string]string{}
	ctx := context.Background()
	l := CreateLspServer()
	l.server = jrpc2.NewServer(handler.Map{}, &jrpc2.ServerOptions{AllowPush: false, Concurrency: 1})
	opts := getDefaultIntialOptions()
	opts.AllEnable, opts.CheckLocalNoUse = true, true
	var ip InitializeParams
	ip.RootURI = lsp.DocumentURI("file://" + root)
	ip.RootPath = root
	ip.InitializationOptions = opts
	if _, err := l.Initialize(ctx, ip); err != nil {
		verifViolation("", "harness: initialize failed")
		return
	}
	_ = l.Initialized(ctx, InitializedParams{})
	_ = l.ChangeConfiguration(ctx, c17fParams(nil, nil)) // (the first notification only records settings)
	// optionally the user is in the middle of typing in the clean file when the settings change: the buffer
	// has a syntax error that is on screen (and nothing about this file is saved)
	typing := verifBool("typingInTheCleanFile")
	if typing {
		ul := lsp.DocumentURI("file://" + lib)
		_ = l.TextDocumentDidOpen(ctx, lsp.DidOpenTextDocumentParams{TextDocument: lsp.TextDocumentItem{URI: ul, Text: "local t = math.floor(1.5)\nprint(t, string.format(\"x\"), os.time(), table.concat({}), unpack({1}), bit)\n"}})
		_ = l.TextDocumentDidChange(ctx, lsp.DidChangeTextDocumentParams{
			TextDocument:   lsp.VersionedTextDocumentIdentifier{TextDocumentIdentifier: lsp.TextDocumentIdentifier{URI: ul}},
			ContentChanges: []lsp.TextDocumentContentChangeEvent{{Text: "local t = \n"}}})
	}
	on, master := true, true
	for k := 0; k < verifParam("CHANGES"); k++ {
		vs := c17fParams(nil, nil)
		vs.Settings.Luahelper.WarnParam.AllEnable = verifBool("allEnable")
		vs.Settings.Luahelper.WarnParam.CheckLocalNoUse = verifBool("localNoUse")
		_ = l.ChangeConfiguration(ctx, vs)
		on = vs.Settings.Luahelper.WarnParam.AllEnable && vs.Settings.Luahelper.WarnParam.CheckLocalNoUse
		master = vs.Settings.Luahelper.WarnParam.AllEnable
	}
	verifReach("configured")
	ua, ub := "file://"+a, "file://"+b
	if verifParam("CHANGES") == 0 {
		on = true
	}
	check := func(na, nb int, when string) {
		wa, wb := 0, 0
		if on {
			wa, wb = na, nb
		}
		if typing {
			if shown := c08view["file://"+lib] != ""; shown != master {
				verifObserve("view", when+" [lib: "+c08view["file://"+lib]+"]")
				verifViolation("", "the syntax error of an unsaved buffer is not shown exactly when the master switch is on, "+when)
			}
		} else if c08view["file://"+lib] != "" {
			verifObserve("view", when+" [lib: "+c08view["file://"+lib]+"]")
			verifViolation("", "a file that only uses the standard library shows diagnostics "+when)
		}
		if c17jCount(c08view[ua]) != wa || c17jCount(c08view[ub]) != wb {
			verifObserve("view", when+" [a: "+c08view[ua]+"] [util: "+c08view[ub]+"]")
			verifViolation("", "the diagnostics shown "+when+" are not those the last configuration prescribes")
		}
	}
	check(1, 2, "after the settings change")
	// ordinary activity
	uri := lsp.DocumentURI(ua)
	_ = l.TextDocumentDidOpen(ctx, lsp.DidOpenTextDocumentParams{TextDocument: lsp.TextDocumentItem{URI: uri, Text: "local u = 1\n"}})
	txt := "local u = 1\nlocal v = 2\n"
	_ = l.TextDocumentDidChange(ctx, lsp.DidChangeTextDocumentParams{
		TextDocument:   lsp.VersionedTextDocumentIdentifier{TextDocumentIdentifier: lsp.TextDocumentIdentifier{URI: uri}},
		ContentChanges: []lsp.TextDocumentContentChangeEvent{{Text: txt}}})
	verifVFSPut(a, []byte(txt))
	_ = l.TextDocumentDidSave(ctx, lsp.DidSaveTextDocumentParams{TextDocument: lsp.TextDocumentIdentifier{URI: uri}, Text: &txt})
	verifReach("saved")
	check(2, 2, "after a save that follows the settings change")
}
