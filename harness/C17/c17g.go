//gosx:package langserver
package langserver

import (
	"context"
	lsp "luahelper-lsp/langserver/protocol"

	"github.com/yinfei8/jrpc2"
	"github.com/yinfei8/jrpc2/handler"
)

// C17-g: "Malformed settings are rejected or ignored without taking the server down." The ignore lists of
// the client settings and of luahelper.json are documented as literal names or regular expressions; users
// write globs and paths there (`*.lua`, `c++/`, `[old]`). Every list is given a solver-chosen entry from a
// set of well-formed and ill-formed patterns - through the initialize options, a later configuration change
// or luahelper.json - and the server is started on a small workspace. It must come up; entries that occur
// literally in a path must still work, and files no entry matches must keep their diagnostics.

var c17gPatterns = []string{"lib/", "*.lua", "c++/", "[old", "a{2,1}", "(", "lib/b.lua", "\\", "gen/.*"}

// the files each pattern matches - literally (substring) or, for a well-formed expression, as a regular expression
var c17gMatch = [][]bool{
	// a.lua  lib/b.lua  c++/c.lua  gen/d.lua
	{false, true, false, false},
	{false, false, false, false},
	{false, false, true, false},
	{false, false, false, false},
	{false, false, false, false},
	{false, false, false, false},
	{false, true, false, false},
	{false, false, false, false},
	{false, false, false, true},
}

var c17gFiles = []string{"a.lua", "lib/b.lua", "c++/c.lua", "gen/d.lua"}

func VerifRun_C17g() {
	root := verifVFSRoot()
	for _, f := range c17gFiles {
		verifVFSPut(root+"/"+f, []byte("local u = 1\n"))
	}
	pi := verifConcretize(verifRange("pattern", 0, len(c17gPatterns)-1))
	pat := c17gPatterns[pi]
	via := verifConcretize(verifRange("via", 0, verifParamOr("VIAS", 5)-1))
	c08view = map[string]string{}
	ctx := context.Background()
	l := CreateLspServer()
	l.server = jrpc2.NewServer(handler.Map{}, &jrpc2.ServerOptions{AllowPush: false, Concurrency: 1})
	opts := getDefaultIntialOptions()
	opts.AllEnable, opts.CheckLocalNoUse = true, true
	quoted := ""
	for i := 0; i < len(pat); i++ {
		if pat[i] == '\\' || pat[i] == '"' {
			quoted += "\\"
		}
		quoted += string(pat[i])
	}
	switch via {
	case 0:
		opts.IgnoreFileOrDirError = []string{pat}
	case 2:
		verifVFSPut(root+"/luahelper.json", []byte("{\n \"BaseDir\": \"./\",\n \"ShowWarnFlag\": 1,\n \"IgnoreFileErr\": [\""+quoted+"\"]\n}\n"))
	case 3:
		verifVFSPut(root+"/luahelper.json", []byte("{\n \"BaseDir\": \"./\",\n \"ShowWarnFlag\": 1,\n \"IgnoreFileErrTypes\": [{\"File\": \""+quoted+"\", \"Types\": [4]}]\n}\n"))
	case 4:
		// the name of a project-specific import function (ReferFrameFiles), written carelessly
		verifVFSPut(root+"/luahelper.json", []byte("{\n \"BaseDir\": \"./\",\n \"ShowWarnFlag\": 1,\n \"ReferFrameFiles\": [{\"Name\": \""+quoted+"\", \"type\": 0, \"SuffixFlag\": 1}]\n}\n"))
	}
	var ip InitializeParams
	ip.RootURI = lsp.DocumentURI("file://" + root)
	ip.RootPath = root
	ip.InitializationOptions = opts
	_, err := l.Initialize(ctx, ip)
	verifReach("initialized")
	if err != nil {
		return // rejected: acceptable
	}
	_ = l.Initialized(ctx, InitializedParams{})
	if via == 1 {
		_ = l.ChangeConfiguration(ctx, c17fParams(nil, nil))
		_ = l.ChangeConfiguration(ctx, c17fParams(nil, []string{pat}))
	}
	verifReach("running")
	if via == 4 {
		// the import-function names are used when a request looks at the line under the cursor
		ua := lsp.DocumentURI("file://" + root + "/a.lua")
		_ = l.TextDocumentDidOpen(ctx, lsp.DidOpenTextDocumentParams{TextDocument: lsp.TextDocumentItem{URI: ua, Text: "local u = 1\n"}})
		_, _ = l.TextDocumentHover(ctx, lsp.TextDocumentPositionParams{TextDocument: lsp.TextDocumentIdentifier{URI: ua}, Position: lsp.Position{Line: 0, Character: 7}})
		_, _ = l.TextDocumentDefine(ctx, lsp.TextDocumentPositionParams{TextDocument: lsp.TextDocumentIdentifier{URI: ua}, Position: lsp.Position{Line: 0, Character: 7}})
		verifReach("asked")
		return
	}
	view := ""
	for i, f := range c17gFiles {
		v := c08view["file://"+root+"/"+f]
		view += "[" + f + ": " + v + "]"
		if c17gMatch[pi][i] && v != "" {
			verifViolation("", "a file whose path contains the ignore entry still shows its diagnostics")
		}
		if !c17gMatch[pi][i] && v == "" {
			verifViolation("", "a file that the ignore entry does not match shows no diagnostics")
		}
	}
	verifObserve("view", view)
}
