//gosx:package langserver/check/common
package common

// C17-a: positional switch list -> which diagnostic types are silenced (client settings mode).
func VerifSetup_C17() {
	GlobalConfigDefautInit()
	GConfig.IntialGlobalVar()
}

func VerifRun_C17a() {
	k := verifParam("K")
	flags := make([]bool, 26)
	nfalse := 0
	for i := range flags {
		flags[i] = verifBool("f")
		if !flags[i] {
			nfalse++
		}
		verifAssume(nfalse <= k)
	}
	// a previous, arbitrary setting must not leak into the next one
	prev := make([]bool, 26)
	for i := range prev {
		prev[i] = true
	}
	t := verifConcretize(verifRange("t", 1, 29))
	switch verifConcretize(verifRange("prevoff", 0, 2)) { // previous setting: all on / master off / the queried type off
	case 1:
		prev[0] = false
	case 2:
		if t < 26 {
			prev[t] = false
		}
	}
	GConfig.HandleChangeCheckList(prev, nil, nil)
	GConfig.HandleChangeCheckList(flags, nil, nil)
	got := GConfig.IsIgnoreErrorFile("/w/x.lua", CheckErrorType(t))
	// documented: switch 0 is the master switch; switch i controls diagnostic type i (1..25);
	// types above 25 have no client switch and stay off in client mode
	want := !flags[0] || t > 25 || !flags[t]
	verifReach("checked")
	if got != want {
		verifViolation("", "a switch silences a diagnostic type other than the one it names (or fails to silence its own)")
	}
}

// C17-c: per-file type rules combine: a diagnostic of type t in file f is silenced iff some rule whose
// pattern occurs in f lists t. Rules are literal patterns (no regex metacharacters), so the compiled
// regex the real ReadConfig adds per rule is equivalent to the containment test.
func c17pat(tag string, n int) string {
	return string(verifBytesIn(tag, n, "ab/"))
}

func VerifRun_C17c() {
	all := make([]bool, 26)
	for i := range all {
		all[i] = true
	}
	GConfig.HandleChangeCheckList(all, nil, nil)
	file := "/" + c17pat("file", verifParam("FILELEN")) + ".lua"
	p1 := c17pat("p1", verifParam("PATLEN"))
	p2 := c17pat("p2", verifParam("PATLEN"))
	verifAssume(p1 != p2)
	t1, t2 := verifRange("t1", 4, 5), verifRange("t2", 4, 5)
	t := verifRange("t", 4, 6)
	in1, in2 := false, false
	fb := []byte(file)
	for i := 0; i+len(p1) <= len(fb); i++ {
		if string(fb[i:i+len(p1)]) == p1 {
			in1 = true
		}
		if string(fb[i:i+len(p2)]) == p2 {
			in2 = true
		}
	}
	want := (in1 && t == t1) || (in2 && t == t2)
	verifReach("checked")
	run := func(order int) bool {
		GConfig.IgnoreFileErrTypesMap = map[string](map[int]bool){}
		if order == 0 {
			GConfig.IgnoreFileErrTypesMap[p1] = map[int]bool{t1: true}
			GConfig.IgnoreFileErrTypesMap[p2] = map[int]bool{t2: true}
		} else {
			GConfig.IgnoreFileErrTypesMap[p2] = map[int]bool{t2: true}
			GConfig.IgnoreFileErrTypesMap[p1] = map[int]bool{t1: true}
		}
		return GConfig.IsIgnoreErrorFile(file, CheckErrorType(t))
	}
	reps := 1
	if verifNative() {
		reps = 100 // native map iteration order is random
	}
	for r := 0; r < reps; r++ {
		if run(0) != want || run(1) != want {
			verifViolation("", "per-file type rules do not combine as documented (type silenced iff some matching rule lists it)")
			return
		}
	}
}
