//gosx:package langserver/check
package check

import (
	"luahelper-lsp/langserver/check/common"
	"strconv"
)

// C17-d (end to end): with a symbolic subset of the client switches off, the diagnostics of a whole
// analysis (all passes through the real pools) are exactly the all-on diagnostics minus the types
// switched off - nothing else disappears, nothing new appears. The program produces diagnostics of the
// cross-file types (2 undefined, 3 defined later, 10 call argument count) as well as first-pass types
// (4 unused local, 5 duplicate key, 20 self assignment).
const c17dProg = "function foo(a) return a end\nfoo(1, 2, 3)\nprint(nodef)\nprint(later)\nlater = 1\nlocal unused = 1\nlocal t = { k = 1, k = 2 }\nxx = 1\nxx = xx\ndo\n goto nolabel\nend\n"

var c17dTypes = []int{2, 3, 9, 10, 11, 12, 4, 5, 20}

func c17dRun(root string, flags []bool) map[string]bool {
	common.GConfig.HandleChangeCheckList(flags, nil, nil)
	file := root + "/a.lua"
	p := CreateAllProject([]string{file}, nil, nil)
	p.HandleCheck()
	out := map[string]bool{}
	for _, e := range p.GetAllFileErrorInfo()[file] {
		out[strconv.Itoa(int(e.ErrType))+"@"+strconv.Itoa(e.Loc.StartLine)+":"+strconv.Itoa(e.Loc.StartColumn)] = true
	}
	return out
}

func VerifRun_C17d() {
	root := verifVFSRoot()
	c08workspace(root)
	verifVFSPut(root+"/a.lua", []byte(c17dProg))
	all := make([]bool, 26)
	for i := range all {
		all[i] = true
	}
	flags := make([]bool, 26)
	copy(flags, all)
	nt := verifParam("TYPES")
	flags[0] = verifBool("master")
	for i := 0; i < nt; i++ {
		flags[c17dTypes[i]] = verifBool("f" + strconv.Itoa(c17dTypes[i]))
	}
	base := c17dRun(root, all)
	got := c17dRun(root, flags)
	verifReach("compared")
	seen := 0
	for k := range base {
		t := 0
		for i := 0; i < len(k) && k[i] != '@'; i++ {
			t = t*10 + int(k[i]-'0')
		}
		off := !flags[0] || (t < 26 && !flags[t])
		if t == 10 || t == 2 || t == 3 {
			seen++
		}
		if off && got[k] {
			verifViolation("", "a diagnostic of a switched-off type is still reported")
		}
		if !off && !got[k] {
			verifViolation("", "switching off some check types removed a diagnostic of a type that is still on")
		}
	}
	for k := range got {
		if !base[k] {
			verifViolation("", "switching off some check types produced a diagnostic that is absent with all checks on")
		}
	}
	if seen < 3 {
		verifViolation("", "harness: the program no longer produces the cross-file diagnostics (types 2, 3, 10)")
	}
}

// C17-d2: the same end-to-end comparison over a program that also triggers the expression-level checks
// (13 duplicate parameter, 14 same operands, 15 / 16 constant or / and, 19 duplicate condition, 21 float
// equality, 17 assignment to a never-read local): every choice of up to two check types switched off.
const c17d2Prog = "function foo(a) return a end\nfoo(1, 2, 3)\nprint(nodef)\nlocal unused = 1\nlocal t = { k = 1, k = 2 }\nxx = 1\nxx = xx\nlocal function dp(p, p) end\nlocal v = xx\nlocal b1 = v ~= v\nlocal b2 = v == 1.5\nlocal b3 = v or true\nlocal b4 = v and false\nif v then xx = 2 elseif v then xx = 3 end\nlocal b5 = v < v\nprint(b1, b2, b3, b4, b5, dp)\nlocal nu = 1\nnu = 2\n"

var c17d2Types = []int{2, 4, 5, 10, 13, 14, 15, 16, 17, 19, 20, 21}

func VerifRun_C17d2() {
	root := verifVFSRoot()
	c08workspace(root)
	verifVFSPut(root+"/a.lua", []byte(c17d2Prog))
	all := make([]bool, 26)
	for i := range all {
		all[i] = true
	}
	flags := make([]bool, 26)
	copy(flags, all)
	i1 := verifConcretize(verifRange("off1", 0, len(c17d2Types)-1))
	i2 := verifConcretize(verifRange("off2", 0, len(c17d2Types)-1))
	flags[c17d2Types[i1]] = false
	flags[c17d2Types[i2]] = false
	base := c17dRun(root, all)
	got := c17dRun(root, flags)
	verifReach("compared")
	seen := map[int]bool{}
	for k := range base {
		t := 0
		for i := 0; i < len(k) && k[i] != '@'; i++ {
			t = t*10 + int(k[i]-'0')
		}
		seen[t] = true
		off := t < 26 && !flags[t]
		if off && got[k] {
			verifViolation("", "a diagnostic of a switched-off type is still reported")
		}
		if !off && !got[k] {
			verifViolation("", "switching off some check types removed a diagnostic of a type that is still on")
		}
	}
	for k := range got {
		if !base[k] {
			verifViolation("", "switching off some check types produced a diagnostic that is absent with all checks on")
		}
	}
	for _, t := range c17d2Types {
		if !seen[t] {
			verifViolation("", "harness: the program no longer produces a diagnostic of every listed type")
		}
	}
}
