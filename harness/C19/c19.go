//gosx:package langserver/check
package check

import (
	"luahelper-lsp/langserver/check/common"
	"luahelper-lsp/langserver/check/compiler/ast"
	"luahelper-lsp/langserver/check/compiler/lexer"
)

// C19: the document-symbol outline lists every top-level local, every global and every function
// (including table members t.f, t:m and function fields of table constructors), each with a well-formed
// range inside the file that contains the declaring identifier; a workspace-symbol query for the exact
// name of a global or function returns an entry located at the declaration.

type c19decl struct {
	full       string // name as the outline spells it, without the parameter list: "x", "t.f", "t:m", "T.k"
	short      string // bare identifier
	loc        lexer.Location
	fn         bool
	local      bool // declared through a local (workspace symbols are only required for globals and functions)
	nested     bool // function member of a table that is itself a field (u.v.w)
	field      bool // function value of a table-constructor field (T = { k = function ... })
	deep       bool // local function declared below the top level
	inGlobalFn bool // ... inside the body of a global function or of a function member of a global table
	viaG       bool // global declared as a member of _G
	gMember    bool // function field of a table declared as `_G.t = { ... }`
}

func c19collect(b *ast.Block, depth int, localNames map[string]bool, out *[]c19decl) {
	for _, s := range b.Stats {
		switch st := s.(type) {
		case *ast.LocalVarDeclStat:
			for i, n := range st.NameList {
				if depth == 0 {
					fnValue := false
					if i < len(st.ExpList) {
						_, fnValue = st.ExpList[i].(*ast.FuncDefExp)
					}
					// (field: the value is a function expression - local f = function ... end)
					*out = append(*out, c19decl{full: n, short: n, loc: st.VarLocList[i], local: true, field: fnValue})
				}
				localNames[n] = true
				if i < len(st.ExpList) {
					if tc, ok := st.ExpList[i].(*ast.TableConstructorExp); ok {
						c19fields(n, tc, true, depth > 0, out)
					}
				}
			}
		case *ast.LocalFuncDefStat:
			if depth == 0 {
				*out = append(*out, c19decl{full: st.Name, short: st.Name, loc: st.NameLoc, fn: true, local: true})
			}
			localNames[st.Name] = true
		case *ast.AssignStat:
			for i, v := range st.VarList {
				switch x := v.(type) {
				case *ast.NameExp:
					if localNames[x.Name] {
						// a local assigned a table constructor later on (forward-declared dispatch table): its
						// function fields are declarations
						if i < len(st.ExpList) && depth == 0 {
							if tc, ok := st.ExpList[i].(*ast.TableConstructorExp); ok {
								c19fields(x.Name, tc, true, false, out)
							}
						}
						continue
					}
					isFn := false
					if i < len(st.ExpList) {
						if _, ok := st.ExpList[i].(*ast.FuncDefExp); ok {
							isFn = true
						}
						if tc, ok := st.ExpList[i].(*ast.TableConstructorExp); ok {
							c19fields(x.Name, tc, false, false, out)
						}
					}
					seen := false
					for _, d := range *out {
						if d.full == x.Name && !d.local {
							seen = true // a later assignment to the same global is not a declaration
						}
					}
					if !seen {
						*out = append(*out, c19decl{full: x.Name, short: x.Name, loc: x.Loc, fn: isFn})
					}
				case *ast.TableAccessExp:
					if pn, okp := x.PrefixExp.(*ast.NameExp); okp && pn.Name == "_G" && !localNames["_G"] {
						// `_G.name = value` / `function _G.name() end` declares the global `name`
						if key, okk := x.KeyExp.(*ast.StringExp); okk {
							isFn := false
							if i < len(st.ExpList) {
								_, isFn = st.ExpList[i].(*ast.FuncDefExp)
								if tc, ok := st.ExpList[i].(*ast.TableConstructorExp); ok {
									n0 := len(*out)
									c19fields(key.Str, tc, false, false, out)
									for k := n0; k < len(*out); k++ {
										(*out)[k].viaG, (*out)[k].gMember = true, true
									}
								}
							}
							seen := false
							for _, d := range *out {
								if d.full == key.Str && !d.local {
									seen = true
								}
							}
							if !seen {
								*out = append(*out, c19decl{full: key.Str, short: key.Str, loc: key.Loc, fn: isFn, viaG: true, field: isFn && x.Loc.StartColumn >= 0 && c19isValueFn(st, i)})
							}
						}
						continue
					}
					if i < len(st.ExpList) {
						if fd, ok := st.ExpList[i].(*ast.FuncDefExp); ok {
							if pn, ok2 := x.PrefixExp.(*ast.NameExp); ok2 {
								if key, ok3 := x.KeyExp.(*ast.StringExp); ok3 {
									sep := "."
									if fd.IsColon {
										sep = ":"
									}
									// `t.k = function ... end` (the function expression starts after the key) as opposed to `function t.k() ... end`
									asValue := fd.Loc.StartLine > key.Loc.StartLine || (fd.Loc.StartLine == key.Loc.StartLine && fd.Loc.StartColumn > key.Loc.StartColumn)
									*out = append(*out, c19decl{full: pn.Name + sep + key.Str, short: key.Str, loc: key.Loc, fn: true, local: localNames[pn.Name], field: asValue})
								}
							}
						}
					}
				}
			}
		case *ast.DoStat:
			c19collect(st.Block, depth+1, localNames, out)
		}
	}
}

// c19nested collects the functions declared below the top level: local functions and global functions
// inside function bodies and control blocks (the top level itself is covered by c19collect).
func c19nested(b *ast.Block, depth int, inGlobalFn bool, localNames map[string]bool, out *[]c19decl) {
	if b == nil {
		return
	}
	body := func(e ast.Exp, global bool) {
		if fd, ok := e.(*ast.FuncDefExp); ok {
			c19nested(fd.Block, depth+1, inGlobalFn || global, localNames, out)
		}
	}
	for _, s := range b.Stats {
		switch st := s.(type) {
		case *ast.LocalFuncDefStat:
			if depth > 0 {
				*out = append(*out, c19decl{full: st.Name, short: st.Name, loc: st.NameLoc, fn: true, local: true, deep: true, inGlobalFn: inGlobalFn})
			}
			c19nested(st.Exp.Block, depth+1, inGlobalFn, localNames, out)
		case *ast.LocalVarDeclStat:
			for _, e := range st.ExpList {
				body(e, false)
			}
		case *ast.AssignStat:
			for i, e := range st.ExpList {
				global := false
				if i < len(st.VarList) {
					switch v := st.VarList[i].(type) {
					case *ast.NameExp:
						global = !localNames[v.Name]
					case *ast.TableAccessExp:
						if pn, ok := v.PrefixExp.(*ast.NameExp); ok {
							global = !localNames[pn.Name]
						}
					}
				}
				body(e, global)
			}
		case *ast.DoStat:
			c19nested(st.Block, depth+1, inGlobalFn, localNames, out)
		case *ast.WhileStat:
			c19nested(st.Block, depth+1, inGlobalFn, localNames, out)
		case *ast.RepeatStat:
			c19nested(st.Block, depth+1, inGlobalFn, localNames, out)
		case *ast.ForNumStat:
			c19nested(st.Block, depth+1, inGlobalFn, localNames, out)
		case *ast.ForInStat:
			c19nested(st.Block, depth+1, inGlobalFn, localNames, out)
		case *ast.IfStat:
			for _, bb := range st.Blocks {
				c19nested(bb, depth+1, inGlobalFn, localNames, out)
			}
		}
	}
}

func c19fields(owner string, tc *ast.TableConstructorExp, local bool, inBlock bool, out *[]c19decl) {
	for i, k := range tc.KeyExps {
		ks, ok := k.(*ast.StringExp)
		if !ok || i >= len(tc.ValExps) {
			continue
		}
		if _, isF := tc.ValExps[i].(*ast.FuncDefExp); isF {
			*out = append(*out, c19decl{full: owner + "." + ks.Str, short: ks.Str, loc: ks.Loc, fn: true, local: local, field: true})
		}
		if sub, isT := tc.ValExps[i].(*ast.TableConstructorExp); isT {
			var inner []c19decl
			c19fields(owner+"."+ks.Str, sub, local, inBlock, &inner)
			for _, d := range inner {
				d.nested = true
				*out = append(*out, d)
			}
		}
	}
}

// c19isValueFn: the i-th value of the assignment is a function expression written as a value
// (`_G.h = function ... end`), as opposed to the statement form `function _G.h() ... end`.
func c19isValueFn(st *ast.AssignStat, i int) bool {
	if i >= len(st.ExpList) {
		return false
	}
	fd, ok := st.ExpList[i].(*ast.FuncDefExp)
	if !ok {
		return false
	}
	v := common.GetExpLoc(st.VarList[i])
	return fd.Loc.StartLine > v.EndLine || (fd.Loc.StartLine == v.EndLine && fd.Loc.StartColumn >= v.EndColumn)
}

func c19strip(n string) string {
	for i := 0; i < len(n); i++ {
		if n[i] == '(' {
			return n[:i]
		}
	}
	return n
}

func c19flatten(v []common.FileSymbolStruct, out *[]common.FileSymbolStruct) {
	for i := range v {
		*out = append(*out, v[i])
		c19flatten(v[i].Children, out)
	}
}

func c19inside(src []byte, l lexer.Location) bool {
	ls := vpLineStarts(src)
	if l.StartLine < 1 || l.EndLine < l.StartLine || l.EndLine > len(ls) || l.StartColumn < 0 || l.EndColumn < 0 {
		return false
	}
	if l.StartLine == l.EndLine && l.StartColumn > l.EndColumn {
		return false
	}
	lineLen := func(n int) int {
		end := len(src)
		if n < len(ls) {
			end = ls[n] - 1
		}
		return end - ls[n-1]
	}
	return l.StartColumn <= lineLen(l.StartLine) && l.EndColumn <= lineLen(l.EndLine)
}

func c19contains(outer, inner lexer.Location) bool {
	if inner.StartLine < outer.StartLine || (inner.StartLine == outer.StartLine && inner.StartColumn < outer.StartColumn) {
		return false
	}
	if inner.EndLine > outer.EndLine || (inner.EndLine == outer.EndLine && inner.EndColumn > outer.EndColumn) {
		return false
	}
	return true
}

var c19templates = []string{
	/* 0 */ "local \x01a = 1\n\x02b = 2\nlocal function \x03f(p) return p end\nfunction \x04g(q) end\n",
	/* 1 */ "local t = {}\nfunction t.\x01f(x) end\nfunction t:\x02m(y) end\nlocal z = 1\n",
	/* 2 */ "T = { \x01k = function() end, n = 1 }\nlocal u = { \x02v = function() end }\n",
	/* 3 */ "do\n local H = {}\n function H.\x01s() end\nend\nfunction top() end\n",
	/* 4 */ "local u = { v = { \x01w = function() end } }\nG = { h = { \x02i = function() end } }\n",
	/* 5 */ "\x01a = 1\n\x02a = 2\nlocal \x03a = 3\nlocal \x04a = 4\n",
	// functions below the top level, in sibling scopes with different numbers of sub-scopes
	/* 6 */ "local function \x01c(x)\n if x then\n  return 1\n else\n  return 2\n end\nend\nlocal function \x02b()\n local function \x03h() end\n local function \x04i() end\nend\n",
	/* 7 */ "function \x01o()\n local function \x02p()\n  local function \x03q() end\n end\n while true do\n  local function \x04r() end\n end\nend\nlocal function \x05s()\n for i = 1, 2 do\n  local function \x06t() end\n end\nend\n",
	// a top-level local declared twice, the later declaration carrying the functions
	/* 8 */ "local \x01c = nil\nlocal \x02c = {}\nfunction \x02c.load() end\nfunction \x02c:save() end\nlocal \x03h = false\nlocal function \x04h(a) end\n",
	// members of a global table written before the statement that declares the table
	/* 9 */ "function \x01g.load(x) end\n\x01g.dbg = true\n\x01g = {}\nfunction \x02k.run() end\n\x02k = { n = 1 }\n\x02k.more = 2\n",
	// a global table and its members declared on one line
	/* 10 */ "\x01r = {} function \x01r.lookup(id) end\n\x02c = { a = 1 } \x02c.k = function() end function \x02c:m() end\n",
	// locals carrying a Lua 5.4 attribute
	/* 11 */ "local \x01a <const> = 3\nlocal \x02h <close> = nil\nlocal \x03k <const>, \x04m <const> = 1, 2\nlocal \x05e <const> = function(err) end\nlocal \x06t <const> = { n = 1 }\n",
	// a forward-declared local that is later assigned a table of functions (dispatch table)
	/* 12 */ "local \x01c\nlocal function dsp(n) return \x01c[n] end\n\x01c = { \x02s = function(p) end, \x03t = function() end }\nlocal \x04e, \x05f\n\x05f = { \x06u = function() end }\n",
	// globals declared through _G
	/* 13 */ "_G.\x01v = 1\nfunction _G.\x02f(a) end\n_G.\x03t = { \x04k = function() end }\n_G.\x05h = function() end\nlocal z = \x01v\n",
	// a module table that is re-assigned as a whole after its members were attached
	/* 14 */ "local \x01t = {}\nfunction \x01t.\x02f() end\nfunction \x01t:\x03m() end\n\x01t = setmetatable(\x01t, {})\n\x04g = {}\nfunction \x04g.\x05h() end\n\x04g = wrap(\x04g)\n",
}

func VerifRun_C19() {
	ti := verifConcretize(verifRange("template", verifParam("TMIN"), verifParam("TMAX")))
	// the outline is asked for right after start-up, or after an edit (a didChange re-analyses the file in
	// real-time mode and later requests are answered from that analysis)
	edited := verifBool("edited")
	vpOpenAll = edited
	file := "/w/a.lua"
	src := vpInstantiate(c19templates[ti], "n")
	p, fs := vpProject([]string{file}, [][]byte{src})
	var decls []c19decl
	localNames := map[string]bool{}
	c19collect(fs[0].FileResult.Block, 0, localNames, &decls)
	c19nested(fs[0].FileResult.Block, 0, false, localNames, &decls)
	var flat []common.FileSymbolStruct
	tree := p.FindFileAllSymbol(file)
	c19flatten(tree, &flat)
	verifReach("outline")
	// a symbol's range covers the ranges of the symbols listed under it
	var nest func(v []common.FileSymbolStruct) bool
	nest = func(v []common.FileSymbolStruct) bool {
		for i := range v {
			for j := range v[i].Children {
				c := v[i].Children[j].Loc
				before := c.StartLine < v[i].Loc.StartLine || (c.StartLine == v[i].Loc.StartLine && c.StartColumn < v[i].Loc.StartColumn)
				if !before && !c19contains(v[i].Loc, c) {
					return false // (a member written before the statement that declares its table cannot be covered)
				}
			}
			if !nest(v[i].Children) {
				return false
			}
		}
		return true
	}
	if !nest(tree) {
		verifViolation("", "an outline entry's range does not cover the entries nested under it")
	}
	for i := range flat {
		if !c19inside(src, flat[i].Loc) {
			verifViolation("", "an outline entry has an ill-formed range (start after end, or outside the document)")
			break
		}
	}
	for _, d := range decls {
		if x, ok := c19textAt(src, d.loc); !ok || x != d.short {
			// (the declarations are collected from the real syntax tree: the location it records for the
			// declaring identifier must be where the identifier is written)
			verifViolation("", "the location recorded for a declaring identifier does not cover the identifier")
			break
		}
	}
	for _, d := range decls {
		class := ""
		if d.nested {
			class = "C19-nested-table-function"
		}
		if d.deep {
			class = "C19-nested-function-outline"
		}
		if d.gMember {
			class = "C19-G-table-members"
		}
		if edited || verifParamOr("EDITED", 0) == 2 {
			// a member written before the statement that declares its (global) table
			owner := d.full
			for k := 0; k < len(owner); k++ {
				if owner[k] == '.' || owner[k] == ':' {
					owner = owner[:k]
					break
				}
			}
			if owner != d.full {
				for _, d2 := range decls {
					if d2.full == owner && (d2.loc.StartLine > d.loc.StartLine || (d2.loc.StartLine == d.loc.StartLine && d2.loc.StartColumn > d.loc.StartColumn)) {
						class = "C19-member-before-table-after-edit"
					}
				}
			}
		}
		later := false
		for _, d2 := range decls {
			if d2.full == d.full && !locEq(d2.loc, d.loc) {
				class = "C19-redeclared-name"
				if d2.local == d.local && (d2.loc.StartLine > d.loc.StartLine || (d2.loc.StartLine == d.loc.StartLine && d2.loc.StartColumn > d.loc.StartColumn)) {
					later = true
				}
			}
		}
		if class == "C19-redeclared-name" && d.local && !later {
			class = "" // the known defect drops the earlier declarations: the last one must be listed at its place
		}
		found, placed := false, false
		for i := range flat {
			if c19strip(flat[i].Name) == d.full {
				found = true
				if c19contains(flat[i].Loc, d.loc) {
					placed = true
				}
			}
		}
		if !found || !placed {
			verifObserve("declaration", d.full)
		}
		if !found {
			verifViolation(class, "a declaration is missing from the document outline")
		} else if !placed {
			if class == "" && d.field {
				class = "C19-field-function-range"
			}
			verifViolation(class, "the outline range of a declaration does not contain its declaring identifier")
		}
	}
}

// workspace symbols: concrete names (the fuzzy matcher scores with floating point)
func VerifRun_C19ws() {
	root := verifVFSRoot()
	c08workspaceRoot(root)
	ti := verifConcretize(verifRange("template", verifParam("TMIN"), verifParam("TMAX")))
	variant := verifConcretize(verifRange("variant", 0, 1))
	t := []byte(c19templates[ti])
	for i, c := range t {
		if c >= 1 && c <= 9 {
			t[i] = "xy"[(int(c)+variant)%2]
		}
	}
	files := []string{root + "/a.lua", root + "/b.lua"}
	srcs := [][]byte{t, []byte("other = 1\n")}
	p, fs := vpProject(files, srcs)
	var decls []c19decl
	localNames := map[string]bool{}
	c19collect(fs[0].FileResult.Block, 0, localNames, &decls)
	c19nested(fs[0].FileResult.Block, 0, false, localNames, &decls)
	for _, d := range decls {
		if d.local && !d.fn {
			continue // only globals and functions are required to be findable
		}
		class := ""
		if d.nested {
			class = "C19-nested-table-function"
		}
		if d.inGlobalFn {
			class = "C19-local-function-in-global-function"
		}
		if d.gMember {
			class = "C19-G-table-members"
		}
		verifReach("query")
		for _, q := range []string{d.full, d.short} {
			got := p.FindWorkspaceAllSymbol(q)
			ok := false
			for i := range got {
				if got[i].FileName == files[0] && c19contains(got[i].Loc, d.loc) && c19contains(d.loc, got[i].Loc) {
					ok = true
				}
			}
			if !ok {
				verifObserve("query", q)
				verifViolation(class, "a workspace-symbol query for the exact name of a declared global or function returns no entry located at its declaration")
				break
			}
		}
	}
}

// C19-c: a file that contributes more symbols than the per-file limit of the workspace-symbol collection
// (a large data table plus a few functions): an exact-name query for each function still returns an entry
// at its declaration. The number of filler members is solver-chosen around the limit.
func VerifRun_C19big() {
	root := verifVFSRoot()
	c08workspaceRoot(root)
	n := []int{150, 199, 200, 201, 260}[verifConcretize(verifRange("filler", 0, 4))]
	src := "Codes = {\n"
	for i := 0; i < n; i++ {
		src += " e" + itoa19(i) + " = " + itoa19(i) + ",\n"
	}
	src += "}\nlocal function fmtText(c) return c end\nfunction publishAll() end\nlocal R = {}\nfunction R.publish() end\n"
	files := []string{root + "/a.lua", root + "/b.lua"}
	p, fs := vpProject(files, [][]byte{[]byte(src), []byte("other = 1\n")})
	var decls []c19decl
	localNames := map[string]bool{}
	c19collect(fs[0].FileResult.Block, 0, localNames, &decls)
	qi := verifConcretize(verifRange("query", 0, 2))
	q := []string{"fmtText", "publishAll", "publish"}[qi]
	verifReach("query")
	got := p.FindWorkspaceAllSymbol(q)
	ok := false
	for _, d := range decls {
		if d.short != q {
			continue
		}
		for i := range got {
			if got[i].FileName == files[0] && c19contains(got[i].Loc, d.loc) && c19contains(d.loc, got[i].Loc) {
				ok = true
			}
		}
	}
	if !ok {
		verifViolation("", "a workspace-symbol query for the exact name of a function declared in a file with many symbols returns no entry located at its declaration")
	}
}

func itoa19(n int) string {
	if n == 0 {
		return "0"
	}
	s := ""
	for n > 0 {
		s = string([]byte{byte('0' + n%10)}) + s
		n /= 10
	}
	return s
}


func c19textAt(src []byte, l lexer.Location) (string, bool) {
	if l.StartLine != l.EndLine || l.StartLine < 1 {
		return "", false
	}
	line, col, a, b := 1, 0, -1, -1
	for i := 0; i <= len(src); i++ {
		if line == l.StartLine && col == l.StartColumn {
			a = i
		}
		if line == l.StartLine && col == l.EndColumn {
			b = i
		}
		if i < len(src) && src[i] == '\n' {
			line++
			col = 0
		} else {
			col++
		}
	}
	if a < 0 || b < a {
		return "", false
	}
	return string(src[a:b]), true
}
