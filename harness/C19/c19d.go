//gosx:package langserver/check
package check

import (
	"luahelper-lsp/langserver/check/common"
	"strconv"
)

// C19-d: outlines are per document. A global table declared in a.lua gets members and methods from b.lua
// (further down than a.lua is long). The outline of each file lists the declarations written in that file,
// each at its place in that file; no entry of a.lua's outline may point outside a.lua's text, and the
// members written in b.lua appear in b.lua's outline.
func VerifRun_C19d() {
	n1 := verifByteIn("n1", "xy")
	name := "Pl" + string([]byte{n1})
	pathpreInit19()
	a, b := "/w/a.lua", "/w/b.lua"
	srcA := []byte(name + " = {}\nfunction " + name + ".run() end\n")
	srcB := []byte("-- 1\n-- 2\n-- 3\n-- 4\nfunction " + name + ":move(dx) end\n" + name + ".speed = 1\nfunction " + name + ".stop() end\n")
	p, _ := vpProject([]string{a, b}, [][]byte{srcA, srcB})
	var flatA, flatB []common.FileSymbolStruct
	c19flatten(p.FindFileAllSymbol(a), &flatA)
	c19flatten(p.FindFileAllSymbol(b), &flatB)
	verifReach("outlined")
	digest := func(v []common.FileSymbolStruct) string {
		s := ""
		for i := range v {
			s += c19strip(v[i].Name) + "@" + strconv.Itoa(v[i].Loc.StartLine) + " "
		}
		return s
	}
	verifObserve("a.lua", digest(flatA))
	verifObserve("b.lua", digest(flatB))
	for i := range flatA {
		if !c19inside(srcA, flatA[i].Loc) {
			verifViolation("C19-cross-file-member-outline", "the outline of a file lists an entry whose range lies outside that file (a member written in another file)")
			break
		}
	}
	has := func(v []common.FileSymbolStruct, n string, line int) bool {
		for i := range v {
			x := c19strip(v[i].Name)
			if (x == n || x == name+"."+n || x == name+":"+n) && v[i].Loc.StartLine <= line && line <= v[i].Loc.EndLine {
				return true
			}
		}
		return false
	}
	if !has(flatA, "run", 2) {
		verifViolation("", "a function declared in the file is missing from its outline")
	}
	for _, m := range []struct {
		n string
		l int
	}{{"move", 5}, {"stop", 7}} {
		if !has(flatB, m.n, m.l) {
			verifViolation("C19-cross-file-member-outline", "a method written in this file for a table declared in another file is missing from this file's outline")
			break
		}
	}
}

func pathpreInit19() {
	dm := common.GConfig.GetDirManager()
	dm.SetVSRootDir("/w")
	dm.InitMainDir()
}
